"""
translate_ext_kernels.py -- translator plug-in: REAL translation of the NumPy glue kernels of
superpose.py / transform.py / align.py / StructureSimilarity.get_rmsd into Gen/Kernels.lean (namespace GenK).

Front end: a small typed matrix language.  Every Python expression gets one of the types

    Scalar | Nat | Vec3 | Mat3 | Points (n x 3) | PointsT (3 x n) | BVec3 | Bool | Shape | Str | Opt T | Tuple | Opaque

by inference from the parameter types of the unit (given positionally below) through `np.dot`, `.T`, `+ - / **2`,
`np.mean(., 0)`, `np.array([...])`, element assignment, tuple unpacking, calls of already translated kernels.  The Lean
term is chosen by the *types* of the operands (`np.dot` of Mat3 x Mat3 is `Mat3.mul`, of PointsT x Points the sum of
outer products `Np.dotTP`, of Mat3 x PointsT `Np.dotMT`, ...); what each NumPy operation means is fixed once in
lean/PdbVerif/Py/Np.lean.  `np.linalg.svd`, `np.cos`, `np.sin`, `np.pi`, `np.linalg.norm`, `np.arctan2`, `np.arccos`
become function parameters.  Statements: assignment (SSA renaming), augmented assignment, tuple unpacking, element
assignment (functional update), `if/elif/else` (joined by an `if` *expression* when both branches only assign, otherwise
the continuation is duplicated), `x is None` on an optional parameter (a `match`), `raise`, `return`.  Float literals that
are not integers become parameters `c0 ...` (their exact values are emitted next to the definition).

Anything else raises Refuse for that unit: it is reported, and the unit's previous text is spliced from
lean/gen_snapshot/Kernels.lean.  A unit that calls a refused unit is refused as well.
Output is a pure function of the source text.  Standard library only.
"""
import ast, os, sys

sys.path.insert(0, os.path.dirname(os.path.abspath(__file__)))
from translate import parse_module, find_func, Refuse, unit, refused_unit, lean_rat  # noqa: E402

FNAME = 'Kernels.lean'

BASE_CLS = '[Add α] [Sub α] [Mul α] [Neg α] [Div α] [NatCast α] [OfNat α 0] [OfNat α 1] [OfNat α 2]'
ORD_CLS = BASE_CLS + ' [LT α] [DecidableLT α]'

SIMPLE_TY = {'Scalar': 'α', 'Nat': 'Nat', 'Vec3': 'Vec3 α', 'Mat3': 'Mat3 α', 'Points': 'List (Vec3 α)',
             'PointsT': 'Np.PointsT α', 'BVec3': 'Vec3 Bool', 'Bool': 'Bool', 'Shape': 'Nat × Nat', 'Str': 'String'}

ARRAY_TYPES = ('Vec3', 'Mat3', 'Points', 'PointsT', 'BVec3')

EXC_MAP = {'ValueError': '.valueError', 'TypeError': '.typeError', 'IndexError': '.indexError', 'KeyError': '.keyError'}

# NumPy functions/constants that become parameters of the generated definitions: python name -> (lean name, args, result)
NP_EXT = {
    'np.linalg.svd': ('svd', ['Mat3'], ('Tuple', ['Mat3', 'Vec3', 'Mat3'])),
    'np.cos': ('cos', ['Scalar'], 'Scalar'),
    'np.sin': ('sin', ['Scalar'], 'Scalar'),
    'np.linalg.norm': ('norm', ['Vec3'], 'Scalar'),
    'np.arctan2': ('arctan2', ['Scalar', 'Scalar'], 'Scalar'),
    'np.arccos': ('arccos', ['Scalar'], 'Scalar'),
    'np.sqrt': ('sqrt', ['Scalar'], 'Scalar'),
}
NP_CONST = {'np.pi': ('pi', 'Scalar')}
EXT_ORDER = ['svd', 'cos', 'sin', 'pi', 'norm', 'arctan2', 'arccos', 'sqrt']
EXT_TY = {'pi': 'α'}

LEAN_RESERVED = {'at', 'from', 'end', 'fun', 'let', 'do', 'then', 'else', 'if', 'in', 'have', 'show', 'by', 'match', 'with',
                 'open', 'section', 'namespace', 'variable', 'def', 'theorem', 'instance', 'class', 'structure', 'where',
                 'Type', 'Prop', 'Sort', 'import', 'export', 'mutual', 'deriving', 'macro', 'syntax', 'local', 'private',
                 'protected', 'universe', 'axiom', 'example', 'abbrev', 'opaque', 'attribute', 'for', 'unless', 'return',
                 'try', 'catch', 'finally', 'mut', 'nomatch', 'nofun', 'calc', 'using', 'extends', 'notation', 'prefix',
                 'infix', 'postfix', 'e', 'α', '_'} | set(EXT_ORDER)


def lty(t):
    if isinstance(t, str):
        return SIMPLE_TY[t]
    if t[0] == 'Opt':
        return f'Option ({lty(t[1])})'
    if t[0] == 'Tuple':
        return ' × '.join(('(' + lty(x) + ')') if not isinstance(x, str) else lty(x) for x in t[1])
    if t[0] == 'Opaque':
        return t[1]
    raise ValueError(t)


def ext_lean_ty(name):
    if name in EXT_TY:
        return EXT_TY[name]
    for lean, args, ret in NP_EXT.values():
        if lean == name:
            return ' → '.join(lty(a) for a in args) + ' → ' + ('(' + lty(ret) + ')' if not isinstance(ret, str) else lty(ret))
    raise ValueError(name)


def proj(code, k, n):
    """k-th component of a right-nested n-tuple"""
    s = code + '.2' * k
    return s + '.1' if k < n - 1 else s


MAT_FIELDS = 'abcdefghi'
VEC_FIELDS = 'xyz'


def dotted(node):
    """a.b.c for Name/Attribute chains, else None"""
    if isinstance(node, ast.Name):
        return node.id
    if isinstance(node, ast.Attribute):
        b = dotted(node.value)
        return None if b is None else b + '.' + node.attr
    return None


class Kernel:
    """translation of one Python function (or of a suffix of its body) into a Lean definition"""

    def __init__(self, where, registry, unit_ext=None):
        self.where = where
        self.registry = registry            # python name -> signature of an already translated kernel
        self.unit_ext_spec = unit_ext or {}  # python name -> (result type, raises) : callees that stay parameters
        self.unit_ext = {}                  # python name -> (arg types, result type, raises), as used
        self.used_ext = set()
        self.lits = []
        self.ordered = False
        self.tyvars = []
        self.used_names = set()
        self.pre = []
        self.tmp = 0
        self.calls_refused = None
        # NumPy arrays are mutable and `x = y`, `x = y.T` share memory: an in-place update (`+=`, `M[i, j] = e`) is only
        # translated (as a rebinding) when the updated array has no other name
        self.shared = set()             # lean names whose array may be reachable through another name
        self.param_lean = set()         # lean names that hold a caller's array
        self.mutated_params = set()     # python parameter names updated in place
        self.ret_owned = True

    # -- bookkeeping ---------------------------------------------------------------------------
    def refuse(self, node, why):
        raise Refuse(self.where, f'line {getattr(node, "lineno", "?")}: {why}')

    def note_ty(self, t):
        if isinstance(t, tuple):
            if t[0] == 'Opaque':
                if t[1] not in self.tyvars:
                    self.tyvars.append(t[1])
            elif t[0] == 'Opt':
                self.note_ty(t[1])
            elif t[0] == 'Tuple':
                for x in t[1]:
                    self.note_ty(x)

    def fresh(self, base):
        b = '_u' if base == '_' else base + '_' if base in LEAN_RESERVED else base
        if not b.isidentifier():
            b = 'v'
        name, k = b, 0
        while name in self.used_names:
            k += 1
            name = f'{b}_{k}'
        self.used_names.add(name)
        return name

    def hoist(self, code):
        self.tmp += 1
        t = self.fresh(f't{self.tmp}')
        self.pre.append((t, code))
        return t

    def ext(self, lean):
        self.used_ext.add(lean)
        return lean

    # -- coercions -----------------------------------------------------------------------------
    def scalar(self, code, ty, node):
        if ty == 'Scalar':
            return code
        if ty == 'Nat':
            return f'(({code} : Nat) : α)'
        if isinstance(ty, tuple) and ty[0] == 'IntLit':
            k = ty[1]
            if k < 0:
                return f'(-{self.scalar(None, ("IntLit", -k), node)})'
            return f'({k} : α)' if k <= 2 else f'(({k} : Nat) : α)'
        self.refuse(node, f'{ty} where a scalar is needed')

    def is_num(self, ty):
        return ty in ('Scalar', 'Nat') or (isinstance(ty, tuple) and ty[0] == 'IntLit')

    def int_value(self, node):
        if isinstance(node, ast.Constant) and isinstance(node.value, int) and not isinstance(node.value, bool):
            return node.value
        if isinstance(node, ast.UnaryOp) and isinstance(node.op, ast.USub):
            v = self.int_value(node.operand)
            return None if v is None else -v
        return None

    # -- expressions ---------------------------------------------------------------------------
    def ex(self, node, env):
        """(lean code, type)"""
        if isinstance(node, ast.Constant):
            v = node.value
            if isinstance(v, bool):
                return ('true' if v else 'false'), 'Bool'
            if isinstance(v, int):
                return None, ('IntLit', v)
            if isinstance(v, float):
                if v == int(v) and abs(v) < 2 ** 53:
                    return None, ('IntLit', int(v))
                self.lits.append(v)
                return f'c{len(self.lits) - 1}', 'Scalar'
            if isinstance(v, str):
                return '"' + v.replace('\\', '\\\\').replace('"', '\\"') + '"', 'Str'
            if v is None:
                return None, 'None'
            self.refuse(node, f'constant {v!r}')
        if isinstance(node, ast.Name):
            if node.id not in env:
                self.refuse(node, f'variable {node.id} is not (definitely) assigned here')
            return env[node.id]
        if isinstance(node, ast.Tuple):
            parts = [self.ex(e, env) for e in node.elts]
            if any(c is None for c, _ in parts):
                self.refuse(node, 'tuple of literals')
            return '(' + ', '.join(c for c, _ in parts) + ')', ('Tuple', [t for _, t in parts])
        if isinstance(node, ast.UnaryOp):
            return self.unary(node, env)
        if isinstance(node, ast.BinOp):
            a = self.ex(node.left, env)
            b = self.ex(node.right, env)
            return self.binop(node, a, b)
        if isinstance(node, ast.BoolOp):
            npre = len(self.pre)
            parts = [self.ex(v, env) for v in node.values]
            if len(self.pre) != npre:
                self.refuse(node, 'raising call under and/or')
            if any(t not in ('Bool', 'Prop') for _, t in parts):
                self.refuse(node, 'and/or of non-Booleans')
            if all(t == 'Bool' for _, t in parts):
                sym = ' && ' if isinstance(node.op, ast.And) else ' || '
                return '(' + sym.join(c for c, _ in parts) + ')', 'Bool'
            sym = ' ∧ ' if isinstance(node.op, ast.And) else ' ∨ '
            return '(' + sym.join(c if t == 'Prop' else f'({c} = true)' for c, t in parts) + ')', 'Prop'
        if isinstance(node, ast.Compare):
            return self.compare(node, env)
        if isinstance(node, ast.Attribute):
            return self.attribute(node, env)
        if isinstance(node, ast.Subscript):
            return self.subscript(node, env)
        if isinstance(node, ast.Call):
            return self.call(node, env)
        self.refuse(node, 'expression ' + type(node).__name__)

    def unary(self, node, env):
        c, t = self.ex(node.operand, env)
        if isinstance(node.op, ast.USub):
            if isinstance(t, tuple) and t[0] == 'IntLit':
                return None, ('IntLit', -t[1])
            if t == 'Scalar':
                return f'(-{c})', 'Scalar'
            if t == 'Vec3':
                return f'(Vec3.neg {c})', 'Vec3'
            self.refuse(node, f'unary minus on {t}')
        if isinstance(node.op, ast.Not):
            if isinstance(t, tuple) and t[0] == 'Static':
                return ('false' if t[1] else 'true'), ('Static', not t[1])
            if t == 'Prop':
                return f'(¬ {c})', 'Prop'
            if t != 'Bool':
                self.refuse(node, f'not on {t}')
            return f'(!{c})', 'Bool'
        self.refuse(node, 'unary operator')

    def binop(self, node, a, b):
        (ca, ta), (cb, tb) = a, b
        op = type(node.op)
        il = lambda t: isinstance(t, tuple) and t[0] == 'IntLit'
        if op is ast.Pow:
            if not (il(tb) and tb[1] == 2):
                self.refuse(node, 'power other than 2')
            if ta == 'Points':
                return f'(Np.psquare {ca})', 'Points'
            if self.is_num(ta) and not il(ta):
                s = self.scalar(ca, ta, node)
                return f'({s} * {s})', 'Scalar'
            self.refuse(node, f'{ta} ** 2')
        sym = {ast.Add: '+', ast.Sub: '-', ast.Mult: '*', ast.Div: '/'}.get(op)
        if sym is None:
            self.refuse(node, 'operator ' + op.__name__)
        if il(ta) and il(tb):
            if sym == '/':
                self.refuse(node, 'division of integer literals')
            return None, ('IntLit', {'+': ta[1] + tb[1], '-': ta[1] - tb[1], '*': ta[1] * tb[1]}[sym])
        if self.is_num(ta) and self.is_num(tb):
            if ta == 'Nat' and tb == 'Nat':
                self.refuse(node, 'arithmetic on two integers (row counts)')
            return f'({self.scalar(ca, ta, node)} {sym} {self.scalar(cb, tb, node)})', 'Scalar'
        if sym in '+-':
            nm = 'add' if sym == '+' else 'sub'
            if ta == 'Points' and tb == 'Vec3':
                return f'(Np.{nm}Row {ca} {cb})', 'Points'
            if ta == 'Points' and tb == 'Points':
                return f'(Np.p{nm} {ca} {cb})', 'Points'
            if ta == 'Vec3' and tb == 'Vec3':
                return f'(Vec3.{nm} {ca} {cb})', 'Vec3'
            if ta == 'Mat3' and tb == 'Mat3' and sym == '+':
                return f'(Mat3.add {ca} {cb})', 'Mat3'
        if sym == '/' and ta == 'Mat3' and self.is_num(tb):
            return f'(Np.mdiv {ca} {self.scalar(cb, tb, node)})', 'Mat3'
        if sym == '*' and self.is_num(ta) and tb == 'Vec3':
            return f'(Vec3.smul {self.scalar(ca, ta, node)} {cb})', 'Vec3'
        if sym == '*' and self.is_num(ta) and tb == 'Mat3':
            return f'(Mat3.smul {self.scalar(ca, ta, node)} {cb})', 'Mat3'
        self.refuse(node, f'{ta} {sym} {tb}')

    def compare(self, node, env):
        if len(node.ops) != 1:
            self.refuse(node, 'chained comparison')
        op = type(node.ops[0])
        ca, ta = self.ex(node.left, env)
        cb, tb = self.ex(node.comparators[0], env)
        if op in (ast.Is, ast.IsNot):
            if tb != 'None':
                self.refuse(node, '`is` with something other than None')
            if isinstance(ta, tuple) and ta[0] == 'Opt':
                return f'{ca}.{"isNone" if op is ast.Is else "isSome"}', 'Bool'
            if ta == 'None':
                return ('true' if op is ast.Is else 'false'), 'Bool'
            if ta in SIMPLE_TY:
                return ('false' if op is ast.Is else 'true'), 'Bool'
            self.refuse(node, f'`is None` on {ta}')
        if op in (ast.Eq, ast.NotEq):
            if (ta, tb) in (('Nat', 'Nat'), ('Str', 'Str')):
                return (f'({ca} = {cb})' if op is ast.Eq else f'({ca} ≠ {cb})'), 'Prop'
            self.refuse(node, f'equality of {ta} and {tb}')
        if op in (ast.Lt, ast.Gt):
            self.ordered = True
            if self.is_num(ta) and self.is_num(tb):
                a, b = self.scalar(ca, ta, node), self.scalar(cb, tb, node)
                return (f'({a} < {b})' if op is ast.Lt else f'({a} > {b})'), 'Prop'
            if ta == 'Vec3' and self.is_num(tb):
                return f'(Np.{"vlt" if op is ast.Lt else "vgt"} {ca} {self.scalar(cb, tb, node)})', 'BVec3'
            if self.is_num(ta) and tb == 'Vec3':
                return f'(Np.{"vgt" if op is ast.Lt else "vlt"} {cb} {self.scalar(ca, ta, node)})', 'BVec3'
            self.refuse(node, f'ordering of {ta} and {tb}')
        self.refuse(node, 'comparison operator ' + op.__name__)

    def attribute(self, node, env):
        d = dotted(node)
        if d in NP_CONST:
            lean, ty = NP_CONST[d]
            return self.ext(lean), ty
        c, t = self.ex(node.value, env)
        if node.attr == 'T':
            if t == 'Mat3':
                return f'(Mat3.T {c})', 'Mat3'
            if t == 'Points':
                return f'(Np.T {c})', 'PointsT'
            if t == 'PointsT':
                return f'(Np.PointsT.T {c})', 'Points'
            self.refuse(node, f'.T of {t}')
        if node.attr == 'shape' and t == 'Points':
            return f'(Np.shape {c})', 'Shape'
        self.refuse(node, f'attribute .{node.attr} of {t}')

    def subscript(self, node, env):
        c, t = self.ex(node.value, env)
        sl = node.slice
        if isinstance(sl, ast.Tuple):
            idx = [self.int_value(e) for e in sl.elts]
        else:
            idx = [self.int_value(sl)]
        if any(i is None for i in idx):
            self.refuse(node, 'non-constant index')
        if t == 'Mat3' and len(idx) == 2 and all(0 <= i < 3 for i in idx):
            return f'{c}.{MAT_FIELDS[3 * idx[0] + idx[1]]}', 'Scalar'
        if t == 'Vec3' and len(idx) == 1 and 0 <= idx[0] < 3:
            return f'{c}.{VEC_FIELDS[idx[0]]}', 'Scalar'
        if t == 'Shape' and len(idx) == 1 and 0 <= idx[0] < 2:
            return proj(c, idx[0], 2), 'Nat'
        if isinstance(t, tuple) and t[0] == 'Tuple' and len(idx) == 1 and 0 <= idx[0] < len(t[1]):
            return proj(c, idx[0], len(t[1])), t[1][idx[0]]
        self.refuse(node, f'index {idx} into {t}')

    # -- calls ---------------------------------------------------------------------------------
    def array_literal(self, node, env):
        if len(node.args) != 1 or node.keywords or not isinstance(node.args[0], ast.List):
            self.refuse(node, 'np.array of something other than a list literal')
        rows = node.args[0].elts
        if len(rows) != 3:
            self.refuse(node, 'array literal that is not of length 3')
        if all(isinstance(r, ast.List) for r in rows):
            if any(len(r.elts) != 3 for r in rows):
                self.refuse(node, 'matrix literal that is not 3x3')
            ents = []
            for r in rows:
                for e in r.elts:
                    c, t = self.ex(e, env)
                    ents.append(self.scalar(c, t, e))
            return '(Mat3.mk ' + ' '.join(ents) + ')', 'Mat3'
        ents = []
        for e in rows:
            c, t = self.ex(e, env)
            ents.append(self.scalar(c, t, e))
        return '(Vec3.mk ' + ' '.join(ents) + ')', 'Vec3'

    def np_dot(self, node, a, b):
        (ca, ta), (cb, tb) = a, b
        table = {('Mat3', 'Mat3'): ('Mat3.mul', 'Mat3'), ('PointsT', 'Points'): ('Np.dotTP', 'Mat3'),
                 ('Mat3', 'PointsT'): ('Np.dotMT', 'PointsT'), ('Points', 'Mat3'): ('Np.dotPM', 'Points'),
                 ('Mat3', 'Vec3'): ('Mat3.mulVec', 'Vec3'), ('Vec3', 'Vec3'): ('Vec3.dot', 'Scalar')}
        if (ta, tb) not in table:
            self.refuse(node, f'np.dot of {ta} and {tb}')
        f, t = table[(ta, tb)]
        return f'({f} {ca} {cb})', t

    def call(self, node, env):
        d = dotted(node.func)
        if d is None:
            self.refuse(node, 'call of a computed function')
        args = node.args
        kw = {k.arg: k.value for k in node.keywords}
        plain = not node.keywords

        def one(want=None):
            if len(args) != 1 or not plain:
                self.refuse(node, f'arguments of {d}')
            c, t = self.ex(args[0], env)
            if want is not None and t not in want:
                self.refuse(node, f'{d} of {t}')
            return c, t

        if d == 'np.array':
            return self.array_literal(node, env)
        if d == 'np.dot':
            if len(args) != 2 or not plain:
                self.refuse(node, 'arguments of np.dot')
            return self.np_dot(node, self.ex(args[0], env), self.ex(args[1], env))
        if d == 'np.mean':
            ax = args[1] if len(args) == 2 and plain else kw.get('axis') if len(args) == 1 and set(kw) == {'axis'} else None
            if ax is None or self.int_value(ax) != 0:
                self.refuse(node, 'np.mean other than over axis 0')
            c, t = self.ex(args[0], env)
            if t != 'Points':
                self.refuse(node, f'np.mean(., 0) of {t}')
            return f'(Np.mean0 {c})', 'Vec3'
        if d == 'np.sum':
            c, t = one(('Points',))
            return f'(Np.sumAll {c})', 'Scalar'
        if d == 'np.abs':
            c, t = one(('Vec3', 'Scalar'))
            self.ordered = True
            return (f'(Np.vabs {c})', 'Vec3') if t == 'Vec3' else (f'(Np.sabs {c})', 'Scalar')
        if d in ('any', 'all'):
            c, t = one(('BVec3',))
            return f'(Np.{d}3 {c})', 'Bool'
        if d == 'np.linalg.det':
            c, t = one(('Mat3',))
            return f'(Mat3.det {c})', 'Scalar'
        if d == 'np.trace':
            c, t = one(('Mat3',))
            return f'(Mat3.tr {c})', 'Scalar'
        if d == 'np.eye':
            if len(args) != 1 or not plain or self.int_value(args[0]) != 3:
                self.refuse(node, 'np.eye other than np.eye(3)')
            return '(Mat3.one : Mat3 α)', 'Mat3'
        if d == 'np.copy':
            return one(ARRAY_TYPES)
        if d == 'len':
            c, t = one(('Points',))
            return f'{c}.length', 'Nat'
        if d == 'isinstance':
            return self.isinstance_static(node, env)
        if d in NP_EXT:
            lean, argtys, ret = NP_EXT[d]
            if len(args) != len(argtys) or not plain:
                self.refuse(node, f'arguments of {d}')
            cs = []
            for a, want in zip(args, argtys):
                c, t = self.ex(a, env)
                if want == 'Scalar':
                    c = self.scalar(c, t, a)
                elif t != want:
                    self.refuse(node, f'{d} of {t}')
                cs.append(c)
            return f'({self.ext(lean)} ' + ' '.join(cs) + ')', ret
        if d in self.registry:
            return self.call_kernel(node, d, env)
        if d in self.unit_ext_spec:
            return self.call_unit_ext(node, d, env)
        self.refuse(node, f'call of {d} (outside the subset)')

    def isinstance_static(self, node, env):
        """isinstance(x, (list, np.ndarray)) is decided by the inferred type of x"""
        if len(node.args) != 2:
            self.refuse(node, 'isinstance')
        c, t = self.ex(node.args[0], env)
        cls = node.args[1]
        names = [dotted(e) for e in (cls.elts if isinstance(cls, ast.Tuple) else [cls])]
        if not set(names) <= {'list', 'np.ndarray', 'tuple'} or 'np.ndarray' not in names:
            self.refuse(node, 'isinstance test other than for an array')
        if t in ARRAY_TYPES:
            return 'true', ('Static', True)
        if t in ('Scalar', 'Nat', 'Str', 'Bool'):
            return 'false', ('Static', False)
        self.refuse(node, f'isinstance of {t}')

    def pass_arg(self, node, c, t, want):
        if t == want:
            return c
        if isinstance(want, tuple) and want[0] == 'Opt':
            if t == want[1]:
                return f'(some {c})'
            if t == 'None':
                return 'none'
        if want == 'Scalar' and self.is_num(t):
            return self.scalar(c, t, node)
        self.refuse(node, f'argument of type {t} where {want} is expected')

    def call_kernel(self, node, d, env):
        sig = self.registry[d]
        if sig is None:
            self.calls_refused = d
            self.refuse(node, f'calls the refused unit {d}')
        if sig['lits']:
            self.refuse(node, f'call of {d}, which has abstracted float literals')
        params = sig['params']
        given = {}
        if len(node.args) > len(params):
            self.refuse(node, f'too many arguments for {d}')
        for (pn, pt), a in zip(params, node.args):
            given[pn] = a
        for k in node.keywords:
            if k.arg is None or k.arg in given or k.arg not in [p for p, _ in params]:
                self.refuse(node, f'keyword arguments of {d}')
            given[k.arg] = k.value
        cs = []
        for pn, pt in params:
            if pn in given and pn in sig.get('mutates', ()):
                self.refuse(node, f'{d} updates its argument {pn} in place (the caller\'s variable would change)')
            if pn in given:
                c, t = self.ex(given[pn], env)
                cs.append(self.pass_arg(node, c, t, pt))
            elif isinstance(pt, tuple) and pt[0] == 'Opt' and pn in sig['none_default']:
                cs.append('none')
            else:
                self.refuse(node, f'missing argument {pn} of {d}')
        for e in sig['ext']:
            self.ext(e)
        for name, spec in sig['unit_ext'].items():
            if name in self.unit_ext and self.unit_ext[name] != spec:
                self.refuse(node, f'{name} used at two different types')
            self.unit_ext[name] = spec
            for t in spec[0] + [spec[1]]:
                self.note_ty(t)
        self.ordered = self.ordered or sig['ordered']
        head = [sig['lean']] + [e for e in EXT_ORDER if e in sig['ext']] + list(sig['unit_ext'])
        code = '(' + ' '.join(head + cs) + ')'
        if sig['raises']:
            return self.hoist(code), sig['ret']
        return code, sig['ret']

    def call_unit_ext(self, node, d, env):
        ret, raises = self.unit_ext_spec[d]
        cs, ts = [], []
        for a in node.args:
            c, t = self.ex(a, env)
            if c is None:
                self.refuse(node, f'literal argument of {d}')
            cs.append(c); ts.append(t)
        for k in node.keywords:           # keyword arguments (and **kwargs) are passed on positionally, in call order
            c, t = self.ex(k.value, env)
            if c is None:
                self.refuse(node, f'literal argument of {d}')
            cs.append(c); ts.append(t)
        spec = (ts, ret, raises)
        if d in self.unit_ext and self.unit_ext[d] != spec:
            self.refuse(node, f'{d} called at two different types')
        self.unit_ext[d] = spec
        self.note_ty(ret)
        code = '(' + ' '.join([d] + cs) + ')'
        if raises:
            return self.hoist(code), ret
        return code, ret

    # -- statements ----------------------------------------------------------------------------
    # IR: ('let', name, code, rest) | ('bind', name, code, rest) | ('ite', cond, a, b) | ('matchopt', x, a, v, b)
    #     | ('ret', code, ty) | ('raise', err) | ('comment', text, rest) | ('hole', env)
    def take_pre(self):
        p, self.pre = self.pre, []
        return p

    @staticmethod
    def with_pre(pre, ir):
        for t, code in reversed(pre):
            ir = ('bind', t, code, ir)
        return ir

    def block(self, stmts, env, k):
        if not stmts:
            return k(env)
        return self.stmt(stmts[0], env, lambda e: self.block(stmts[1:], e, k))

    def value(self, node, env):
        """an expression whose value is stored: literals become scalars, conditions Booleans"""
        c, t = self.ex(node, env)
        if isinstance(t, tuple) and t[0] == 'IntLit':
            return self.scalar(c, t, node), 'Scalar'
        if t == 'Prop':
            return f'(decide {c})', 'Bool'
        if t == 'None' or (isinstance(t, tuple) and t[0] == 'Static'):
            self.refuse(node, f'value of type {t}')
        if isinstance(t, tuple) and t[0] == 'Tuple' and any(isinstance(x, tuple) and x[0] == 'IntLit' for x in t[1]):
            self.refuse(node, 'tuple containing a literal')
        return c, t

    def owned_expr(self, node):
        """does evaluating `node` give a new array (not a view / another name of an existing one)?"""
        if isinstance(node, ast.Call):
            d = dotted(node.func)
            sig = self.registry.get(d) if d else None
            return not (sig is not None and not sig.get('ret_owned', True))
        return isinstance(node, (ast.BinOp, ast.UnaryOp, ast.Constant, ast.Compare, ast.BoolOp))

    def note_alias(self, value, env, new_lean, ty):
        if ty in ARRAY_TYPES and not self.owned_expr(value):
            self.shared.add(new_lean)
            for n in ast.walk(value):
                if isinstance(n, ast.Name) and n.id in env and env[n.id][1] in ARRAY_TYPES and env[n.id][0] is not None:
                    self.shared.add(env[n.id][0])

    def in_place(self, s, py, env):
        """an in-place update of the array `py`: -> comment for the IR (or None); refuses when the array is shared"""
        ln, ty = env[py]
        if ty not in ARRAY_TYPES:
            return None
        if ln in self.shared:
            self.refuse(s, f'in-place update of {py}, whose array has another name (aliasing is outside the subset)')
        if ln in self.param_lean:
            self.mutated_params.add(py)
            return f'`{ast.unparse(s)}` also updates the caller\'s array `{py}` in place; only the value is translated'
        return None

    def stmt(self, s, env, k):
        self.pre = []
        if isinstance(s, ast.Expr):
            if isinstance(s.value, ast.Constant):
                return k(env)
            if isinstance(s.value, ast.Call) and dotted(s.value.func) in ('print', 'warnings.warn'):
                return k(env)
            self.refuse(s, 'expression statement ' + ast.unparse(s)[:50])
        if isinstance(s, ast.Return):
            if s.value is None:
                self.refuse(s, 'bare return')
            c, t = self.value(s.value, env)
            if t in ARRAY_TYPES and not self.owned_expr(s.value) and \
                    not (isinstance(s.value, ast.Name) and c not in self.shared and c not in self.param_lean):
                self.ret_owned = False
            return self.with_pre(self.take_pre(), ('ret', c, t))
        if isinstance(s, ast.Raise):
            exc = s.exc
            name = dotted(exc.func) if isinstance(exc, ast.Call) else dotted(exc) if exc is not None else None
            if name not in EXC_MAP:
                self.refuse(s, f'raise of {name}')
            return ('raise', EXC_MAP[name])
        if isinstance(s, ast.AugAssign):
            if not isinstance(s.target, ast.Name):
                self.refuse(s, 'augmented assignment to something other than a variable')
            value = ast.BinOp(left=ast.Name(id=s.target.id, ctx=ast.Load()), op=s.op, right=s.value)
            ast.copy_location(value, s)
            ast.fix_missing_locations(value)
            if s.target.id not in env:
                self.refuse(s, f'{s.target.id} is not assigned here')
            note = self.in_place(s, s.target.id, env)
            was_param = env[s.target.id][0] in self.param_lean

            def k2(e):
                if was_param:
                    self.param_lean.add(e[s.target.id][0])
                return k(e)
            ir = self.assign(s, s.target, value, env, k2)
            return ('comment', note, ir) if note else ir
        if isinstance(s, ast.Assign):
            if len(s.targets) != 1:
                self.refuse(s, 'multiple assignment targets')
            return self.assign(s, s.targets[0], s.value, env, k)
        if isinstance(s, ast.If):
            return self.if_stmt(s, env, k)
        self.refuse(s, 'statement ' + type(s).__name__)

    def assign(self, s, target, value, env, k):
        if isinstance(target, ast.Name):
            c, t = self.value(value, env)
            pre = self.take_pre()
            nm = self.fresh(target.id)
            self.note_alias(value, env, nm, t)
            env2 = dict(env); env2[target.id] = (nm, t)
            return self.with_pre(pre, ('let', nm, c, k(env2)))
        if isinstance(target, ast.Tuple):
            names = []
            for e in target.elts:
                if not isinstance(e, ast.Name):
                    self.refuse(s, 'nested unpacking target')
                names.append(e.id)
            if isinstance(value, ast.Tuple) and len(value.elts) == len(names):
                vals = [self.value(v, env) for v in value.elts]
            else:
                c, t = self.value(value, env)
                if t == 'Vec3' and len(names) == 3:
                    comps = [(f'.{f}', 'Scalar') for f in VEC_FIELDS]
                elif isinstance(t, tuple) and t[0] == 'Tuple' and len(t[1]) == len(names):
                    comps = [(proj('', i, len(names)), ti) for i, ti in enumerate(t[1])]
                else:
                    self.refuse(s, f'unpacking {t} into {len(names)} names')
                vals = None
            pre = self.take_pre()
            env2 = dict(env)
            lets = []
            if vals is None:
                if not c.isidentifier():
                    self.tmp += 1
                    tname = self.fresh(f't{self.tmp}')
                    lets.append((tname, c))
                    c = tname
                vals = [(c + p, ti) for p, ti in comps]
            pairwise = isinstance(value, ast.Tuple) and len(value.elts) == len(names)
            for i, (py, (vc, vt)) in enumerate(zip(names, vals)):
                nm = self.fresh(py)
                self.note_alias(value.elts[i] if pairwise else value, env, nm, vt)
                env2[py] = (nm, vt)
                lets.append((nm, vc))
            ir = k(env2)
            for nm, vc in reversed(lets):
                ir = ('let', nm, vc, ir)
            return self.with_pre(pre, ir)
        if isinstance(target, ast.Subscript) and isinstance(target.value, ast.Name):
            py = target.value.id
            if py not in env:
                self.refuse(s, f'{py} is not assigned here')
            mc, mt = env[py]
            sl = target.slice
            idx = [self.int_value(e) for e in (sl.elts if isinstance(sl, ast.Tuple) else [sl])]
            if mt == 'Mat3' and len(idx) == 2 and all(i is not None and 0 <= i < 3 for i in idx):
                field = MAT_FIELDS[3 * idx[0] + idx[1]]
            elif mt == 'Vec3' and len(idx) == 1 and idx[0] is not None and 0 <= idx[0] < 3:
                field = VEC_FIELDS[idx[0]]
            else:
                self.refuse(s, f'element assignment {ast.unparse(target)} on {mt}')
            c, t = self.ex(value, env)
            c = self.scalar(c, t, value)
            pre = self.take_pre()
            note = self.in_place(s, py, env)
            nm = self.fresh(py)
            if mc in self.param_lean:
                self.param_lean.add(nm)
            env2 = dict(env); env2[py] = (nm, mt)
            ir = self.with_pre(pre, ('let', nm, f'{{ {mc} with {field} := {c} }}', k(env2)))
            return ('comment', note, ir) if note else ir
        self.refuse(s, 'assignment target ' + ast.unparse(target)[:40])

    def none_test(self, test, env):
        if isinstance(test, ast.Compare) and len(test.ops) == 1 and isinstance(test.ops[0], (ast.Is, ast.IsNot)) \
                and isinstance(test.left, ast.Name) and isinstance(test.comparators[0], ast.Constant) \
                and test.comparators[0].value is None and test.left.id in env:
            ln, t = env[test.left.id]
            if isinstance(t, tuple) and t[0] == 'Opt':
                return test.left.id, ln, t[1], isinstance(test.ops[0], ast.Is)
        return None

    def cond_code(self, c, t, node):
        if t == 'Prop':
            return c
        if t == 'Bool':
            return c
        self.refuse(node, f'truth value of {t}')

    def if_stmt(self, s, env, k):
        hole = lambda e: ('hole', e)
        nt = self.none_test(s.test, env)
        if nt is not None:
            py, ln, T, pos = nt
            v = self.fresh(py)
            env_a = dict(env); env_a[py] = (None, 'None')
            env_b = dict(env); env_b[py] = (v, T)
            body_a, body_b = (s.body, s.orelse) if pos else (s.orelse, s.body)
            ir_a = self.block(body_a, env_a, hole)
            ir_b = self.block(body_b, env_b, hole)
            mk = lambda a, b: ('matchopt', ln, a, v, b)
            pre = []
        else:
            c, t = self.ex(s.test, env)
            pre = self.take_pre()
            if isinstance(t, tuple) and t[0] == 'Static':
                live = s.body if t[1] else s.orelse
                note = f'`{ast.unparse(s.test)}` is {t[1]} for the inferred type: ' + \
                       ('the else-branch is dead' if t[1] else 'the statement is dead')
                return ('comment', note, self.block(live, env, k))
            cc = self.cond_code(c, t, s.test)
            env_a = env_b = env
            ir_a = self.block(s.body, env, hole)
            ir_b = self.block(s.orelse, env, hole)
            mk = lambda a, b: ('ite', cc, a, b)
        sa, sb = straight(ir_a), straight(ir_b)
        if sa is None or sb is None:
            return self.with_pre(pre, mk(fill(ir_a, k), fill(ir_b, k)))
        # both branches only assign: join the variables they change
        (lets_a, out_a), (lets_b, out_b) = sa, sb
        changed = []
        for py in list(out_a) + list(out_b):
            if py not in changed and (out_a.get(py) != env_a.get(py) or out_b.get(py) != env_b.get(py)):
                changed.append(py)
        env2 = dict(env)
        joined = []
        for py in changed:
            a, b = out_a.get(py), out_b.get(py)
            if a is None or b is None or a[0] is None or b[0] is None:
                env2.pop(py, None)          # possibly unbound / possibly None afterwards: any later use is refused
                continue
            if a[1] != b[1]:
                self.refuse(s, f'{py} has type {a[1]} in one branch and {b[1]} in the other')
            joined.append((py, a[0], b[0], a[1]))
        if not joined:
            return self.with_pre(pre, k(env2))
        val = lambda names: names[0] if len(names) == 1 else '(' + ', '.join(names) + ')'
        ea = render_expr(lets_a, val([j[1] for j in joined]))
        eb = render_expr(lets_b, val([j[2] for j in joined]))
        if nt is not None:
            code = f'match {ln} with\n| none =>' + hang(ea) + f'\n| some {v} =>' + hang(eb)
        elif '\n' not in ea and '\n' not in eb:
            code = f'if {cc} then {ea} else {eb}'
        else:
            code = f'if {cc} then' + hang(ea, True) + '\nelse' + hang(eb, True)
        if len(joined) == 1:
            py, _, _, ty = joined[0]
            nm = self.fresh(py)
            env2[py] = (nm, ty)
            return self.with_pre(pre, ('let', nm, code, k(env2)))
        self.tmp += 1
        j = self.fresh(f'j{self.tmp}')
        lets = []
        for i, (py, _, _, ty) in enumerate(joined):
            nm = self.fresh(py)
            env2[py] = (nm, ty)
            lets.append((nm, proj(j, i, len(joined))))
        ir = k(env2)
        for nm, vc in reversed(lets):
            ir = ('let', nm, vc, ir)
        return self.with_pre(pre, ('let', j, code, ir))


def hang(expr, force=False):
    """an expression after `=>` / `then`: on the same line if it is one line, else on indented lines"""
    if '\n' not in expr and not force:
        return ' ' + expr
    return '\n' + '\n'.join('  ' + l for l in expr.split('\n'))


def render_expr(lets, val):
    lines = []
    for l in lets:
        if l[0] == 'let':
            lines += let_lines(l[1], l[2])
        else:
            lines.append(f'-- {l[1]}')
    if lets and lets[-1][0] == 'let' and lets[-1][1] == val and '\n' not in lets[-1][2]:
        lines.pop()             # `let x := e; x`  is written  `e`
        val = lets[-1][2]
    return '\n'.join(lines + [val])


def let_lines(name, code):
    if '\n' not in code:
        return [f'let {name} := {code}']
    return [f'let {name} :='] + ['    ' + l for l in code.split('\n')]


def straight(ir):
    lets = []
    while ir[0] in ('let', 'comment'):
        lets.append(ir)
        ir = ir[-1]
    return (lets, ir[1]) if ir[0] == 'hole' else None


def fill(ir, k):
    kind = ir[0]
    if kind == 'hole':
        return k(ir[1])
    if kind in ('let', 'bind', 'comment'):
        return ir[:-1] + (fill(ir[-1], k),)
    if kind == 'ite':
        return ('ite', ir[1], fill(ir[2], k), fill(ir[3], k))
    if kind == 'matchopt':
        return ('matchopt', ir[1], fill(ir[2], k), ir[3], fill(ir[4], k))
    return ir


def ir_nodes(ir):
    yield ir
    kind = ir[0]
    if kind in ('let', 'bind', 'comment'):
        yield from ir_nodes(ir[-1])
    elif kind == 'ite':
        yield from ir_nodes(ir[2]); yield from ir_nodes(ir[3])
    elif kind == 'matchopt':
        yield from ir_nodes(ir[2]); yield from ir_nodes(ir[4])


def emit_ir(ir, ind, monadic):
    kind = ir[0]
    if kind == 'let':
        return [ind + l for l in let_lines(ir[1], ir[2])] + emit_ir(ir[3], ind, monadic)
    if kind == 'comment':
        return [ind + '-- ' + ir[1]] + emit_ir(ir[2], ind, monadic)
    if kind == 'bind':
        return [ind + f'match {ir[2]} with', ind + '| .error e => .error e', ind + f'| .ok {ir[1]} =>'] + \
            emit_ir(ir[3], ind + '  ', monadic)
    if kind == 'ite':
        return [ind + f'if {ir[1]} then'] + emit_ir(ir[2], ind + '  ', monadic) + [ind + 'else'] + \
            emit_ir(ir[3], ind + '  ', monadic)
    if kind == 'matchopt':
        return [ind + f'match {ir[1]} with', ind + '| none =>'] + emit_ir(ir[2], ind + '  ', monadic) + \
            [ind + f'| some {ir[3]} =>'] + emit_ir(ir[4], ind + '  ', monadic)
    if kind == 'ret':
        return [ind + (f'.ok {ir[1]}' if monadic else ir[1])]
    if kind == 'raise':
        return [ind + f'.error {ir[1]}']
    raise ValueError(kind)


# ---------------------------------------------------------------------------------------------
# one definition
# ---------------------------------------------------------------------------------------------

def fn_ty(args, ret, raises):
    par = lambda t: '(' + lty(t) + ')' if isinstance(t, tuple) and t[0] == 'Tuple' else lty(t)
    r = lty(ret)
    if raises:
        r = f'Except Err ({r})'
    return ' → '.join([par(a) for a in args] + [r])


def translate_function(where, fnode, ptypes, registry, leanname, body=None, params=None, unit_ext=None,
                       kwargs_ty=None, doc=''):
    """-> (lean text, signature).  `params` overrides the function's own parameter list (used for a suffix of a body)."""
    K = Kernel(where, registry, unit_ext)
    a = fnode.args
    none_default = set()
    if params is None:
        if a.vararg or a.kwonlyargs or a.posonlyargs:
            raise Refuse(where, 'parameter list outside the subset')
        names = [x.arg for x in a.args]
        if len(names) != len(ptypes):
            raise Refuse(where, f'{len(names)} parameters, {len(ptypes)} expected')
        params = list(zip(names, ptypes))
        off = len(names) - len(a.defaults)
        for i, dflt in enumerate(a.defaults):
            if isinstance(dflt, ast.Constant) and dflt.value is None:
                none_default.add(names[off + i])
        if a.kwarg is not None:
            if kwargs_ty is None:
                raise Refuse(where, '**kwargs')
            params.append((a.kwarg.arg, kwargs_ty))
    for n in (unit_ext or {}):
        K.used_names.add(n)
    env, lean_params = {}, []
    for py, t in params:
        nm = K.fresh(py)
        env[py] = (nm, t)
        K.note_ty(t)
        K.param_lean.add(nm)
        lean_params.append((nm, t))
    stmts = list(fnode.body if body is None else body)
    if not stmts:
        raise Refuse(where, 'empty body')
    last = stmts[-1]
    if isinstance(last, ast.Expr) and isinstance(last.value, ast.Call) and dotted(last.value.func) in (unit_ext or {}):
        # a final effectful call of a parameter function: the function's result is the outcome of that call
        ret = ast.Return(value=last.value)
        ast.copy_location(ret, last)
        stmts[-1] = ret

    def end(e):
        raise Refuse(where, 'control can reach the end of the function without a return')
    ir = K.block(stmts, env, end)
    nodes = list(ir_nodes(ir))
    rets = [n[2] for n in nodes if n[0] == 'ret']
    if not rets:
        raise Refuse(where, 'no return')
    if any(r != rets[0] for r in rets):
        raise Refuse(where, 'returns of different types: ' + ', '.join(sorted({str(r) for r in rets})))
    ret_ty = rets[0]
    K.note_ty(ret_ty)
    monadic = any(n[0] in ('raise', 'bind') for n in nodes)
    exts = [e for e in EXT_ORDER if e in K.used_ext]
    binders = ['{α : Type} ' + (ORD_CLS if K.ordered else BASE_CLS)]
    if K.tyvars:
        binders.append('{' + ' '.join(K.tyvars) + ' : Type}')
    for e in exts:
        binders.append(f'({e} : {ext_lean_ty(e)})')
    for n, (args, r, raises) in K.unit_ext.items():
        binders.append(f'({n} : {fn_ty(args, r, raises)})')
    for i in range(len(K.lits)):
        binders.append(f'(c{i} : α)')
    for nm, t in lean_params:
        binders.append(f'({nm} : {lty(t)})')
    rty = f'Except Err ({lty(ret_ty)})' if monadic else lty(ret_ty)
    lines = [f'def {leanname} ' + ' '.join(binders) + ' :', f'    {rty} :=']
    lines += emit_ir(ir, '  ', monadic)
    text = (f'/-- {doc} -/\n' if doc else '') + '\n'.join(lines) + '\n'
    if K.lits:
        text += (f'\n/-- the float literals of `{leanname}` that became the parameters `c0 …`, in source order '
                 f'(exact values of the doubles) -/\n'
                 f'def {leanname}_lits : List Rat := [' + ', '.join(lean_rat(v) for v in K.lits) + ']\n')
    sig = {'lean': leanname, 'params': params, 'none_default': none_default, 'ret': ret_ty, 'raises': monadic,
           'ext': set(exts), 'unit_ext': dict(K.unit_ext), 'ordered': K.ordered, 'lits': list(K.lits),
           'mutates': set(K.mutated_params), 'ret_owned': K.ret_owned}
    return text, sig


# ---------------------------------------------------------------------------------------------
# unit-specific slicing of the source (structural, on the AST)
# ---------------------------------------------------------------------------------------------

def split_guards(fnode):
    """(guards, tail): the tail starts after the last top-level statement that can raise"""
    body = list(fnode.body)
    last = -1
    for i, s in enumerate(body):
        if any(isinstance(n, ast.Raise) for n in ast.walk(s)):
            last = i
    return body[:last + 1], body[last + 1:]


def free_loads(stmts):
    """names read in `stmts` before a top-level assignment to them, in source order of first use"""
    assigned, free = set(), []
    for s in stmts:
        loads = [n for n in ast.walk(s) if isinstance(n, ast.Name) and isinstance(n.ctx, ast.Load)]
        if isinstance(s, ast.AugAssign) and isinstance(s.target, ast.Name):
            loads.append(s.target)
        for n in sorted(loads, key=lambda n: (n.lineno, n.col_offset)):
            if n.id not in assigned and n.id not in free:
                free.append(n.id)
        if isinstance(s, (ast.Assign, ast.AugAssign)):
            for tg in (s.targets if isinstance(s, ast.Assign) else [s.target]):
                for n in ast.walk(tg):
                    if isinstance(n, ast.Name) and isinstance(n.ctx, ast.Store):
                        assigned.add(n.id)
    return free


def tail_after_guards(where, fnode, ptypes, registry, declared_ctx):
    """the statements after the guards as a definition of their free variables (typed by the guards' translation
    when that succeeds, else by `declared_ctx`)"""
    guards, tail = split_guards(fnode)
    if not tail:
        raise Refuse(where, 'nothing after the guards')
    names = [x.arg for x in fnode.args.args]
    if len(names) != len(ptypes):
        raise Refuse(where, f'{len(names)} parameters, {len(ptypes)} expected')
    ctx = None
    try:
        K0 = Kernel(where, registry)
        env0 = {}
        for py, t in zip(names, ptypes):
            env0[py] = (K0.fresh(py), t)
        ir0 = K0.block(guards, env0, lambda e: ('hole', e)) if guards else ('hole', env0)
        holes = [n for n in ir_nodes(ir0) if n[0] == 'hole']
        if len(holes) == 1:
            ctx = {py: t for py, (c, t) in holes[0][1].items() if c is not None}
    except Refuse:
        ctx = None
    if ctx is None:
        ctx = dict(zip(names, ptypes))
        ctx.update(declared_ctx)
    free = [v for v in free_loads(tail) if v in ctx]
    # the function's own parameters first, in signature order (so that exchanging two of them in the tail changes the
    # definition), then the variables the guards define, in order of first use
    order = [v for v in names if v in free] + [v for v in free if v not in names]
    return tail, [(v, ctx[v]) for v in order]


def peel_return(where, fnode, peelable):
    """strip the calls `round(., k)` / `np.sqrt(.)` that wrap the returned expression; -> (statements, wrappers)"""
    body = list(fnode.body)
    if not body or not isinstance(body[-1], ast.Return) or body[-1].value is None:
        raise Refuse(where, 'does not end with a return')
    v, wrappers = body[-1].value, []
    while isinstance(v, ast.Call) and not v.keywords and dotted(v.func) in peelable:
        d = dotted(v.func)
        if d == 'round' and len(v.args) == 2 and isinstance(v.args[1], ast.Constant) and isinstance(v.args[1].value, int):
            wrappers.append(f'round(., {v.args[1].value})')
        elif d == 'np.sqrt' and len(v.args) == 1:
            wrappers.append('np.sqrt(.)')
        else:
            break
        v = v.args[0]
    ret = ast.Return(value=v)
    ast.copy_location(ret, body[-1])
    ast.fix_missing_locations(ret)
    return body[:-1] + [ret], wrappers


# ---------------------------------------------------------------------------------------------
# the units
# ---------------------------------------------------------------------------------------------

P, V, M, S = 'Points', 'Vec3', 'Mat3', 'Scalar'
OV = ('Opt', 'Vec3')
DB, KW, RES, METH = ('Opaque', 'δ'), ('Opaque', 'κ'), ('Opaque', 'ρ'), ('Opaque', 'μ')
DB_EXT = {'_get_xyz': (P, False), '_update': (RES, False)}

HEADER = ['/- GENERATED by /verif/py/translate_ext_kernels.py from /repo/pdb2sql — do not edit.',
          '   Statement-by-statement translation of the NumPy glue kernels; the meaning of each NumPy operation is fixed in',
          '   PdbVerif/Py/Np.lean; `Proofs/GenKernels.lean` proves each definition equal to the hand model the property',
          '   theorems are stated about. -/',
          'import PdbVerif.Py.Np', 'import PdbVerif.Py.Str', '', 'set_option linter.unusedVariables false', '', 'namespace GenK', 'open Py', '']


def generate():
    refused, out, registry, mods = [], list(HEADER), {}, {}

    def module(fname):
        if fname not in mods:
            try:
                mods[fname] = parse_module(fname)
            except (SyntaxError, OSError) as e:
                mods[fname] = Refuse(fname, f'cannot be parsed: {type(e).__name__}')
        if isinstance(mods[fname], Refuse):
            raise mods[fname]
        return mods[fname]

    def do(name, fname, qual, build, register=True):
        py = qual.split('.')[-1]
        try:
            fnode = find_func(module(fname), qual)
            text, sig = build(fnode)
            out.append(unit(name, text))
            if register:
                registry[py] = sig
        except Refuse as r:
            out.append(refused_unit(FNAME, name, refused, str(r)))
            if register:
                registry[py] = None
        except Exception as e:   # AST shapes the front end did not anticipate: a refusal, never a crash or a silent skip
            out.append(refused_unit(FNAME, name, refused, f'{qual}: outside the subset ({type(e).__name__}: {e})'))
            if register:
                registry[py] = None

    def plain(name, fname, qual, ptypes, **kw):
        do(name, fname, qual, lambda fn: translate_function(qual, fn, ptypes, registry, name,
                                                            doc=f'`{fname[:-3]}.{qual}`', **kw))

    # transform.py / superpose.py: coordinate arithmetic
    plain('get_trans_vect', 'superpose.py', 'get_trans_vect', [P])
    plain('rotate', 'transform.py', 'rotate', [P, M, OV])
    plain('rot_xyz_around_axis', 'transform.py', 'rot_xyz_around_axis', [P, V, S, OV])
    plain('rotation_euler', 'transform.py', 'rotation_euler', [P, S, S, S, OV])
    plain('translation', 'transform.py', 'translation', [DB, V], kwargs_ty=KW, unit_ext=DB_EXT)
    plain('rot_axis', 'transform.py', 'rot_axis', [DB, V, S], kwargs_ty=KW, unit_ext=DB_EXT)
    plain('rot_euler', 'transform.py', 'rot_euler', [DB, S, S, S], kwargs_ty=KW, unit_ext=DB_EXT)
    plain('rot_mat', 'transform.py', 'rot_mat', [DB, M], kwargs_ty=KW, unit_ext=DB_EXT)
    plain('superpose_selection', 'superpose.py', 'superpose_selection', [P, P, P, METH],
          unit_ext={'get_rotation_matrix': (M, True)})

    # Kabsch: the statements after the guards, and the whole function
    def kabsch_core(fn):
        where = 'get_rotation_matrix_Kabsh (after the guards)'
        tail, params = tail_after_guards(where, fn, [P, P], registry, {'npts': 'Nat'})
        return translate_function(where, fn, None, registry, 'kabsch_core', body=tail, params=params,
                                  doc='`superpose.get_rotation_matrix_Kabsh`, the statements after the last guard, as a '
                                      'function of the variables they read')
    do('kabsch_core', 'superpose.py', 'get_rotation_matrix_Kabsh', kabsch_core, register=False)
    plain('get_rotation_matrix_Kabsh', 'superpose.py', 'get_rotation_matrix_Kabsh', [P, P])

    # align.py
    plain('_align_along_axis', 'align.py', '_align_along_axis', [P, 'Str', S, S])
    plain('get_rotation_angle', 'align.py', 'get_rotation_angle', [V])

    # get_rmsd: the radicand; `round(np.sqrt(.), 3)` stays outside and is recorded
    def rmsd(fn):
        where = 'StructureSimilarity.get_rmsd'
        body, wrappers = peel_return(where, fn, ('round', 'np.sqrt'))
        text, sig = translate_function(where, fn, [P, P], registry, 'get_rmsd_radicand', body=body,
                                       doc='`StructureSimilarity.get_rmsd` without the calls that wrap the returned '
                                           'expression (listed in `get_rmsd_wrappers`, outermost first)')
        text += '\ndef get_rmsd_wrappers : List String := [' + ', '.join('"' + w + '"' for w in wrappers) + ']\n'
        return text, sig
    do('get_rmsd', 'StructureSimilarity.py', 'StructureSimilarity.get_rmsd', rmsd, register=False)

    out.append('end GenK')
    return {FNAME: '\n'.join(out) + '\n'}, refused


if __name__ == '__main__':
    files, refused = generate()
    sys.stdout.write(files[FNAME])
    for u, why in refused:
        sys.stderr.write(f'REFUSED {u}: {why}\n')
