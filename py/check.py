#!/venv/bin/python
"""
check.py <ID> [--tier quick|thorough] [--replay FILE]

One run = regenerate Gen from /repo (tie #1) -> lake build of the property's theorems -> axiom audit ->
correspondence implementation vs Model and implementation vs Spec through the Lean driver (tie #2) ->
(search) -> evidence.   Exit 0: property held on everything explored; 1: VIOLATION line printed; 2: the
machinery itself failed (timeout, broken audit, crashed driver) -- never reported as a violation.
"""
import os, sys, json, time, importlib, argparse, traceback, warnings, io, contextlib

sys.path.insert(0, os.path.dirname(os.path.abspath(__file__)))
import vlib
# the implementation under test: /repo, or the tree named by PDB2SQL_REPO (scratch worktrees used for mutation trials)
sys.path.insert(0, vlib.REPO)
from vlib import Ctx


def load_prop(pid):
    return importlib.import_module('props.' + pid.lower())


def evaluate(ctx, P, cases, which='model'):
    """run the implementation and the Lean driver on `cases`; returns per-case records"""
    recs = []
    lines = []
    for c in cases:
        try:
            with contextlib.redirect_stdout(io.StringIO()), contextlib.redirect_stderr(io.StringIO()):
                out = P.impl(ctx, c)        # the library prints diagnostics; keep them off the check's own output
        except Exception as e:                      # the harness itself failing is not an implementation outcome
            out = {'harness_exception': repr(e), 'trace': traceback.format_exc()[-800:]}
        recs.append({'case': c, 'impl': out})
        if hasattr(P, 'driver_line'):
            import inspect
            if len(inspect.signature(P.driver_line).parameters) >= 2:
                lines.append(P.driver_line(c, out))
            else:
                lines.append(P.driver_line(c))
        else:
            lines.append(c)
    answers = vlib.run_driver(lines, which=which, cluster=getattr(P, 'CLUSTER', 'Z')) if lines else []
    for r, a in zip(recs, answers):
        r['model'] = a.get('model')
        r['spec'] = a.get('spec')
        r['driver_error'] = a.get('driver_error')
    return recs


def judge(P, recs, use_model=True):
    model_dis, spec_vio, discards, harness_err = [], [], 0, []
    for r in recs:
        if isinstance(r['impl'], dict) and 'harness_exception' in r['impl']:
            harness_err.append(r); continue
        if r.get('driver_error'):
            harness_err.append(r); continue
        if use_model and r.get('model') is not None:
            v = P.agree_model(r['case'], r['impl'], r['model'])
            if v == 'discard':
                discards += 1; continue
            if v is not True:
                r['why_model'] = v
                model_dis.append(r)
        if r.get('spec') is not None:
            v = P.agree_spec(r['case'], r['impl'], r['spec'])
            if v == 'discard':
                discards += 1; continue
            if v is not True:
                r['why_spec'] = v
                spec_vio.append(r)
    return model_dis, spec_vio, discards, harness_err


def main():
    ap = argparse.ArgumentParser()
    ap.add_argument('pid')
    ap.add_argument('--tier', default=os.environ.get('VERIF_TIER', 'quick'))
    ap.add_argument('--replay')
    args = ap.parse_args()
    pid = args.pid.upper()
    seed = int(os.environ.get('VERIF_SEED', '0') or 0)
    tier = args.tier if args.tier in ('quick', 'thorough') else 'quick'
    ctx = Ctx(pid, tier, seed)
    warnings.simplefilter('ignore')
    try:
        rc = run(ctx, pid, args)
    except subprocess_timeout() as e:
        print(f'TIMEOUT in check {pid}: {e}')
        rc = 2
    except Exception as e:
        print(f'CHECK-ERROR property={pid}: {e!r}')
        traceback.print_exc()
        rc = 2
    finally:
        ctx.cleanup()
    sys.exit(rc)


def subprocess_timeout():
    import subprocess
    return subprocess.TimeoutExpired


def run(ctx, pid, args):
    P = load_prop(pid)
    t0 = time.time()
    phases = {}
    obligations = []           # (name, ok, detail)
    tie_notes = []

    # ---- tie #1: regenerate Gen, build the theorems, audit -------------------------------------------
    with vlib.lean_lock():
        tr = vlib.run_translator()
        refused = {a: b for a, b in tr.get('refused', [])}
        dep_refused = {u: refused[u] for u in getattr(P, 'GEN_UNITS', []) if u in refused}
        if tr.get('crashed'):
            dep_refused['translator'] = refused.get('translator', 'crashed')
        for u in getattr(P, 'GEN_UNITS', []):
            obligations.append((f'translate:{u}', u not in dep_refused, dep_refused.get(u, '')))
        targets = vlib.props_modules(pid) + list(getattr(P, 'EXTRA_TARGETS', []))
        ok_props, log_props, errs_props, t_build = vlib.lake_build(targets)
        ok_drv, log_drv, errs_drv, _ = vlib.lake_build([f'PdbVerif.Driver.Main{getattr(P, "CLUSTER", "Z")}'])
        ok_spec = True
        if not ok_drv:
            ok_spec, log_spec, errs_spec, _ = vlib.lake_build([f'PdbVerif.Driver.MainSpec{getattr(P, "CLUSTER", "Z")}'])
        pins = list(getattr(P, 'PIN_TARGETS', []))
        pin_fail = []
        for pt in pins:
            okp, logp, errsp, _ = vlib.lake_build([pt])
            if not okp:
                pin_fail.append((pt, errsp[:3]))
        audit = vlib.run_audit(pid, getattr(P, 'CLUSTER', 'Z')) if ok_props else {'theorems': vlib.theorem_names(pid), 'axioms': {}, 'bad': [], 'forbidden': [], 'ok': False, 'log': 'Props did not build'}
    phases['translate+build+audit'] = round(time.time() - t0, 1)
    thms = audit['theorems']
    for n in thms:
        ok_n = ok_props and n in audit['axioms'] and not any(b[0] == n for b in audit['bad'])
        obligations.append((f'theorem:{n}', ok_n, '' if ok_n else 'not checked (build failed)' if not ok_props else 'axiom audit'))
    obligations.append(('audit:no-forbidden-tokens', not audit['forbidden'], '; '.join(audit['forbidden'][:3])))
    for pt in pins:
        bad = [p for p in pin_fail if p[0] == pt]
        obligations.append((f'pin:{pt}', not bad, str(bad[0][1]) if bad else ''))

    if ok_props and (audit['bad'] or audit['forbidden']):
        print(f'CHECK-ERROR property={pid}: axiom/token audit failed: {audit["bad"]} {audit["forbidden"][:3]}')
        return 2

    if dep_refused or pin_fail:
        tie_notes.append('tie: correspondence-only for ' + ', '.join(list(dep_refused) + [p[0] for p in pin_fail]))

    # ---- replay mode ----------------------------------------------------------------------------------
    if args.replay:
        rp = json.load(open(args.replay))
        cases = [rp['case']] if 'case' in rp else rp.get('cases', [])
        recs = evaluate(ctx, P, cases, which='model' if ok_drv else 'spec')
        md, sv, _, he = judge(P, recs, use_model=ok_drv)
        for r in recs:
            print(json.dumps({'case': r['case'], 'impl': r['impl'], 'model': r.get('model'), 'spec': r.get('spec')}, default=str)[:2000])
        if sv or md:
            print(f'VIOLATION property={pid} replay={args.replay}')
            return 1
        return 0

    # ---- tie #2: correspondence -----------------------------------------------------------------------
    which = 'model' if ok_drv else 'spec'
    if not ok_drv and not ok_spec:
        print(f'CHECK-ERROR property={pid}: neither driver builds: {errs_drv[:3]}')
        return 2
    corpus = P.corpus(ctx) if hasattr(P, 'corpus') else []
    cases = corpus + list(P.cases(ctx))
    t1 = time.time()
    recs = evaluate(ctx, P, cases, which=which)
    model_dis, spec_vio, discards, harness_err = judge(P, recs, use_model=ok_drv)
    phases['cases: implementation + driver + comparison'] = round(time.time() - t1, 1)
    if harness_err:
        r = harness_err[0]
        print(f'CHECK-ERROR property={pid}: harness/driver error on a case: {json.dumps(r, default=str)[:1500]}')
        return 2
    extra = []
    t2 = time.time()
    if hasattr(P, 'extra_checks'):      # list of dicts {ok, name, kind?, case, detail}
        try:
            with contextlib.redirect_stdout(io.StringIO()), contextlib.redirect_stderr(io.StringIO()):
                extra = P.extra_checks(ctx)
        except Exception as e:
            # some extra checks run GENERATED functions through the model driver; when a changed source makes the regenerated
            # model fail to build there is no such driver: that is a broken obligation (decided below by the search), not a
            # failure of the machinery.  With an intact driver an exception here is a harness bug and stays one (exit 2).
            if ok_drv and ok_props:
                raise
            extra = [{'name': f'extra checks not run: the model driver or the theorems do not build ({type(e).__name__}: {str(e)[:200]})',
                      'ok': True, 'case': None, 'detail': 'decided by the failing-input search'}]
    phases['extra checks'] = round(time.time() - t2, 1)
    extra_vio = [e for e in extra if not e['ok']]

    # ---- decide ---------------------------------------------------------------------------------------
    broken = [o for o in obligations if not o[1] and o[0].startswith('theorem:')]
    need_search = bool(broken) or bool(model_dis) or not ok_drv
    searched = 0
    if need_search and not spec_vio and not extra_vio and hasattr(P, 'search_cases'):
        scases = list(P.search_cases(ctx))
        srecs = evaluate(ctx, P, scases, which='spec' if not ok_drv else 'model')
        searched = len(srecs)
        _, sv2, d2, he2 = judge(P, srecs, use_model=False)
        spec_vio += sv2
        recs += srecs

    printed_violation = False
    known_lines = []
    n_viol = 0
    seen_kinds = set()
    for r in spec_vio:
        kind = P.classify(r['case'], r['impl'], r['spec']) if hasattr(P, 'classify') else None
        kf = vlib.match_known(pid, kind) if kind else None
        if kf:
            if kf['id'] not in seen_kinds:
                known_lines.append(f'KNOWN-FINDING: property={pid} {kf["id"]}: {kf["what"]}')
                seen_kinds.add(kf['id'])
            continue
        n_viol += 1
        if not printed_violation:
            path = vlib.write_replay(pid, {'property': pid, 'kind': 'input', 'case': r['case'], 'impl_out': r['impl'],
                                           'spec_out': r['spec'], 'model_out': r.get('model'), 'why': r.get('why_spec'),
                                           'how_to_run': f'cd /verif && ./check {pid} --replay <this file>'})
            print(f'VIOLATION property={pid} replay={path}')
            printed_violation = True
    for e in extra_vio:
        kf = vlib.match_known(pid, e.get('kind')) if e.get('kind') else None
        if kf:
            if kf['id'] not in seen_kinds:
                known_lines.append(f'KNOWN-FINDING: property={pid} {kf["id"]}: {kf["what"]}')
                seen_kinds.add(kf['id'])
            continue
        n_viol += 1
        if not printed_violation:
            path = vlib.write_replay(pid, {'property': pid, 'kind': e.get('replay_kind', 'history'), 'case': e.get('case'),
                                           'check': e['name'], 'detail': e.get('detail'),
                                           'how_to_run': f'cd /verif && ./check {pid}'})
            print(f'VIOLATION property={pid} replay={path}')
            printed_violation = True
    # known findings that are exercised by dedicated probes on every run
    if hasattr(P, 'known_probes'):
        with contextlib.redirect_stdout(io.StringIO()), contextlib.redirect_stderr(io.StringIO()):
            probes = list(P.known_probes(ctx))
        for kind, still_fails, what in probes:
            kf = vlib.match_known(pid, kind)
            if kf and still_fails and kf['id'] not in seen_kinds:
                known_lines.append(f'KNOWN-FINDING: property={pid} {kf["id"]}: {kf["what"]}')
                seen_kinds.add(kf['id'])
            elif still_fails and not kf:
                n_viol += 1
                if not printed_violation:
                    path = vlib.write_replay(pid, {'property': pid, 'kind': 'input', 'probe': kind, 'what': what})
                    print(f'VIOLATION property={pid} replay={path}')
                    printed_violation = True
    for l in known_lines:
        print(l)

    if not printed_violation and need_search:
        # a proof obligation or the correspondence no longer checks and no failing input was found
        n_viol += 1
        payload = {'property': pid, 'kind': 'broken-obligation',
                   'broken_theorems': [o[0] for o in broken],
                   'lean_errors': errs_props[:10],
                   'model_vs_implementation': [{'case': r['case'], 'impl': r['impl'], 'model': r.get('model'), 'why': r.get('why_model')}
                                               for r in model_dis[:5]],
                   'driver_build_errors': errs_drv[:10] if not ok_drv else [],
                   'searched_cases': searched + len(cases),
                   'how_to_run': f'cd /verif && ./check {pid}'}
        path = vlib.write_replay(pid, payload)
        print(f'VIOLATION property={pid} replay={path} no-failing-input-found')
        printed_violation = True

    # ---- evidence -------------------------------------------------------------------------------------
    keys = set()
    for r in recs:
        # the verdict is already decided: bookkeeping for the evidence must not turn it into a crash (an implementation output the
        # module's statistics cannot read - typically on a changed tree - is counted by its hash)
        try:
            k = P.nontrivial_key(r['case'], r['impl']) if hasattr(P, 'nontrivial_key') else vlib.case_hash(r['case'])
        except Exception:
            k = vlib.case_hash(r['case'])
        if k is not None:
            keys.add(json.dumps(k, sort_keys=True, default=str))
    n_obl = len(obligations)
    n_dis = sum(1 for o in obligations if o[1])
    samples = []

    def clip(x, n=1500):
        t = json.dumps(x, default=str)
        return x if len(t) <= n else t[:n] + ' ...[clipped]'
    for r in recs[:: max(1, len(recs) // 4)][:4]:
        samples.append({'case': clip(r['case'], 3000), 'impl': clip(r['impl']), 'model': clip(r.get('model')), 'spec': clip(r.get('spec'))})
    coverage = {
        'obligations': n_obl, 'discharged': n_dis,
        'checker_cmd': f'cd /verif/lean && lake build {" ".join(vlib.props_modules(pid))} && lake env lean PdbVerif/Audit/{pid}.lean' +
                       (f' && lake env leanchecker {" ".join(vlib.props_modules(pid))}' if ctx.thorough else ''),
        'trusted_base': vlib.TRUSTED_BASE + list(getattr(P, 'TRUSTED', [])),
        'obligation_list': [{'name': o[0], 'ok': o[1], 'detail': o[2]} for o in obligations],
        'translator': {'refused': tr.get('refused', []), 'changed': tr.get('changed', [])},
        'ties': tie_notes or ['tie #1 (translated Gen) and tie #2 (correspondence) both intact'],
        'programs': max(1, len(getattr(P, 'GEN_UNITS', [])) + len(getattr(P, 'MODELS', []))),
        'disagreements_checked': len(recs),
        'evaluations': len(recs), 'distinct_nontrivial': len(keys),
        'rule': getattr(P, 'RULE', ''),
        'traces_validated_against_impl': len(recs) if ok_drv else 0,
        'model_disagreements': len(model_dis), 'spec_disagreements': len(spec_vio), 'discarded_at_rounding_boundaries': discards,
        'extra_checks': [{'name': e['name'], 'ok': e['ok']} for e in extra][:50],
        'distribution': safe_distribution(P, recs),
        'samples': samples,
        'build_seconds': round(t_build, 1),
        'phase_seconds': phases,
        'axioms': {n: audit['axioms'].get(n) for n in thms},
        'known_findings_reported': sorted(seen_kinds),
    }
    if ctx.thorough and ok_props:
        lc = leanchecker(pid)
        coverage['leanchecker'] = lc
        if lc.get('ok') is False:
            print(f'CHECK-ERROR property={pid}: leanchecker rejected the compiled theorems: {lc.get("log", "")[-400:]}')
            return 2
    vlib.write_evidence(pid, ctx.tier, ctx.seed, getattr(P, 'LEVEL', 'proof'), coverage,
                        list(getattr(P, 'ASSUMPTIONS', [])), time.time() - t0, n_viol)
    return 1 if printed_violation else 0


def safe_distribution(P, recs):
    if not hasattr(P, 'distribution'):
        return {}
    try:
        return P.distribution(recs)
    except Exception as e:
        return {'distribution_unavailable': f'{type(e).__name__}: {str(e)[:200]}'}


def leanchecker(pid):
    import subprocess
    try:
        p = subprocess.run(['lake', 'env', 'leanchecker'] + vlib.props_modules(pid), cwd=vlib.LEAN, capture_output=True, text=True, timeout=3000)
        return {'ok': p.returncode == 0, 'log': (p.stdout + p.stderr)[-600:]}
    except Exception as e:
        return {'ok': None, 'log': repr(e)}


if __name__ == '__main__':
    main()
