"""
complexgen.py -- shared generators for the score properties (C07, C08, C09, C11, C13, C16): synthetic two-chain
complexes as PDB ATOM lines, decoys derived from them, and small numeric helpers (independent optimal-superposition
RMSD).  Every random choice comes from the `rng` passed in.  Coordinates are always written with three decimals, so
the text is the ground truth: `parse_lines` returns exactly the doubles the library will read.
"""
import math
import numpy as np

BACKBONE = [('N', 'N'), ('CA', 'C'), ('C', 'C'), ('O', 'O')]
SIDE = [('CB', 'C'), ('CG', 'C'), ('OD1', 'O'), ('ND2', 'N'), ('SG', 'S')]
HYDRO = [('H', 'H'), ('HA', 'H'), ('1HB', 'H'), ('HD21', 'H')]
RESN = ['ALA', 'GLY', 'SER', 'ASN', 'CYS', 'LEU', 'TRP']


def name_field(name, element):
    """atom name in columns 13-16 by the wwPDB rule"""
    if len(name) == 4 or (len(element) == 2) or name[0].isdigit():
        return name.ljust(4)
    return (' ' + name).ljust(4)


def atom_line(serial, name, resname, chain, resseq, x, y, z, element='C', occ=1.0, temp=0.0, altloc=' ', icode=' '):
    return 'ATOM  %5d %4s%1s%3s %1s%4d%1s   %8.3f%8.3f%8.3f%6.2f%6.2f          %2s  ' % (
        serial % 100000, name_field(name, element), altloc, resname, chain, resseq, icode, x, y, z, occ, temp, element)


def parse_line(l):
    """the fields the score routines look at, as the library reads them"""
    return {'chain': l[21], 'resSeq': int(l[22:26]), 'resName': l[17:20].strip(), 'name': l[12:16].strip(),
            'xyz': (float(l[30:38]), float(l[38:46]), float(l[46:54])), 'line': l}


def parse_lines(lines):
    return [parse_line(l) for l in lines if l.startswith('ATOM')]


def rot_matrix(rng):
    """a random proper rotation"""
    q = np.array([rng.gauss(0, 1) for _ in range(4)])
    q /= np.linalg.norm(q)
    a, b, c, d = q
    return np.array([[a*a+b*b-c*c-d*d, 2*(b*c-a*d), 2*(b*d+a*c)],
                     [2*(b*c+a*d), a*a-b*b+c*c-d*d, 2*(c*d-a*b)],
                     [2*(b*d-a*c), 2*(c*d+a*b), a*a-b*b-c*c+d*d]])


LATTICE_ROTS = None


def lattice_rotations():
    """the 24 proper rotations that map the integer lattice to itself (exact on 3-decimal text)"""
    global LATTICE_ROTS
    if LATTICE_ROTS is None:
        import itertools
        out = []
        for perm in itertools.permutations(range(3)):
            for signs in itertools.product((1, -1), repeat=3):
                m = np.zeros((3, 3), dtype=int)
                for i in range(3):
                    m[i, perm[i]] = signs[i]
                if round(np.linalg.det(m)) == 1:
                    out.append(m)
        LATTICE_ROTS = out
    return LATTICE_ROTS


class Complex:
    """a two-chain complex as a list of residue records; `lines()` renders it"""

    def __init__(self, residues):
        # residues: list of dicts {chain, resSeq, resName, atoms: [(name, element, (x,y,z))]}
        self.residues = residues

    def lines(self, start_serial=1):
        out, s = [], start_serial
        for r in self.residues:
            for (name, el, xyz) in r['atoms']:
                out.append(atom_line(s, name, r['resName'], r['chain'], r['resSeq'], xyz[0], xyz[1], xyz[2], element=el))
                s += 1
        return out

    def copy(self):
        return Complex([{**r, 'atoms': list(r['atoms'])} for r in self.residues])

    def chains(self):
        return sorted({r['chain'] for r in self.residues})


def make_complex(rng, nA=None, nB=None, chains=('A', 'B'), hydrogens=None, numbering=None, gap=None):
    """two chains of nA / nB residues laid out as rough strands facing each other at distance `gap`"""
    nA = nA if nA is not None else rng.randint(3, 12)
    nB = nB if nB is not None else rng.randint(3, 12)
    hydrogens = rng.random() < 0.4 if hydrogens is None else hydrogens
    gap = gap if gap is not None else rng.choice([3.5, 4.5, 6.0, 8.0, 11.0])
    numbering = numbering or rng.choice(['plain', 'negative', 'gappy', 'offset', 'wide', 'continuous'])
    residues = []
    for ci, (chain, n) in enumerate(zip(chains, (nA, nB))):
        if numbering == 'plain':
            nums = list(range(1, n + 1))
        elif numbering == 'continuous':
            # one numbering through both chains (A 1..nA, B nA+1..): the last residue of A and the first of B are consecutive numbers
            # (round-8 seed C09-r8m1: zone files compacted to ranges that forget to check the chain)
            nums = list(range(1, n + 1)) if ci == 0 else list(range(nA + 1, nA + n + 1))
        elif numbering == 'negative':
            nums = list(range(-(n // 2) - 1, -(n // 2) - 1 + n))
        elif numbering == 'offset':
            st = rng.randint(100, 900)
            nums = list(range(st, st + n))
        elif numbering == 'wide':
            # all four residue-number columns in use: 4-digit numbers, or a minus sign and three digits
            st = rng.choice([rng.randint(995, 9999 - n), -999, rng.randint(-999, -100)])
            nums = list(range(st, st + n))
        else:
            nums, cur = [], rng.randint(-5, 20)
            for _ in range(n):
                nums.append(cur)
                cur += rng.choice([1, 1, 1, 2, 5])
        yoff = 0.0 if ci == 0 else gap
        phase = rng.uniform(0, 2 * math.pi)
        # chain B is shifted along x so that only part of the strands face each other
        xoff = 0.0 if ci == 0 else rng.choice([0.0, 3.8, -3.8, 7.6])
        for k, num in enumerate(nums):
            bx = xoff + 3.8 * k
            by = yoff + 1.2 * math.sin(phase + k * 1.7)
            bz = 1.5 * math.cos(phase + k * 1.1)
            atoms = []
            d = [(0.0, 0.0, 0.0), (1.2, 0.5, 0.1), (2.3, 0.2, 0.9), (2.5, 1.0, -0.7)]
            for (nm, el), dv in zip(BACKBONE, d):
                atoms.append((nm, el, (round(bx + dv[0], 3), round(by + dv[1], 3), round(bz + dv[2], 3))))
            nside = rng.randint(0, 4)
            sdir = 1.0 if ci == 0 else -1.0
            for j, (nm, el) in enumerate(SIDE[:nside]):
                atoms.append((nm, el, (round(bx + 1.1 + 0.3 * j, 3), round(by + sdir * (1.3 + 1.1 * j), 3), round(bz + 0.4 * j, 3))))
            if hydrogens:
                for j, (nm, el) in enumerate(HYDRO[:rng.randint(0, 3)]):
                    atoms.append((nm, el, (round(bx + 0.5 + 0.2 * j, 3), round(by + sdir * (0.8 + 0.6 * j), 3), round(bz - 0.9, 3))))
            residues.append({'chain': chain, 'resSeq': num, 'resName': rng.choice(RESN), 'atoms': atoms})
    return Complex(residues)


def make_long_complex(rng, nA=None, nB=None, chains=('A', 'B')):
    """two chains whose residues are LONG (a straight side chain of 6-11 heavy atoms, nucleotide- or lipid-like, reaching 8-15 A
    from the backbone) and touch the other chain TIP TO TIP: the residue centres are 15-28 A apart while the closest atoms are
    3-5 A apart.  (Round-4 seed C08-r4m2: a rejection test on residue centres with a maximal residue radius of 5 A is right for the
    twenty amino acids only; the property quantifies over any geometry.)"""
    nA = nA if nA is not None else rng.randint(2, 5)
    nB = nB if nB is not None else rng.randint(2, 5)
    lenA, lenB = rng.randint(6, 11), rng.randint(6, 11)
    tip = rng.choice([3.1, 3.6, 4.2, 4.8])
    gap = 1.4 * (lenA + lenB) + 2.6 + tip           # backbone-to-backbone distance along y
    residues = []
    for ci, (chain, n, ln) in enumerate(zip(chains, (nA, nB), (lenA, lenB))):
        sdir = 1.0 if ci == 0 else -1.0
        yoff = 0.0 if ci == 0 else gap
        for k in range(n):
            bx = 7.5 * k + (0.0 if ci == 0 else rng.choice([0.0, 0.6, -0.6]))
            bz = rng.choice([0.0, 0.4, -0.4])
            atoms = []
            d = [(0.0, 0.0, 0.0), (1.2, 0.0, 0.1), (2.3, 0.0, 0.9), (2.5, 0.0, -0.7)]
            for (nm, el), dv in zip(BACKBONE, d):
                atoms.append((nm, el, (round(bx + dv[0], 3), round(yoff - sdir * abs(dv[1]), 3), round(bz + dv[2], 3))))
            for j in range(ln):
                atoms.append(('C%02d' % (j + 1), 'C', (round(bx + 1.2, 3), round(yoff + sdir * (1.3 + 1.4 * j), 3), round(bz, 3))))
            residues.append({'chain': chain, 'resSeq': k + 1 if ci == 0 else 101 + k, 'resName': rng.choice(['DG', 'DA', 'LIP', 'TRP']),
                             'atoms': atoms})
    return Complex(residues)


def make_large_complex(rng, n_big, n_small_res=None, chains=('A', 'B'), big_first=True, hydrogens=True, where=None, layout=None, gap=None):
    """a LARGE two-chain complex: one chain of EXACTLY `n_big` ATOM records (hundreds to thousands: protonated receptors) and a small
    partner of `n_small_res` residues that lies along a window of the big chain.  Residues: backbone + 0-3 side-chain atoms
    (+ 1-3 hydrogens H/HA/1HB/HD21 when `hydrogens`), every atom within 1.5 A of its residue centre; centres 4 A apart along a straight
    line (`layout`='line') or a serpentine of rows 10 A apart ('serpentine').  `where` places the window of the big chain that faces
    the partner: 'start', 'end' (the last residues: atom positions n_big-..n_big), 'straddle' (around a given atom position
    `where=('straddle', pos)`) or 'random'.  `big_first`: the big chain carries chains[0] (and comes first in the file).
    Returns (Complex, info) with info = {'window': (first residue index, last), 'big': chain id, 'small': chain id}."""
    layout = layout or rng.choice(['line', 'serpentine'])
    gap = gap if gap is not None else rng.choice([3.2, 3.8, 4.5])
    n_small_res = n_small_res if n_small_res is not None else rng.randint(12, 36)
    big, small = (chains[0], chains[1]) if big_first else (chains[1], chains[0])
    ncols = 40

    def centre(k):
        if layout == 'line':
            return (4.0 * k, 0.0, 0.0)
        row, col = divmod(k, ncols)
        return (4.0 * (col if row % 2 == 0 else ncols - 1 - col), 0.0, 10.0 * row)

    def residue(chain, num, c, dy):
        names = list(BACKBONE) + SIDE[:rng.randint(0, 3)]
        if hydrogens:
            names += HYDRO[:rng.randint(1, 3)] if rng.random() < 0.8 else [HYDRO[rng.randrange(4)]]
        atoms = [(nm, el, (round(c[0] + rng.uniform(-1.5, 1.5), 3), round(c[1] + dy + rng.uniform(-1.5, 1.5), 3),
                           round(c[2] + rng.uniform(-1.5, 1.5), 3))) for nm, el in names]
        if rng.random() < 0.3:
            rng.shuffle(atoms)                      # hydrogens / side chain not always after the backbone
        return {'chain': chain, 'resSeq': num, 'resName': rng.choice(RESN), 'atoms': atoms}

    bigres, count, k = [], 0, 0
    start = rng.choice([1, 1, 17, -5])
    while count < n_big:
        r = residue(big, start + k, centre(k), 0.0)
        r['atoms'] = r['atoms'][:n_big - count]
        count += len(r['atoms'])
        bigres.append(r)
        k += 1
    nres = len(bigres)
    n_small_res = min(n_small_res, nres)
    mode, pos = (where if isinstance(where, tuple) else (where or rng.choice(['end', 'straddle', 'random', 'start']), None))
    if mode == 'end':
        first = nres - n_small_res
    elif mode == 'start':
        first = 0
    elif mode == 'straddle':
        pos = pos if pos is not None else n_big // 2
        acc, kres = 0, 0
        for i, r in enumerate(bigres):              # the residue holding atom position `pos` (1-based) of the big chain
            acc += len(r['atoms'])
            if acc >= pos:
                kres = i
                break
        first = kres - rng.randint(n_small_res // 4, max(n_small_res // 4, (3 * n_small_res) // 4))
    else:
        first = rng.randint(0, nres - n_small_res)
    first = max(0, min(first, nres - n_small_res))
    smallres = [residue(small, 1 + j, centre(first + j), gap) for j in range(n_small_res)]
    res = bigres + smallres if big_first else smallres + bigres
    return Complex(res), {'window': (first, first + n_small_res - 1), 'big': big, 'small': small, 'layout': layout, 'gap': gap, 'where': mode}


def jitter(rng, cx, sigma):
    out = cx.copy()
    for r in out.residues:
        r['atoms'] = [(n, e, tuple(round(v + rng.gauss(0, sigma), 3) for v in xyz)) for (n, e, xyz) in r['atoms']]
    return out


def rigid_move(rng, cx, which='all', exact=False, angle_scale=1.0, shift=20.0):
    """apply one proper rigid motion to chain `which` ('all' or a chain id); `exact`: lattice rotation + millesimal translation"""
    out = cx.copy()
    if exact:
        R = lattice_rotations()[rng.randrange(24)].astype(float)
        t = np.array([rng.randint(-20000, 20000) / 1000.0 for _ in range(3)])
    else:
        R = rot_matrix(rng)
        t = np.array([rng.uniform(-shift, shift) for _ in range(3)])
    for r in out.residues:
        if which == 'all' or r['chain'] == which:
            r['atoms'] = [(n, e, tuple(round(float(v), 3) for v in (R @ np.array(xyz) + t))) for (n, e, xyz) in r['atoms']]
    return out


def delete_some(rng, cx, n_res=1, n_atoms=0, chain=None):
    out = cx.copy()
    cand = [i for i, r in enumerate(out.residues) if chain is None or r['chain'] == chain]
    for i in sorted(rng.sample(cand, min(n_res, max(0, len(cand) - 2))), reverse=True):
        del out.residues[i]
    for _ in range(n_atoms):
        r = rng.choice(out.residues)
        if len(r['atoms']) > 1:
            del r['atoms'][rng.randrange(len(r['atoms']))]
    return out


def permute(rng, cx, level):
    """reorder records: 'atoms' within residues, 'residues' within chains, 'chains' (blocks)"""
    out = cx.copy()
    if level == 'atoms':
        for r in out.residues:
            rng.shuffle(r['atoms'])
    elif level == 'residues':
        by = {}
        for r in out.residues:
            by.setdefault(r['chain'], []).append(r)
        res = []
        for c in by:
            rng.shuffle(by[c])
            res += by[c]
        out.residues = res
    elif level == 'chains':
        by = {}
        for r in out.residues:
            by.setdefault(r['chain'], []).append(r)
        order = list(by)
        order.reverse()
        out.residues = [r for c in order for r in by[c]]
    elif level in NONCONTIGUOUS_LEVELS:
        # layouts in which the records of ONE residue are NOT contiguous in the file (a residue is then rendered as two or more
        # blocks of records: `residues` holds several entries with the same chain / resSeq / resName).  The atoms, their residues
        # and their coordinates are unchanged, so every quantity defined on the set of atoms is unchanged.
        by = {}
        for r in out.residues:
            by.setdefault(r['chain'], []).append(r)
        bbnames = {n for n, _ in BACKBONE}
        res = []
        for c in by:
            if level == 'backbone_first':           # N CA C O of all residues of the chain first, the other atoms afterwards
                first = [{**r, 'atoms': [a for a in r['atoms'] if a[0] in bbnames]} for r in by[c]]
                later = [{**r, 'atoms': [a for a in r['atoms'] if a[0] not in bbnames]} for r in by[c]]
            elif level == 'heavy_first':            # heavy atoms of all residues first, hydrogens appended (as protonation tools do)
                first = [{**r, 'atoms': [a for a in r['atoms'] if not a[0].startswith('H')]} for r in by[c]]
                later = [{**r, 'atoms': [a for a in r['atoms'] if a[0].startswith('H')]} for r in by[c]]
            elif level == 'tail':                   # one to three atoms of some residues appended at the end of the chain
                first, later = [], []
                for r in by[c]:
                    k = rng.randint(1, 3) if (len(r['atoms']) > 1 and rng.random() < 0.6) else 0
                    k = min(k, len(r['atoms']) - 1)
                    idx = set(rng.sample(range(len(r['atoms'])), k))
                    first.append({**r, 'atoms': [a for i, a in enumerate(r['atoms']) if i not in idx]})
                    later.append({**r, 'atoms': [a for i, a in enumerate(r['atoms']) if i in idx]})
                rng.shuffle(later)
            else:                                   # 'atom_shuffle': all the atoms of the chain in random order
                first = [{**r, 'atoms': [a]} for r in by[c] for a in r['atoms']]
                rng.shuffle(first)
                later = []
            res += [r for r in first + later if r['atoms']]
        out.residues = res
    return out


NONCONTIGUOUS_LEVELS = ['backbone_first', 'heavy_first', 'tail', 'atom_shuffle']


def mirror(cx, axis=2):
    """the mirror image through a coordinate plane (the best orthogonal map back is a reflection: exercises the
    determinant correction of the superposition kernels)"""
    out = cx.copy()
    for r in out.residues:
        r['atoms'] = [(n, e, tuple((-v if k == axis else v) for k, v in enumerate(xyz))) for (n, e, xyz) in r['atoms']]
    return out


def renumber(cx, delta):
    out = cx.copy()
    for r in out.residues:
        r['resSeq'] = r['resSeq'] + delta
    return out


# ---------------------------------------------------------------------------------------------------------
# independent numerics (harness side): optimal superposition by Horn's quaternion method with eigh
# ---------------------------------------------------------------------------------------------------------

def optimal_rotation(P, Q):
    """proper rotation R minimising sum |R p - q|^2 for centred P, Q (n x 3)"""
    P, Q = np.asarray(P, float), np.asarray(Q, float)
    M = P.T @ Q
    Sxx, Sxy, Sxz, Syx, Syy, Syz, Szx, Szy, Szz = M.flatten()
    N = np.array([[Sxx + Syy + Szz, Syz - Szy, Szx - Sxz, Sxy - Syx],
                  [Syz - Szy, Sxx - Syy - Szz, Sxy + Syx, Szx + Sxz],
                  [Szx - Sxz, Sxy + Syx, -Sxx + Syy - Szz, Syz + Szy],
                  [Sxy - Syx, Szx + Sxz, Syz + Szy, -Sxx - Syy + Szz]])
    w, v = np.linalg.eigh(N)
    a, b, c, d = v[:, -1]
    return np.array([[a*a+b*b-c*c-d*d, 2*(b*c-a*d), 2*(b*d+a*c)],
                     [2*(b*c+a*d), a*a-b*b+c*c-d*d, 2*(c*d-a*b)],
                     [2*(b*d-a*c), 2*(c*d+a*b), a*a-b*b-c*c+d*d]])


def min_rmsd(P, Q):
    """minimum over rigid motions of the RMSD between paired point lists"""
    P, Q = np.asarray(P, float), np.asarray(Q, float)
    if len(P) == 0:
        return float('nan')
    Pc, Qc = P - P.mean(0), Q - Q.mean(0)
    R = optimal_rotation(Pc, Qc)
    return float(np.sqrt(((Pc @ R.T - Qc) ** 2).sum() / len(P)))


def fit_then_eval(Pfit, Qfit, Peval, Qeval):
    """superpose Pfit on Qfit optimally, apply the same motion to Peval, RMSD against Qeval"""
    Pfit, Qfit, Peval, Qeval = (np.asarray(a, float) for a in (Pfit, Qfit, Peval, Qeval))
    cp, cq = Pfit.mean(0), Qfit.mean(0)
    R = optimal_rotation(Pfit - cp, Qfit - cq)
    moved = (Peval - cp) @ R.T + cq
    return float(np.sqrt(((moved - Qeval) ** 2).sum() / len(Peval)))
