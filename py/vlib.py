"""
vlib.py -- shared machinery of the checks: PRNG, exact-rational transport, the Lean drivers, the build /
audit steps, evidence, replays and known findings.  Runs under /venv/bin/python (repo importable, NumPy present).
"""
import os, sys, json, time, hashlib, subprocess, random, re, fcntl, tempfile, shutil, contextlib, traceback
from fractions import Fraction

VERIF = os.path.dirname(os.path.dirname(os.path.abspath(__file__)))
LEAN = os.path.join(VERIF, 'lean')
REPO = os.environ.get('PDB2SQL_REPO', '/repo')
EVIDENCE = os.path.join(VERIF, 'evidence')
REPLAYS = os.path.join(VERIF, 'replays')
ALLOWED_AXIOMS = {'propext', 'Classical.choice', 'Quot.sound'}
FORBIDDEN = re.compile(r'\bsorry\b|\badmit\b|^\s*axiom\s|native_decide|bv_decide|implemented_by|\bunsafe\s|maxHeartbeats\s+0')

TRUSTED_BASE = [
    "Lean 4.33.0 kernel (re-checked by leanchecker in the thorough tier)",
    "axioms: propext, Classical.choice, Quot.sound only (audited per theorem on every run); no native_decide, bv_decide, sorry or user axioms",
    "Mathlib v4.33.0 as installed",
    "translator /verif/py/translate.py and its plug-ins py/translate_ext_*.py (Python ast -> Gen/*.lean), cross-checked by running the generated functions against the real ones on every run",
    "correspondence harness /verif/py and the Lean JSON drivers (decoding, canonicalisation, tolerances)",
    "CPython int()/float()/str.format/round on the grammar modelled in Py/Num.lean; NumPy and SQLite as contracts (DESIGN.md section 4)",
    "IEEE-754 evaluation of the numeric kernels is compared on samples, not proved (DESIGN.md section 3)",
]


# ----------------------------------------------------------------------------------------------
# numbers
# ----------------------------------------------------------------------------------------------

def rat(x):
    """exact value of a Python/NumPy number as 'num/den'"""
    if isinstance(x, bool):
        raise TypeError('bool')
    if isinstance(x, int):
        return f'{x}/1'
    fr = Fraction(float(x)) if not isinstance(x, Fraction) else x
    return f'{fr.numerator}/{fr.denominator}'


def unrat(s):
    n, _, d = s.partition('/')
    return Fraction(int(n), int(d) if d else 1)


def exc_tag(e):
    """map a real exception to the enum the models use"""
    if isinstance(e, RecursionError):
        return 'ERR:RecursionError'
    for cls in (FileNotFoundError, ValueError, TypeError, IndexError, KeyError, ZeroDivisionError, UnboundLocalError):
        if isinstance(e, cls):
            return 'ERR:' + cls.__name__
    return 'ERR:Other:' + type(e).__name__


# ----------------------------------------------------------------------------------------------
# context
# ----------------------------------------------------------------------------------------------

class Ctx:
    def __init__(self, pid, tier, seed):
        self.pid, self.tier, self.seed = pid, tier, seed
        self.rng = random.Random(f'{pid}:{seed}')
        self.t0 = time.time()
        self.notes = []
        self._tmp = None

    @property
    def thorough(self):
        return self.tier == 'thorough'

    def tmpdir(self):
        if self._tmp is None:
            self._tmp = tempfile.mkdtemp(prefix=f'verif_{self.pid}_')
        return self._tmp

    def cleanup(self):
        if self._tmp and os.path.isdir(self._tmp):
            shutil.rmtree(self._tmp, ignore_errors=True)

    def scale(self, quick, thorough):
        return thorough if self.thorough else quick


# ----------------------------------------------------------------------------------------------
# Lean: translate, build, audit, drivers
# ----------------------------------------------------------------------------------------------

@contextlib.contextmanager
def lean_lock():
    os.makedirs(os.path.join(LEAN, '.lake'), exist_ok=True)
    f = open(os.path.join(LEAN, '.lake', 'verif.lock'), 'w')
    fcntl.flock(f, fcntl.LOCK_EX)
    try:
        yield
    finally:
        fcntl.flock(f, fcntl.LOCK_UN)
        f.close()


def run_translator():
    """regenerate Gen/*.lean from the current /repo; returns the translator's report"""
    p = subprocess.run([sys.executable if False else 'python3', os.path.join(VERIF, 'py', 'translate.py'),
                        os.path.join(LEAN, 'PdbVerif', 'Gen')], capture_output=True, text=True, timeout=120,
                       env=dict(os.environ, PDB2SQL_REPO=REPO))
    if p.returncode != 0:
        return {'refused': [['translator', (p.stderr or p.stdout)[-2000:]]], 'written': [], 'changed': [], 'crashed': True}
    try:
        return json.loads(p.stdout.strip().splitlines()[-1])
    except Exception:
        return {'refused': [['translator', 'unparsable output: ' + p.stdout[-500:]]], 'written': [], 'changed': [], 'crashed': True}


def lake_build(targets, timeout=3000):
    t0 = time.time()
    p = subprocess.run(['lake', 'build'] + targets, cwd=LEAN, capture_output=True, text=True, timeout=timeout)
    log = p.stdout + p.stderr
    errs = [l for l in log.splitlines() if l.startswith('error:') or ': error:' in l or ': error' in l]
    return p.returncode == 0, log, errs, time.time() - t0


def theorem_names(pid):
    """fully qualified names of the theorems in Props/<pid>.lean (namespace tracking by `namespace X` / `end X`)"""
    names = []
    for path in props_files(pid):
        names += theorem_names_of(path)
    return names


def props_files(pid):
    """Props/<pid>.lean and, when present, Props/<pid>K.lean, Props/<pid>K2.lean, ... (ties of translated code to the models)"""
    d = os.path.join(LEAN, 'PdbVerif', 'Props')
    out = [os.path.join(d, f'{pid}.lean')]
    for f in sorted(os.listdir(d)):
        if re.fullmatch(re.escape(pid) + r'K\d*\.lean', f):
            out.append(os.path.join(d, f))
    return out


def props_modules(pid):
    return ['PdbVerif.Props.' + os.path.basename(p)[:-5] for p in props_files(pid)]


def theorem_names_of(path):
    names, ns = [], []
    for line in open(path):
        m = re.match(r'\s*namespace\s+(\S+)', line)
        if m:
            ns.append(m.group(1)); continue
        m = re.match(r'\s*end\s+(\S+)', line)
        if m and ns and ns[-1] == m.group(1):
            ns.pop(); continue
        m = re.match(r'\s*(?:private\s+|protected\s+)?theorem\s+([^\s:({\[]+)', line)
        if m:
            names.append('.'.join(ns + [m.group(1)]))
    return names


def import_closure(modules):
    """paths of the PdbVerif source files transitively imported by `modules`"""
    seen, todo = {}, list(modules)
    while todo:
        m = todo.pop()
        if m in seen or not m.startswith('PdbVerif'):
            continue
        path = os.path.join(LEAN, *m.split('.')) + '.lean'
        if not os.path.exists(path):
            continue
        seen[m] = path
        for line in open(path):
            mm = re.match(r'\s*import\s+(PdbVerif\.\S+)', line)
            if mm:
                todo.append(mm.group(1))
    return set(seen.values())


def run_audit(pid, cluster=None):
    """#print axioms for every theorem of Props/<pid>; forbidden-token grep over /verif/lean"""
    names = theorem_names(pid)
    audit_path = os.path.join(LEAN, 'PdbVerif', 'Audit', f'{pid}.lean')
    text = f'/- GENERATED by the check: axiom audit of every theorem in Props/{pid}.lean (and Props/{pid}K.lean) -/\n' + \
           ''.join(f'import {m}\n' for m in props_modules(pid)) + \
           ''.join(f'#print axioms {n}\n' for n in names)
    old = open(audit_path).read() if os.path.exists(audit_path) else None
    if old != text:
        os.makedirs(os.path.dirname(audit_path), exist_ok=True)
        open(audit_path, 'w').write(text)
    p = subprocess.run(['lake', 'env', 'lean', audit_path], cwd=LEAN, capture_output=True, text=True, timeout=900)
    out = p.stdout + p.stderr
    res, bad = {}, []
    for n in names:
        m = re.search(r"'" + re.escape(n) + r"' depends on axioms: \[([^\]]*)\]", out)
        if m:
            ax = {a.strip() for a in m.group(1).replace('\n', ' ').split(',') if a.strip()}
            res[n] = sorted(ax)
            if not ax <= ALLOWED_AXIOMS:
                bad.append((n, sorted(ax - ALLOWED_AXIOMS)))
        elif re.search(r"'" + re.escape(n) + r"' does not depend on any axioms", out):
            res[n] = []
        else:
            bad.append((n, ['<no axiom report>']))
    # forbidden tokens outside comments, in every file the property's theorems and its drivers import (transitively)
    hits = []
    roots = props_modules(pid) + [f'PdbVerif.Driver.Main{c}' for c in (cluster or '')]
    for path in sorted(import_closure(roots)):
        hits += forbidden_hits(path)
    return {'theorems': names, 'axioms': res, 'bad': bad, 'forbidden': hits, 'ok': p.returncode == 0 and not bad and not hits,
            'log': out[-3000:] if p.returncode != 0 else ''}


def strip_comments(text):
    # remove /- ... -/ (nested) and -- ... comments
    out, i, depth = [], 0, 0
    while i < len(text):
        if text.startswith('/-', i):
            depth += 1; i += 2; continue
        if depth and text.startswith('-/', i):
            depth -= 1; i += 2; continue
        if depth:
            if text[i] == '\n':
                out.append('\n')
            i += 1; continue
        if text.startswith('--', i):
            j = text.find('\n', i)
            i = len(text) if j < 0 else j
            continue
        out.append(text[i]); i += 1
    return ''.join(out)


def forbidden_hits(path):
    hits = []
    body = strip_comments(open(path).read())
    # string literals may legitimately contain the words (e.g. in messages): drop them
    body = re.sub(r'"(?:[^"\\]|\\.)*"', '""', body)
    for k, line in enumerate(body.splitlines(), 1):
        if FORBIDDEN.search(line):
            hits.append(f'{os.path.relpath(path, LEAN)}:{k}: {line.strip()[:80]}')
    return hits


def _run_driver_one(lines, main, timeout):
    data = '\n'.join(json.dumps(l, separators=(',', ':')) for l in lines) + '\n'
    p = subprocess.run(['lake', 'env', 'lean', '--run', main], cwd=LEAN, input=data, capture_output=True, text=True, timeout=timeout)
    if p.returncode != 0:
        raise RuntimeError('driver failed: ' + (p.stderr or p.stdout)[-2000:])
    outs = [json.loads(l) for l in p.stdout.splitlines() if l.strip()]
    if len(outs) != len(lines):
        raise RuntimeError(f'driver answered {len(outs)} lines for {len(lines)} cases; stderr: {p.stderr[-500:]}')
    return outs


def run_driver(lines, which='model', timeout=3000, cluster='Z'):
    """pipe JSON lines through the Lean driver of `cluster`; returns the list of decoded answers (one per line).
    The drivers answer every line on its own (Driver/Json.lean `loop`: no state between lines), so a long batch is cut into
    contiguous chunks that run in parallel interpreter processes (VERIF_DRIVER_JOBS, default 6) and are concatenated in order."""
    main = f'run/Model{cluster}.lean' if which == 'model' else f'run/Spec{cluster}.lean'
    jobs = max(1, int(os.environ.get('VERIF_DRIVER_JOBS', '6') or 1))
    size = sum(len(json.dumps(l)) for l in lines[:50]) * max(1, len(lines)) // max(1, min(50, len(lines)))
    if jobs == 1 or len(lines) < 24 or size < 200000:
        return _run_driver_one(lines, main, timeout)
    k = min(jobs, len(lines) // 8)
    # interleaved assignment balances families that come in blocks; answers are put back in order
    idx = [list(range(i, len(lines), k)) for i in range(k)]
    from concurrent.futures import ThreadPoolExecutor
    with ThreadPoolExecutor(max_workers=k) as ex:
        parts = list(ex.map(lambda ii: _run_driver_one([lines[i] for i in ii], main, timeout), idx))
    out = [None] * len(lines)
    for ii, part in zip(idx, parts):
        for i, a in zip(ii, part):
            out[i] = a
    return out


# ----------------------------------------------------------------------------------------------
# known findings, replays, evidence
# ----------------------------------------------------------------------------------------------

def load_known():
    with open(os.path.join(VERIF, 'known_findings.json')) as f:
        return json.load(f)


def match_known(pid, kind):
    for e in load_known().get('findings', []):
        if e['property'] == pid and e.get('match', {}).get('kind') == kind:
            return e
    return None


def write_replay(pid, payload):
    os.makedirs(REPLAYS, exist_ok=True)
    blob = json.dumps(payload, sort_keys=True, default=str)
    h = hashlib.sha1(blob.encode()).hexdigest()[:12]
    path = os.path.join(REPLAYS, f'{pid}-{h}.json')
    with open(path, 'w') as f:
        json.dump(payload, f, indent=1, sort_keys=True, default=str)
    return path


def write_evidence(pid, tier, seed, level, coverage, assumptions, wall, violations):
    os.makedirs(EVIDENCE, exist_ok=True)
    ev = {'property_id': pid, 'tier': tier, 'seed': seed, 'level': level, 'coverage': coverage,
          'assumptions': assumptions, 'wall_s': round(wall, 2), 'violations': violations}
    tmp = os.path.join(EVIDENCE, f'.{pid}.json.tmp')
    with open(tmp, 'w') as f:
        json.dump(ev, f, indent=1, default=str)
    os.replace(tmp, os.path.join(EVIDENCE, f'{pid}.json'))


def case_hash(c):
    return hashlib.sha1(json.dumps(c, sort_keys=True, default=str).encode()).hexdigest()
