#!/usr/bin/env python3
"""
translate.py -- tie #1: regenerate the Lean modules PdbVerif/Gen/*.lean from the *current* text of
/repo/pdb2sql/*.py, so that the theorems which import them are re-checked against what the code says now.

Three modes (see DESIGN.md 2.1):
  * constants  : dict / list / number literals and default arguments           -> Gen/Consts.lean
  * functions  : small scalar/string functions, statement by statement          -> Gen/Str.lean, Gen/Score.lean
  * entries    : the scalar entry expressions of literal / element-wise matrices -> Gen/Mat.lean
  * effects    : the effectful calls of each routine with the shape of their arguments -> Gen/Effects.lean

A function that leaves the supported subset raises Refuse; it is reported (never silently skipped) and the
previously committed translation of that function is kept and demoted to a hand-written model by the caller.

Output is a pure function of the source text (no timestamps), so an unchanged source gives byte-identical Lean.
Only the Python standard library is used.
"""
import ast, os, sys, json, re
from fractions import Fraction

REPO = os.environ.get('PDB2SQL_REPO', '/repo')
SRC = os.path.join(REPO, 'pdb2sql')


class Refuse(Exception):
    def __init__(self, where, why):
        super().__init__(f'{where}: {why}')
        self.where, self.why = where, why


# ---------------------------------------------------------------------------------------------
# helpers
# ---------------------------------------------------------------------------------------------

def parse_module(name):
    path = os.path.join(SRC, name)
    with open(path) as f:
        text = f.read()
    return ast.parse(text, filename=path)


def find_func(mod, qual):
    """qual = 'func' or 'Class.func'"""
    parts = qual.split('.')
    body = mod.body
    node = None
    for p in parts:
        node = None
        for n in body:
            if isinstance(n, (ast.FunctionDef, ast.ClassDef)) and n.name == p:
                node = n
                break
        if node is None:
            raise Refuse(qual, 'not found')
        body = node.body
    return node


def lean_char(c):
    if c == "'":
        return "'\\''"
    if c == '\\':
        return "'\\\\'"
    if c == '\n':
        return "'\\n'"
    if c == '\t':
        return "'\\t'"
    if 32 <= ord(c) < 127:
        return f"'{c}'"
    return f"(Char.ofNat {ord(c)})"


def lean_str(s):
    """a Python str literal as a Lean `List Char` literal"""
    if s == '':
        return '([] : Py.Str)'
    return '([' + ', '.join(lean_char(c) for c in s) + '] : Py.Str)'


def lean_string(s):
    return '"' + s.replace('\\', '\\\\').replace('"', '\\"').replace('\n', '\\n') + '"'


def lean_rat(x):
    """exact rational denoted by the Python number x, as a Lean Rat term"""
    fr = Fraction(x)
    if fr.denominator == 1:
        n = fr.numerator
        return f'({n} : Rat)' if n >= 0 else f'(-{-n} : Rat)'
    n, d = fr.numerator, fr.denominator
    if n >= 0:
        return f'(({n} : Rat) / {d})'
    return f'(-(({-n} : Rat) / {d}))'


def lean_int(n):
    return f'({n} : Int)' if n >= 0 else f'(-{-n} : Int)'


# ---------------------------------------------------------------------------------------------
# function translation (scalar / string front end)
# ---------------------------------------------------------------------------------------------
# types: 'Str', 'Int', 'Rat', 'Bool', 'ListStr', 'Atom', 'Unit', ('Tuple', [..])

ATOM_FIELDS = None  # filled from the source's `col` dict: [(name, ty)]

EXC_MAP = {'ValueError': 'Py.Err.valueError', 'TypeError': 'Py.Err.typeError',
           'FileNotFoundError': 'Py.Err.fileNotFound', 'IndexError': 'Py.Err.indexError',
           'KeyError': 'Py.Err.keyError'}

FMT_RE = re.compile(r'^\{:([<>^])(\d+)(?:\.(\d+)f)?\}$')


class FuncTranslator:
    """
    Translates one Python function body to a Lean `do` block in `Except Py.Err`.
    Mutation is removed by SSA renaming; the statements after an `if` are duplicated into both branches
    (continuation passing), so the result contains no joins and no mutable variables.
    """

    def __init__(self, qual, params, ret, float_mode='exact', abstract_lits=False, known_funcs=None,
                 self_attrs=None):
        self.qual = qual
        self.params = params            # [(pyname, ty)]
        self.ret = ret
        self.float_mode = float_mode    # 'exact' : Rat arithmetic ; 'fl' : every float op rounded by `fl`
        self.abstract_lits = abstract_lits
        self.lits = []                  # abstracted numeric literals, source order
        self.counter = {}
        self.tmp = 0
        self.known_funcs = known_funcs or {}   # pyname -> (leanname, [argtys], retty, raises)
        self.self_attrs = self_attrs or {}
        self.uses_fl = False

    # -- names -------------------------------------------------------------------------------
    def fresh(self, base):
        k = self.counter.get(base, 0)
        self.counter[base] = k + 1
        return base if k == 0 else f'{base}_{k}'

    def fresh_tmp(self):
        self.tmp += 1
        return f't{self.tmp}'

    def refuse(self, node, why):
        line = getattr(node, 'lineno', '?')
        raise Refuse(self.qual, f'line {line}: {why}')

    # -- literals ----------------------------------------------------------------------------
    def num_literal(self, value, node):
        """numeric literal in a Rat context"""
        if self.abstract_lits:
            idx = len(self.lits)
            self.lits.append(value)
            return f'c{idx}'
        return lean_rat(value)

    # -- expressions -------------------------------------------------------------------------
    # returns (code, ty); hoists raising sub-expressions into self.pre (list of 'let t <- e' lines)
    def const_fold(self, node):
        """value of a constant numeric expression, or None"""
        if isinstance(node, ast.Constant) and isinstance(node.value, (int, float)) and not isinstance(node.value, bool):
            return node.value
        if isinstance(node, ast.UnaryOp) and isinstance(node.op, ast.USub):
            v = self.const_fold(node.operand)
            return None if v is None else -v
        if isinstance(node, ast.BinOp):
            a, b = self.const_fold(node.left), self.const_fold(node.right)
            if a is None or b is None:
                return None
            try:
                if isinstance(node.op, ast.Add): return a + b
                if isinstance(node.op, ast.Sub): return a - b
                if isinstance(node.op, ast.Mult): return a * b
                if isinstance(node.op, ast.Div): return a / b
                if isinstance(node.op, ast.Pow): return a ** b
            except Exception:
                return None
        return None

    def expr(self, node, env, want=None):
        cf = self.const_fold(node)
        if cf is not None:
            if isinstance(cf, float) or want == 'Rat':
                return self.num_literal(cf, node), 'Rat'
            return lean_int(cf), 'Int'
        if isinstance(node, ast.Constant):
            if isinstance(node.value, str):
                return lean_str(node.value), 'Str'
            if isinstance(node.value, bool):
                return ('True' if node.value else 'False'), 'Bool'
            self.refuse(node, f'constant {node.value!r}')
        if isinstance(node, ast.Name):
            if node.id not in env:
                # use of a variable that is not definitely assigned
                return None, 'UNBOUND'
            return env[node.id]
        if isinstance(node, ast.Subscript):
            return self.subscript(node, env)
        if isinstance(node, ast.Call):
            return self.call(node, env)
        if isinstance(node, ast.BinOp):
            return self.binop(node, env, want)
        if isinstance(node, ast.UnaryOp):
            if isinstance(node.op, ast.USub):
                c, t = self.expr(node.operand, env, want)
                self.need(c, node)
                if t not in ('Int', 'Rat'):
                    self.refuse(node, 'unary minus on ' + str(t))
                return f'(-{c})', t
            if isinstance(node.op, ast.Not):
                return f'(¬ {self.cond(node.operand, env)})', 'Bool'
        if isinstance(node, (ast.Compare, ast.BoolOp)):
            return self.cond(node, env), 'Bool'
        if isinstance(node, ast.Tuple):
            parts = [self.expr(e, env) for e in node.elts]
            for c, _ in parts:
                self.need(c, node)
            return '(' + ', '.join(c for c, _ in parts) + ')', ('Tuple', [t for _, t in parts])
        if isinstance(node, ast.List) and all(self.const_fold(e) is not None and isinstance(self.const_fold(e), int) for e in node.elts):
            return None, ('ConstList', [self.const_fold(e) for e in node.elts])
        if isinstance(node, ast.Attribute):
            # self.attr constants
            if isinstance(node.value, ast.Name) and node.value.id == 'self' and node.attr in self.self_attrs:
                return self.self_attrs[node.attr]
        self.refuse(node, 'expression ' + ast.dump(node)[:80])

    def need(self, code, node):
        if code is None:
            raise UnboundUse()

    def hoist(self, code):
        t = self.fresh_tmp()
        self.pre.append(f'let {t} ← {code}')
        return t

    def subscript(self, node, env):
        base, bty = self.expr(node.value, env)
        sl = node.slice
        if isinstance(bty, tuple) and bty[0] == 'ConstList':
            idx = self.const_fold(sl)
            if not isinstance(idx, int) or not (-len(bty[1]) <= idx < len(bty[1])):
                self.refuse(node, 'index into a constant list')
            return lean_int(bty[1][idx]), 'Int'
        if isinstance(bty, tuple) and bty[0] == 'Tuple':
            idx = self.const_fold(sl)
            n = len(bty[1])
            if not isinstance(idx, int) or not (0 <= idx < n):
                self.refuse(node, 'index into a tuple')
            self.need(base, node)
            # components of a Lean product a × b × c : .1, .2.1, .2.2
            proj = '.2' * idx + ('.1' if idx < n - 1 else '')
            return f'{base}{proj}', bty[1][idx]
        self.need(base, node)
        if bty == 'Atom':
            idx = self.const_fold(sl)
            if idx is None or not (0 <= idx < len(ATOM_FIELDS)):
                self.refuse(node, 'row index')
            name, ty = ATOM_FIELDS[idx]
            return f'{base}.{name}', ty
        if isinstance(sl, ast.Slice):
            if sl.step is not None:
                self.refuse(node, 'slice step')
            if bty != 'Str':
                self.refuse(node, 'slice of ' + str(bty))
            if sl.lower is not None and sl.upper is not None:
                a, ta = self.expr(sl.lower, env)
                b, tb = self.expr(sl.upper, env)
                if ta != 'Int' or tb != 'Int':
                    self.refuse(node, 'slice bounds')
                return f'(Py.slice {base} {a} {b})', 'Str'
            if sl.lower is not None and sl.upper is None:
                a, ta = self.expr(sl.lower, env)
                if ta != 'Int':
                    self.refuse(node, 'slice bounds')
                return f'(Py.sliceFrom {base} {a})', 'Str'
            self.refuse(node, 'slice form')
        i, ti = self.expr(sl, env)
        if ti != 'Int':
            self.refuse(node, 'index type')
        if bty == 'Str':
            return self.hoist(f'Py.getItem1 {base} {i}'), 'Str'
        if bty == 'ListStr':
            return self.hoist(f'Py.listGet {base} {i}'), 'Str'
        self.refuse(node, 'subscript of ' + str(bty))

    def call(self, node, env):
        f = node.func
        # method calls on strings
        if isinstance(f, ast.Attribute):
            # '{:>5}'.format(x)
            if isinstance(f.value, ast.Constant) and isinstance(f.value.value, str) and f.attr == 'format':
                m = FMT_RE.match(f.value.value)
                if not m or len(node.args) != 1 or node.keywords:
                    self.refuse(node, 'format spec ' + repr(f.value.value))
                align, width, prec = m.group(1), int(m.group(2)), m.group(3)
                a, ta = self.expr(node.args[0], env)
                self.need(a, node)
                if prec is not None:
                    if ta != 'Rat' or align != '>':
                        self.refuse(node, 'float format of ' + str(ta))
                    return f'(Py.fmtFloatR {width} {int(prec)} {a})', 'Str'
                fn = {'>': 'Py.rjust', '<': 'Py.ljust', '^': 'Py.center'}[align]
                if ta == 'Str':
                    return f'({fn} {width} {a})', 'Str'
                if ta == 'Int':
                    return f'({fn} {width} (Py.intStr {a}))', 'Str'
                self.refuse(node, 'format of ' + str(ta))
            # static / self method calls known to the translator
            if isinstance(f.value, ast.Name) and f.value.id in ('self', 'pdb2sql', 'pdb2sql_base') \
                    and f.attr in self.known_funcs:
                lname, argtys, retty, raises = self.known_funcs[f.attr]
                args = []
                if len(node.args) != len(argtys):
                    self.refuse(node, 'arity of ' + f.attr)
                for a_node, want in zip(node.args, argtys):
                    a, ta = self.expr(a_node, env, want)
                    self.need(a, node)
                    if ta != want:
                        self.refuse(node, f'argument type {ta} for {f.attr}')
                    args.append(a)
                code = f'{lname} ' + ' '.join(args)
                return (self.hoist(code) if raises else f'({code})'), retty
            recv, tr = self.expr(f.value, env)
            self.need(recv, node)
            if tr == 'Str':
                if f.attr == 'strip' and not node.args:
                    return f'(Py.strip {recv})', 'Str'
                if f.attr == 'lower' and not node.args:
                    return f'(Py.lower {recv})', 'Str'
                if f.attr == 'split' and not node.args:
                    return f'(Py.splitWs {recv})', 'ListStr'
                if f.attr == 'split' and len(node.args) == 1 and isinstance(node.args[0], ast.Constant) \
                        and isinstance(node.args[0].value, str) and len(node.args[0].value) == 1:
                    return f'(Py.splitOn {lean_char(node.args[0].value)} {recv})', 'ListStr'
                if f.attr == 'startswith' and len(node.args) == 1:
                    a, ta = self.expr(node.args[0], env)
                    return f'(Py.startsWith {recv} {a} = true)', 'Bool'
            self.refuse(node, f'method {f.attr} on {tr}')
        if isinstance(f, ast.Name):
            if f.id == 'len' and len(node.args) == 1:
                a, ta = self.expr(node.args[0], env)
                self.need(a, node)
                if ta == 'Str':
                    return f'(Py.len {a})', 'Int'
                if ta == 'ListStr':
                    return f'(Py.lenL {a})', 'Int'
            if f.id == 'int' and len(node.args) == 1:
                a, ta = self.expr(node.args[0], env)
                self.need(a, node)
                if ta == 'Str':
                    return self.hoist(f'Py.parseInt {a}'), 'Int'
            if f.id == 'float' and len(node.args) == 1:
                a, ta = self.expr(node.args[0], env)
                self.need(a, node)
                if ta == 'Str':
                    return self.hoist(f'Py.parseFloat {a}'), 'Rat'
            if f.id == 'round' and len(node.args) == 2:
                a, ta = self.expr(node.args[0], env, 'Rat')
                self.need(a, node)
                k = self.const_fold(node.args[1])
                if ta == 'Rat' and isinstance(k, int) and k >= 0:
                    if self.float_mode == 'fl':
                        self.uses_fl = True
                        return f'(fl (Py.round {a} {k}))', 'Rat'
                    return f'(Py.round {a} {k})', 'Rat'
            if f.id in self.known_funcs:
                lname, argtys, retty, raises = self.known_funcs[f.id]
                args = []
                if len(node.args) != len(argtys):
                    self.refuse(node, 'arity of ' + f.id)
                for a_node, want in zip(node.args, argtys):
                    a, ta = self.expr(a_node, env, want)
                    self.need(a, node)
                    if ta == 'Int' and want == 'Rat':
                        a, ta = f'(({a} : Int) : Rat)', 'Rat'
                    if ta != want:
                        self.refuse(node, f'argument type {ta} for {f.id}')
                    args.append(a)
                code = f'{lname} ' + ' '.join(args)
                return (self.hoist(code) if raises else f'({code})'), retty
        self.refuse(node, 'call ' + ast.dump(f)[:60])

    def binop(self, node, env, want=None):
        op = node.op
        # 'fmt' % (a, b, ...)
        if isinstance(op, ast.Mod) and isinstance(node.left, ast.Constant) and isinstance(node.left.value, str):
            return self.percent_format(node, env)
        a, ta = self.expr(node.left, env, want)
        b, tb = self.expr(node.right, env, want)
        self.need(a, node); self.need(b, node)
        if isinstance(op, ast.Add) and ta == 'Str' and tb == 'Str':
            return f'({a} ++ {b})', 'Str'
        if isinstance(op, ast.Mult) and ta == 'Str' and tb == 'Int':
            return f'(Py.rep {a} {b})', 'Str'
        if ta in ('Int', 'Rat') and tb in ('Int', 'Rat'):
            if isinstance(op, ast.Pow):
                k = self.const_fold(node.right)
                if k != 2:
                    self.refuse(node, 'power other than 2')
                if ta == 'Int':
                    return f'({a} * {a})', 'Int'
                return self.flop(f'{a} * {a}'), 'Rat'
            if isinstance(op, ast.Div):
                a2 = a if ta == 'Rat' else f'(({a} : Int) : Rat)'
                b2 = b if tb == 'Rat' else f'(({b} : Int) : Rat)'
                d = self.hoist(f'Py.fdiv {a2} {b2}')
                return self.flop(d, wrap=True), 'Rat'
            sym = {ast.Add: '+', ast.Sub: '-', ast.Mult: '*'}.get(type(op))
            if sym is None:
                self.refuse(node, 'operator')
            if ta == 'Int' and tb == 'Int':
                return f'({a} {sym} {b})', 'Int'
            a2 = a if ta == 'Rat' else f'(({a} : Int) : Rat)'
            b2 = b if tb == 'Rat' else f'(({b} : Int) : Rat)'
            return self.flop(f'{a2} {sym} {b2}'), 'Rat'
        self.refuse(node, f'binary operator on {ta}, {tb}')

    def flop(self, code, wrap=False):
        """result of a float operation: rounded by `fl` in 'fl' mode"""
        if self.float_mode == 'fl':
            self.uses_fl = True
            return f'(fl ({code}))' if not wrap else f'(fl {code})'
        return f'({code})' if not wrap else code

    def percent_format(self, node, env):
        fmt = node.left.value
        right = node.right
        elts = right.elts if isinstance(right, ast.Tuple) else [right]
        pieces = re.split(r'(%[sd])', fmt)
        out, k = [], 0
        for p in pieces:
            if p in ('%s', '%d'):
                if k >= len(elts):
                    self.refuse(node, '% arity')
                a, ta = self.expr(elts[k], env)
                self.need(a, node)
                k += 1
                if p == '%s' and ta == 'Str':
                    out.append(a)
                elif p == '%d' and ta == 'Int':
                    out.append(f'(Py.intStr {a})')
                elif p == '%s' and ta == 'Int':
                    out.append(f'(Py.intStr {a})')
                else:
                    self.refuse(node, f'{p} with {ta}')
            elif p:
                if '%' in p:
                    self.refuse(node, 'format directive')
                out.append(lean_str(p))
        if k != len(elts):
            self.refuse(node, '% arity')
        return '(' + ' ++ '.join(out) + ')', 'Str'

    # -- conditions (Prop-valued, decidable) ---------------------------------------------------
    def cond(self, node, env):
        if isinstance(node, ast.BoolOp):
            sym = ' ∧ ' if isinstance(node.op, ast.And) else ' ∨ '
            npre = len(self.pre)
            parts = [self.cond(v, env) for v in node.values]
            if len(self.pre) != npre:
                self.refuse(node, 'raising operand under and/or (short-circuit not modelled)')
            return '(' + sym.join(parts) + ')'
        if isinstance(node, ast.UnaryOp) and isinstance(node.op, ast.Not):
            return f'(¬ {self.cond(node.operand, env)})'
        if isinstance(node, ast.Compare):
            parts = []
            left = node.left
            for op, right in zip(node.ops, node.comparators):
                parts.append(self.compare(left, op, right, env, node))
                left = right
            return parts[0] if len(parts) == 1 else '(' + ' ∧ '.join(parts) + ')'
        # truthiness
        c, t = self.expr(node, env)
        self.need(c, node)
        if t == 'Str':
            return f'({c} ≠ [])'
        if t == 'Bool':
            return c
        if t == 'Int':
            return f'({c} ≠ 0)'
        self.refuse(node, 'truthiness of ' + str(t))

    def compare(self, l, op, r, env, node):
        if isinstance(op, (ast.In, ast.NotIn)):
            a, ta = self.expr(l, env)
            self.need(a, node)
            neg = isinstance(op, ast.NotIn)
            if isinstance(r, ast.Tuple) or isinstance(r, ast.List):
                alts = []
                for e in r.elts:
                    b, tb = self.expr(e, env, ta if ta == 'Rat' else None)
                    alts.append(f'{a} = {b}')
                body = '(' + ' ∨ '.join(alts) + ')'
            else:
                b, tb = self.expr(r, env)
                self.need(b, node)
                if ta == 'Str' and tb == 'Str':
                    body = f'(Py.strIn {a} {b} = true)'
                elif ta == 'Str' and tb == 'ListStr':
                    body = f'({a} ∈ {b})'
                else:
                    self.refuse(node, f'in on {ta}, {tb}')
            return f'(¬ {body})' if neg else body
        a, ta = self.expr(l, env)
        b, tb = self.expr(r, env, 'Rat' if ta == 'Rat' else None)
        if ta == 'Int' and tb == 'Rat':
            a, ta = self.expr(l, env, 'Rat')
        self.need(a, node); self.need(b, node)
        if ta != tb:
            if {ta, tb} == {'Int', 'Rat'}:
                if ta == 'Int': a = f'(({a} : Int) : Rat)'
                else: b = f'(({b} : Int) : Rat)'
            else:
                self.refuse(node, f'comparison of {ta} with {tb}')
        sym = {ast.Eq: '=', ast.NotEq: '≠', ast.Lt: '<', ast.LtE: '≤', ast.Gt: '>', ast.GtE: '≥'}.get(type(op))
        if sym is None:
            self.refuse(node, 'comparison operator')
        if sym in '<≤>≥' and ta == 'Str':
            self.refuse(node, 'ordering on strings')
        return f'({a} {sym} {b})'

    # -- statements --------------------------------------------------------------------------
    def block(self, stmts, env, ind, tail=None):
        """lines of a do-block for `stmts` followed by the continuation `tail` (a callable env,ind -> lines)"""
        if not stmts:
            if tail is None:
                return [ind + 'pure ()'] if self.ret == 'Unit' else [ind + 'throw Py.Err.unboundLocal']
            return tail(env, ind)
        s, rest = stmts[0], stmts[1:]
        cont = lambda e, i: self.block(rest, e, i, tail)
        try:
            return self.stmt(s, env, ind, cont)
        except UnboundUse:
            return [ind + 'throw Py.Err.unboundLocal']

    def with_pre(self, ind, lines):
        out = [ind + p for p in self.pre] + lines
        self.pre = []
        return out

    def stmt(self, s, env, ind, cont):
        self.pre = []
        if isinstance(s, ast.Expr):
            # docstrings, warnings.warn(...), print(...): no effect on the value
            if isinstance(s.value, ast.Constant):
                return cont(env, ind)
            if isinstance(s.value, ast.Call):
                f = s.value.func
                name = f.attr if isinstance(f, ast.Attribute) else getattr(f, 'id', '')
                if name in ('warn', 'print'):
                    return cont(env, ind)
            self.refuse(s, 'expression statement')
        if isinstance(s, ast.Return):
            if s.value is None:
                return [ind + 'pure ()']
            c, t = self.expr(s.value, env, self.ret if self.ret == 'Rat' else None)
            self.need(c, s)
            self.check_ret(t, s)
            return self.with_pre(ind, [ind + f'pure {c}'])
        if isinstance(s, ast.Raise):
            exc = s.exc
            name = exc.func.id if isinstance(exc, ast.Call) and isinstance(exc.func, ast.Name) else \
                (exc.id if isinstance(exc, ast.Name) else None)
            if name not in EXC_MAP:
                self.refuse(s, 'raise of ' + str(name))
            return [ind + f'throw {EXC_MAP[name]}']
        if isinstance(s, (ast.Assign, ast.AugAssign)):
            if isinstance(s, ast.AugAssign):
                target = s.target
                value = ast.BinOp(left=ast.Name(id=s.target.id, ctx=ast.Load()), op=s.op, right=s.value)
                ast.copy_location(value, s)
                ast.fix_missing_locations(value)
            else:
                if len(s.targets) != 1:
                    self.refuse(s, 'multiple targets')
                target, value = s.targets[0], s.value
            if isinstance(target, ast.Name):
                c, t = self.expr(value, env)
                if isinstance(t, tuple) and t[0] == 'ConstList':
                    env2 = dict(env); env2[target.id] = (None, t)
                    return cont(env2, ind)
                self.need(c, s)
                nm = self.fresh(target.id)
                env2 = dict(env); env2[target.id] = (nm, t)
                return self.with_pre(ind, [ind + f'let {nm} := {c}']) + cont(env2, ind)
            if isinstance(target, ast.Tuple) and isinstance(value, ast.Tuple) and len(target.elts) == len(value.elts):
                lines, env2 = [], dict(env)
                vals = []
                for v in value.elts:
                    c, t = self.expr(v, env)
                    self.need(c, s)
                    vals.append((c, t))
                for tg, (c, t) in zip(target.elts, vals):
                    if not isinstance(tg, ast.Name):
                        self.refuse(s, 'tuple target')
                    nm = self.fresh(tg.id)
                    env2[tg.id] = (nm, t)
                    lines.append(ind + f'let {nm} := {c}')
                return self.with_pre(ind, lines) + cont(env2, ind)
            self.refuse(s, 'assignment target')
        if isinstance(s, ast.If):
            c = self.cond(s.test, env)
            pre = self.with_pre(ind, [])
            then_lines = self.block(s.body, env, ind + '  ', cont)
            else_lines = self.block(s.orelse, env, ind + '  ', cont)
            return pre + [ind + f'if {c} then'] + then_lines + [ind + 'else'] + else_lines
        self.refuse(s, 'statement ' + type(s).__name__)

    def check_ret(self, t, node):
        if self.ret is not None and t != self.ret and not (isinstance(self.ret, tuple) and t == self.ret):
            self.refuse(node, f'returns {t}, expected {self.ret}')

    # -- whole function ----------------------------------------------------------------------
    def translate(self, fnode, leanname, body=None, final=None):
        env = {}
        for p, t in self.params:
            env[p] = (p, t)
            self.counter[p] = 1
        stmts = fnode.body if body is None else body
        lines = self.block(stmts, env, '  ', final)
        ps = []
        if self.abstract_lits:
            pass
        sig_params = ' '.join(f'({p} : {lean_ty(t)})' for p, t in self.params)
        return lines, sig_params


class UnboundUse(Exception):
    pass


def lean_ty(t):
    if isinstance(t, tuple) and t[0] == 'Tuple':
        return '(' + ' × '.join(lean_ty(x) for x in t[1]) + ')'
    return {'Str': 'Py.Str', 'Int': 'Int', 'Rat': 'Rat', 'Bool': 'Bool', 'ListStr': 'List Py.Str',
            'Atom': 'Py.Atom', 'Unit': 'Unit'}[t]


SNAPSHOT = os.path.join(os.path.dirname(os.path.dirname(os.path.abspath(__file__))), 'lean', 'gen_snapshot')


def unit(name, text):
    """a named block of generated text; on refusal the block of the same name is taken from the committed snapshot"""
    return f'-- «unit:{name}»\n{text.rstrip()}\n-- «end:{name}»\n'


def snapshot_unit(fname, name):
    path = os.path.join(SNAPSHOT, fname)
    if not os.path.exists(path):
        return None
    m = re.search(r'-- «unit:' + re.escape(name) + r'»\n(.*?)\n-- «end:' + re.escape(name) + r'»\n', open(path).read(), re.S)
    return m.group(1) if m else None


def refused_unit(fname, name, refused, reason):
    refused.append((name, reason))
    old = snapshot_unit(fname, name)
    if old is None:
        return f'-- «unit:{name}»\n-- REFUSED and no snapshot: {reason}\n-- «end:{name}»\n'
    return unit(name, old)


def emit_func(leanname, sig_params, ret, lines, extra_params='', doc=''):
    head = f'def {leanname} {extra_params}{sig_params} : Except Py.Err {lean_ty(ret)} := do'
    return (f'/-- {doc} -/\n' if doc else '') + head + '\n' + '\n'.join(lines) + '\n'


# ---------------------------------------------------------------------------------------------
# constants
# ---------------------------------------------------------------------------------------------

def self_assign(fnode, attr):
    for n in ast.walk(fnode):
        if isinstance(n, ast.Assign) and len(n.targets) == 1:
            t = n.targets[0]
            if isinstance(t, ast.Attribute) and isinstance(t.value, ast.Name) and t.value.id == 'self' and t.attr == attr:
                return n.value
    raise Refuse(f'self.{attr}', 'assignment not found')


def default_arg(fnode, name):
    args = fnode.args
    pos = args.args
    defaults = args.defaults
    off = len(pos) - len(defaults)
    for i, a in enumerate(pos):
        if a.arg == name and i >= off:
            return ast.literal_eval(defaults[i - off])
    raise Refuse(fnode.name, f'default of {name} not found')


def gen_consts():
    global ATOM_FIELDS
    base = parse_module('pdb2sql_base.py')
    init = find_func(base, 'pdb2sql_base.__init__')
    col = ast.literal_eval(self_assign(init, 'col'))
    delim = ast.literal_eval(self_assign(init, 'delimiter'))
    lim = ast.literal_eval(self_assign(init, 'SQLITE_LIMIT_VARIABLE_NUMBER'))
    mx = ast.literal_eval(self_assign(init, 'max_sql_values'))
    bb = ast.literal_eval(self_assign(init, 'backbone_atoms'))
    if not (isinstance(col, dict) and isinstance(delim, dict)):
        raise Refuse('col/delimiter', 'not dict literals')
    tymap = {'INT': 'Int', 'TEXT': 'Str', 'REAL': 'Rat'}
    ATOM_FIELDS = [(k, tymap[v]) for k, v in col.items()]

    iface = parse_module('interface.py')
    gca = find_func(iface, 'interface.get_contact_atoms')
    gcr = find_func(iface, 'interface.get_contact_residues')
    ss = parse_module('StructureSimilarity.py')
    many = parse_module('many2sql.py')
    sup = parse_module('superpose.py')

    out = ['/- GENERATED by /verif/py/translate.py from /repo/pdb2sql — do not edit. -/',
           'import PdbVerif.Py.Num', '', 'namespace Gen', '']
    out.append('/-- `pdb2sql_base.col`: column name ↦ SQL type, in dictionary order -/')
    out.append('def col : List (String × String) :=\n  [' + ', '.join(f'({lean_string(k)}, {lean_string(v)})' for k, v in col.items()) + ']\n')
    out.append('/-- `pdb2sql_base.delimiter`: field ↦ [start, end) (0-based, end exclusive) -/')
    out.append('def delimiter : List (String × Nat × Nat) :=\n  [' + ', '.join(f'({lean_string(k)}, {v[0]}, {v[1]})' for k, v in delim.items()) + ']\n')
    out.append(f'def SQLITE_LIMIT_VARIABLE_NUMBER : Nat := {lim}')
    out.append(f'def max_sql_values : Nat := {mx}')
    out.append('def backbone_atoms : List String := [' + ', '.join(lean_string(b) for b in bb) + ']\n')

    def rat_def(name, v, doc):
        out.append(f'/-- {doc} -/\ndef {name} : Rat := {lean_rat(v)}')

    rat_def('contact_cutoff_default', default_arg(gca, 'cutoff'), 'interface.get_contact_atoms(cutoff=…)')
    rat_def('contact_residues_cutoff_default', default_arg(gcr, 'cutoff'), 'interface.get_contact_residues(cutoff=…)')
    rat_def('irmsd_fast_cutoff_default', default_arg(find_func(ss, 'StructureSimilarity.compute_irmsd_fast'), 'cutoff'), 'compute_irmsd_fast(cutoff=…)')
    rat_def('irmsd_sql_cutoff_default', default_arg(find_func(ss, 'StructureSimilarity.compute_irmsd_pdb2sql'), 'cutoff'), 'compute_irmsd_pdb2sql(cutoff=…)')
    rat_def('izone_cutoff_default', default_arg(find_func(ss, 'StructureSimilarity.compute_izone'), 'cutoff'), 'compute_izone(cutoff=…)')
    rat_def('fnat_fast_cutoff_default', default_arg(find_func(ss, 'StructureSimilarity.compute_fnat_fast'), 'cutoff'), 'compute_fnat_fast(cutoff=…)')
    rat_def('fnat_sql_cutoff_default', default_arg(find_func(ss, 'StructureSimilarity.compute_fnat_pdb2sql'), 'cutoff'), 'compute_fnat_pdb2sql(cutoff=…)')
    rat_def('residue_pairs_cutoff_default', default_arg(find_func(ss, 'StructureSimilarity.compute_residue_pairs_ref'), 'cutoff'), 'compute_residue_pairs_ref(cutoff=…)')
    rat_def('dockq_d1_default', default_arg(find_func(ss, 'StructureSimilarity.compute_DockQScore'), 'd1'), 'compute_DockQScore(d1=…)')
    rat_def('dockq_d2_default', default_arg(find_func(ss, 'StructureSimilarity.compute_DockQScore'), 'd2'), 'compute_DockQScore(d2=…)')

    # clash cutoff: keyword literal in the get_contact_atoms call of compute_clashes
    cl = find_func(ss, 'StructureSimilarity.compute_clashes')
    clash = None
    clash_kw = {}
    for n in ast.walk(cl):
        if isinstance(n, ast.Call) and isinstance(n.func, ast.Attribute) and n.func.attr == 'get_contact_atoms':
            for kw in n.keywords:
                try:
                    clash_kw[kw.arg] = ast.literal_eval(kw.value)
                except Exception:
                    clash_kw[kw.arg] = None
            clash = clash_kw.get('cutoff')
    if clash is None:
        raise Refuse('compute_clashes', 'cutoff literal not found')
    rat_def('clash_cutoff', clash, 'cutoff passed by compute_clashes')
    out.append(f'def clash_excludeH : Bool := {"true" if clash_kw.get("excludeH") else "false"}')
    out.append(f'def clash_return_pairs : Bool := {"true" if clash_kw.get("return_contact_pairs") else "false"}')

    # options with which the score routines call the contact routines
    def call_kwargs(fn, callee):
        for n in ast.walk(fn):
            if isinstance(n, ast.Call) and isinstance(n.func, ast.Attribute) and n.func.attr == callee:
                d = {}
                for kw in n.keywords:
                    try:
                        d[kw.arg] = ast.literal_eval(kw.value)
                    except Exception:
                        d[kw.arg] = None
                return d
        raise Refuse(fn.name, f'call of {callee} not found')

    def bool_def(name, v, doc):
        out.append(f'/-- {doc} -/\ndef {name} : Bool := {"true" if v else "false"}')

    kz = call_kwargs(find_func(ss, 'StructureSimilarity.compute_izone'), 'get_contact_atoms')
    bool_def('izone_extend_to_residue', kz.get('extend_to_residue', False), 'compute_izone → get_contact_atoms(extend_to_residue=…)')
    bool_def('izone_excludeH', kz.get('excludeH', False), 'compute_izone → get_contact_atoms(excludeH=…)')
    bool_def('izone_only_backbone', kz.get('only_backbone_atoms', False), 'compute_izone → get_contact_atoms(only_backbone_atoms=…)')
    kr = call_kwargs(find_func(ss, 'StructureSimilarity.compute_residue_pairs_ref'), 'get_contact_residues')
    bool_def('fnat_ref_excludeH', kr.get('excludeH', False), 'compute_residue_pairs_ref → get_contact_residues(excludeH=…)')
    bool_def('fnat_ref_only_backbone', kr.get('only_backbone_atoms', False), 'compute_residue_pairs_ref → get_contact_residues(only_backbone_atoms=…)')

    match = default_arg(find_func(many, 'many2sql.get_intersection'), 'match')
    match2 = default_arg(find_func(many, 'many2sql.intersect'), 'match')
    out.append('\n/-- default match keys of many2sql.get_intersection / intersect -/')
    out.append('def match_default : List String := [' + ', '.join(lean_string(m) for m in match) + ']')
    out.append('def match_default_intersect : List String := [' + ', '.join(lean_string(m) for m in match2) + ']')

    # backbone names used by the score routines
    lr = find_func(ss, 'StructureSimilarity.compute_lrmsd_fast')
    nm = default_arg(lr, 'name')
    out.append('def lrmsd_fast_names : List String := [' + ', '.join(lean_string(m) for m in nm) + ']')
    nm2 = default_arg(find_func(ss, 'StructureSimilarity.get_data_zone_backbone'), 'name')
    out.append('def zone_backbone_names : List String := [' + ', '.join(lean_string(m) for m in nm2) + ']')
    spb = None
    for n in ast.walk(find_func(sup, 'superpose')):
        if isinstance(n, ast.Assign) and isinstance(n.targets[0], ast.Name) and n.targets[0].id == 'backbone_atoms':
            spb = ast.literal_eval(n.value)
    if spb is None:
        raise Refuse('superpose', 'backbone_atoms literal not found')
    out.append('def superpose_backbone : List String := [' + ', '.join(lean_string(m) for m in spb) + ']')
    lsq = None
    for n in ast.walk(find_func(ss, 'StructureSimilarity.compute_lrmsd_pdb2sql')):
        if isinstance(n, ast.Assign) and isinstance(n.targets[0], ast.Name) and n.targets[0].id == 'backbone':
            lsq = ast.literal_eval(n.value)
    if lsq is None:
        raise Refuse('compute_lrmsd_pdb2sql', 'backbone literal not found')
    out.append('def lrmsd_sql_backbone : List String := [' + ', '.join(lean_string(m) for m in lsq) + ']')

    # Kabsch / quaternion centring tolerance
    for fn, nm_ in (('get_rotation_matrix_Kabsh', 'kabsch_eps'), ('get_rotation_matrix_quaternion', 'quat_eps')):
        eps = None
        for n in ast.walk(find_func(sup, fn)):
            if isinstance(n, ast.Assign) and isinstance(n.targets[0], ast.Name) and n.targets[0].id == 'eps':
                eps = ast.literal_eval(n.value)
        if eps is None:
            raise Refuse(fn, 'eps literal not found')
        rat_def(nm_, eps, f'centring tolerance in {fn}')

    out.append('\nend Gen')
    return '\n'.join(out) + '\n', {'col': col, 'delimiter': delim}


# ---------------------------------------------------------------------------------------------
# record-loop pattern extraction (blank defaults, prefixes, type dispatch)
# ---------------------------------------------------------------------------------------------

def gen_record_loop():
    core = parse_module('pdb2sqlcore.py')
    fn = find_func(core, 'pdb2sql._create_table')
    where = 'pdb2sql._create_table'
    # the `for line in pdbdata` loop
    loop = None
    for n in fn.body:
        if isinstance(n, ast.For) and isinstance(n.target, ast.Name) and n.target.id == 'line':
            loop = n
    if loop is None:
        raise Refuse(where, 'record loop not found')
    prefixes = {}
    # first If in the loop: startswith('ATOM') / elif startswith('ENDMDL') / else continue
    first_if = next((s for s in loop.body if isinstance(s, ast.If)), None)
    if first_if is None:
        raise Refuse(where, 'record dispatch not found')

    def startswith_arg(test):
        if isinstance(test, ast.Call) and isinstance(test.func, ast.Attribute) and test.func.attr == 'startswith' \
                and isinstance(test.func.value, ast.Name) and test.func.value.id == 'line' \
                and len(test.args) == 1 and isinstance(test.args[0], ast.Constant):
            return test.args[0].value
        raise Refuse(where, 'record dispatch is not line.startswith(<literal>)')
    atom_prefix = startswith_arg(first_if.test)
    # the ATOM branch must be `line = line.split('\n')[0]`
    b = first_if.body
    ok = (len(b) == 1 and isinstance(b[0], ast.Assign) and ast.unparse(b[0].value) == "line.split('\\n')[0]")
    if not ok:
        raise Refuse(where, 'ATOM branch is not `line = line.split("\\n")[0]`')
    if len(first_if.orelse) != 1 or not isinstance(first_if.orelse[0], ast.If):
        raise Refuse(where, 'ENDMDL branch not found')
    second = first_if.orelse[0]
    endmdl_prefix = startswith_arg(second.test)
    sb = [ast.unparse(s) for s in second.body]
    if sb != ['self._nModel += 1', 'continue']:
        raise Refuse(where, 'ENDMDL branch changed: ' + repr(sb))
    if [ast.unparse(s) for s in second.orelse] != ['continue']:
        raise Refuse(where, 'other records are not skipped')

    # inner loop over columns
    inner = None
    for n in loop.body:
        if isinstance(n, ast.For) and ast.unparse(n.iter) == 'self.col.items()':
            inner = n
    if inner is None:
        raise Refuse(where, 'column loop not found')
    src = ast.unparse(inner)
    # slicing expression
    want_slice = 'data = line[self.delimiter[colname][0]:self.delimiter[colname][1]].strip()'
    if want_slice not in src:
        raise Refuse(where, 'field slicing expression changed')
    # blank defaults: `if not data:` block
    blank = {}
    conv = {}
    for n in ast.walk(inner):
        if isinstance(n, ast.If) and ast.unparse(n.test) == 'not data':
            for s in n.body:
                if not (isinstance(s, ast.If) and isinstance(s.test, ast.Compare)
                        and ast.unparse(s.test.left) == 'colname' and isinstance(s.test.ops[0], ast.Eq)
                        and isinstance(s.test.comparators[0], ast.Constant) and len(s.body) == 1
                        and isinstance(s.body[0], ast.Assign) and ast.unparse(s.body[0].targets[0]) == 'data'
                        and not s.orelse):
                    raise Refuse(where, 'blank-field default block changed')
                colname = s.test.comparators[0].value
                v = s.body[0].value
                if isinstance(v, ast.Constant) and isinstance(v.value, (int, float)):
                    blank[colname] = ('num', v.value)
                elif isinstance(v, ast.Call) and ast.unparse(v.args[0]) == 'line' and len(v.args) == 1:
                    blank[colname] = ('call', ast.unparse(v.func).split('.')[-1])
                else:
                    raise Refuse(where, 'blank-field default for ' + colname)
        if isinstance(n, ast.If) and isinstance(n.test, ast.Compare) and ast.unparse(n.test.left) == 'coltype':
            cur = n
            while True:
                ty = cur.test.comparators[0].value
                if len(cur.body) != 1 or not isinstance(cur.body[0], ast.Assign):
                    raise Refuse(where, 'type conversion block changed')
                conv[ty] = ast.unparse(cur.body[0].value)
                if len(cur.orelse) == 1 and isinstance(cur.orelse[0], ast.If) and ast.unparse(cur.orelse[0].test.left) == 'coltype':
                    cur = cur.orelse[0]
                else:
                    if cur.orelse:
                        raise Refuse(where, 'type conversion block has an else')
                    break
    if conv != {'INT': 'int(data)', 'REAL': 'float(data)'}:
        raise Refuse(where, 'type conversion changed: ' + repr(conv))
    # the order: blank default, then conversion, then append
    if src.index('not data') > src.index("coltype == 'INT'"):
        raise Refuse(where, 'defaults applied after conversion')
    # model number appended after the columns
    tail = [ast.unparse(s) for s in loop.body[-2:]]
    if tail != ['at += (self._nModel,)', 'data_atom.append(at)']:
        raise Refuse(where, 'row tail changed: ' + repr(tail))
    # line length normalisation
    if 'line = pdb2sql._format_pdb_linelength(line)' not in [ast.unparse(s) for s in loop.body]:
        raise Refuse(where, 'line length normalisation missing')

    out = ['/-- record dispatch of the parsing loop: prefix of records that produce a row / that end a model -/',
           f'def atom_prefix : Py.Str := {lean_str(atom_prefix)}',
           f'def endmdl_prefix : Py.Str := {lean_str(endmdl_prefix)}',
           '',
           '/-- what the record loop substitutes for a blank field -/',
           'inductive BlankDefault | num (v : Rat) | chainFromSegID | elementFromName',
           '  deriving DecidableEq, Repr', '',
           'def blank_defaults : List (String × BlankDefault) :=']
    items = []
    for k, (kind, v) in blank.items():
        if kind == 'num':
            items.append(f'({lean_string(k)}, BlankDefault.num {lean_rat(v)})')
        elif v == '_get_chainID':
            items.append(f'({lean_string(k)}, BlankDefault.chainFromSegID)')
        elif v == '_get_element':
            items.append(f'({lean_string(k)}, BlankDefault.elementFromName)')
        else:
            raise Refuse(where, 'unknown fallback ' + v)
    out.append('  [' + ', '.join(items) + ']')
    return '\n'.join(out) + '\n'


# ---------------------------------------------------------------------------------------------
# string functions
# ---------------------------------------------------------------------------------------------

def gen_str():
    core = parse_module('pdb2sqlcore.py')
    base = parse_module('pdb2sql_base.py')
    ss = parse_module('StructureSimilarity.py')
    out = ['/- GENERATED by /verif/py/translate.py from /repo/pdb2sql — do not edit. -/',
           'import PdbVerif.Py.Num', 'import PdbVerif.Py.Atom', 'import PdbVerif.Py.List', '', 'namespace Gen', '']
    refused = []

    def do(mod, qual, leanname, params, ret, body_fn=None, known=None, doc='', final=None):
        try:
            fnode = find_func(mod, qual)
            tr = FuncTranslator(qual, params, ret, known_funcs=known or {})
            body = body_fn(fnode) if body_fn else None
            lines, sig = tr.translate(fnode, leanname, body=body, final=final)
            out.append(unit(leanname, emit_func(leanname, sig, ret, lines, doc=doc or f'`{qual}`')))
        except Refuse as r:
            out.append(refused_unit('Str.lean', leanname, refused, str(r)))

    do(core, 'pdb2sql._format_pdb_linelength', '_format_pdb_linelength', [('pdb_line', 'Str')], 'Str')
    do(core, 'pdb2sql._get_chainID', '_get_chainID', [('pdb_line', 'Str')], 'Str')
    do(core, 'pdb2sql._get_element', '_get_element', [('pdb_line', 'Str')], 'Str')
    try:
        out.append(unit('record_loop', gen_record_loop()))
    except Refuse as r:
        out.append(refused_unit('Str.lean', 'record_loop', refused, str(r)))
    do(base, 'pdb2sql_base._format_atomname', '_format_atomname', [('data', 'Atom')], 'Str')
    do(base, 'pdb2sql_base._format_xyz', '_format_xyz', [('i', 'Rat')], 'Str')

    known = {'_format_atomname': ('_format_atomname', ['Atom'], 'Str', True),
             '_format_xyz': ('_format_xyz', ['Rat'], 'Str', True)}

    def data2pdb_body(fnode):
        loop = next((n for n in fnode.body if isinstance(n, ast.For)), None)
        if loop is None or ast.unparse(loop.target) != 'd' or ast.unparse(loop.iter) != 'data':
            raise Refuse('data2pdb', 'loop `for d in data` not found')
        pre = [ast.unparse(s) for s in fnode.body if not isinstance(s, (ast.For, ast.Expr, ast.Return))]
        if pre != ['pdb = []'] or ast.unparse(fnode.body[-1]) != 'return pdb':
            raise Refuse('data2pdb', 'accumulation around the loop changed')
        if ast.unparse(loop.body[-1]) != 'pdb.append(line)':
            raise Refuse('data2pdb', 'loop does not end with pdb.append(line)')
        ret = ast.Return(value=ast.Name(id='line', ctx=ast.Load()))
        ast.copy_location(ret, loop.body[-1]); ast.fix_missing_locations(ret)
        return loop.body[:-1] + [ret]
    do(base, 'pdb2sql_base.data2pdb', 'data2pdb_line', [('d', 'Atom')], 'Str', body_fn=data2pdb_body, known=known,
       doc='body of the loop of `pdb2sql_base.data2pdb`: one row ↦ one PDB line')

    # zone writer: the body of the loop `for res in data_test:` of _write_zone up to the f.write(...) call, whose argument is returned
    def zone_write_body(fnode):
        for loop in ast.walk(fnode):
            if isinstance(loop, ast.For) and isinstance(loop.target, ast.Name) and loop.target.id == 'res':
                body = []
                for st in loop.body:
                    if isinstance(st, ast.Expr) and isinstance(st.value, ast.Call) and isinstance(st.value.func, ast.Attribute) \
                            and st.value.func.attr == 'write' and len(st.value.args) == 1:
                        ret = ast.Return(value=st.value.args[0])
                        ast.copy_location(ret, st); ast.fix_missing_locations(ret)
                        if st is not loop.body[-1]:
                            raise Refuse(fnode.name, 'statements after the write in the zone loop')
                        return body + [ret]
                    body.append(st)
        raise Refuse(fnode.name, 'zone line loop not found')
    do(ss, 'StructureSimilarity._write_zone', 'zone_line_of', [('res', ('Tuple', ['Str', 'Int']))], 'Str',
       body_fn=zone_write_body, doc='body of the loop of `StructureSimilarity._write_zone`: one residue (chain, number) ↦ the line written')
    out.append(unit('zone_line', '/-- the line `_write_zone` writes for the residue `(chain, num)` -/\n'
                                 'def zone_line (chain : Py.Str) (num : Int) : Except Py.Err Py.Str := zone_line_of (chain, num)\n'))

    # zone reader: body of the loop of read_zone up to the dictionary update
    def read_zone_body(fnode):
        loop = next((n for n in fnode.body if isinstance(n, ast.For)), None)
        if loop is None or ast.unparse(loop.target) != 'line':
            raise Refuse('read_zone', 'loop not found')
        body = []
        for s in loop.body:
            if 'resData' in ast.unparse(s):
                break
            body.append(s)
        rest = [ast.unparse(s) for s in loop.body[len(body):]]
        if rest != ['if chainID not in resData.keys():\n    resData[chainID] = []', 'resData[chainID].append(resSeq)']:
            raise Refuse('read_zone', 'dictionary update changed: ' + repr(rest))
        ret = ast.Return(value=ast.Tuple(elts=[ast.Name(id='chainID', ctx=ast.Load()), ast.Name(id='resSeq', ctx=ast.Load())], ctx=ast.Load()))
        ast.copy_location(ret, loop.body[-1]); ast.fix_missing_locations(ret)
        return body + [ret]
    do(ss, 'StructureSimilarity.read_zone', 'read_zone_line', [('line', 'Str')], ('Tuple', ['Str', 'Int']),
       body_fn=read_zone_body, doc='body of the loop of `read_zone`: one line ↦ (chainID, resSeq)')

    out.append('end Gen')
    return '\n'.join(out) + '\n', refused


# ---------------------------------------------------------------------------------------------
# score functions
# ---------------------------------------------------------------------------------------------

def gen_score():
    ss = parse_module('StructureSimilarity.py')
    out = ['/- GENERATED by /verif/py/translate.py from /repo/pdb2sql — do not edit. -/',
           'import PdbVerif.Py.Num', 'import PdbVerif.Py.List', '', 'namespace Gen', '']
    refused = []
    # CAPRI: literals abstracted (generic ordered carrier), plus the literal list
    try:
        mark = len(out)
        fnode = find_func(ss, 'StructureSimilarity.compute_CapriClass')
        tr = FuncTranslator('compute_CapriClass', [('fnat', 'Rat'), ('lrmsd', 'Rat'), ('irmsd', 'Rat'), ('system', 'Str')],
                            'Str', abstract_lits=True)
        lines, _ = tr.translate(fnode, 'compute_CapriClass_gen')
        n = len(tr.lits)
        cs = ' '.join(f'c{i}' for i in range(n))
        text = '\n'.join(lines).replace('Rat', 'α')
        out.append('/-- `compute_CapriClass` with its numeric literals abstracted as parameters `c0 …` (in source order),\n'
                   '    over any carrier with decidable `<`, `≤`. -/')
        out.append('def compute_CapriClass_gen {α : Type} [LT α] [LE α] [DecidableLT α] [DecidableLE α]\n'
                   f'    ({cs} : α) (fnat lrmsd irmsd : α) (system : Py.Str) : Except Py.Err Py.Str := do')
        out.append(text + '\n')
        out.append('/-- the literals of `compute_CapriClass`, in source order (exact values of the doubles) -/')
        out.append('def compute_CapriClass_lits : List Rat := [' + ', '.join(lean_rat(v) for v in tr.lits) + ']\n')
        out.append('/-- `StructureSimilarity.compute_CapriClass` on exact rationals (= doubles) -/')
        out.append('def compute_CapriClass (fnat lrmsd irmsd : Rat) (system : Py.Str) : Except Py.Err Py.Str :=\n'
                   '  compute_CapriClass_gen ' + ' '.join(lean_rat(v) for v in tr.lits) + ' fnat lrmsd irmsd system\n')
        out.append(f'def compute_CapriClass_system_default : Py.Str := {lean_str(default_arg(fnode, "system"))}\n')
        out[mark:] = [unit('compute_CapriClass', '\n'.join(out[mark:]))]
    except Refuse as r:
        out[mark:] = [refused_unit('Score.lean', 'compute_CapriClass', refused, str(r))]
    # DockQ: float operations rounded by an abstract `fl`
    try:
        mark = len(out)
        fnode = find_func(ss, 'StructureSimilarity.compute_DockQScore')
        nested = [n for n in fnode.body if isinstance(n, ast.FunctionDef)]
        if len(nested) != 1 or nested[0].name != 'scale_rms':
            raise Refuse('compute_DockQScore', 'nested helper changed')
        tr1 = FuncTranslator('compute_DockQScore.scale_rms', [('rms', 'Rat'), ('d', 'Rat')], 'Rat', float_mode='fl')
        l1, s1 = tr1.translate(nested[0], 'scale_rms')
        out.append(emit_func('scale_rms', s1, 'Rat', l1, extra_params='(fl : Rat → Rat) ',
                             doc='nested helper of `compute_DockQScore`; every float operation is rounded by `fl`'))
        known = {'scale_rms': ('scale_rms fl', ['Rat', 'Rat'], 'Rat', True)}
        tr2 = FuncTranslator('compute_DockQScore', [('fnat', 'Rat'), ('lrmsd', 'Rat'), ('irmsd', 'Rat'), ('d1', 'Rat'), ('d2', 'Rat')],
                             'Rat', float_mode='fl', known_funcs=known)
        body = [n for n in fnode.body if not isinstance(n, ast.FunctionDef)]
        l2, s2 = tr2.translate(fnode, 'compute_DockQScore', body=body)
        out.append(emit_func('compute_DockQScore', s2, 'Rat', l2, extra_params='(fl : Rat → Rat) ',
                             doc='`StructureSimilarity.compute_DockQScore`; `fl` = rounding of each float operation (`id` = real arithmetic)'))
        out[mark:] = [unit('compute_DockQScore', '\n'.join(out[mark:]))]
    except Refuse as r:
        out[mark:] = [refused_unit('Score.lean', 'compute_DockQScore', refused, str(r))]
    out.append('end Gen')
    return '\n'.join(out) + '\n', refused


# ---------------------------------------------------------------------------------------------
# matrix entries
# ---------------------------------------------------------------------------------------------

class EntryTranslator:
    """scalar entry expressions over a generic carrier α (only + - * unary-, **2, small integer literals)"""

    def __init__(self, where, scalars, mats):
        self.where, self.scalars, self.mats = where, scalars, mats
        self.nums = set()

    def ex(self, n):
        if isinstance(n, ast.Constant) and isinstance(n.value, int) and not isinstance(n.value, bool) and 0 <= n.value <= 9:
            self.nums.add(n.value)
            return f'({n.value} : α)'
        if isinstance(n, ast.Name) and n.id in self.scalars:
            return n.id
        if isinstance(n, ast.UnaryOp) and isinstance(n.op, ast.USub):
            return f'(-{self.ex(n.operand)})'
        if isinstance(n, ast.BinOp):
            if isinstance(n.op, ast.Pow):
                if not (isinstance(n.right, ast.Constant) and n.right.value == 2):
                    raise Refuse(self.where, 'power other than 2')
                a = self.ex(n.left)
                return f'({a} * {a})'
            sym = {ast.Add: '+', ast.Sub: '-', ast.Mult: '*'}.get(type(n.op))
            if sym is None:
                raise Refuse(self.where, 'operator in matrix entry')
            return f'({self.ex(n.left)} {sym} {self.ex(n.right)})'
        if isinstance(n, ast.Subscript) and isinstance(n.value, ast.Name) and n.value.id in self.mats \
                and isinstance(n.slice, ast.Tuple) and len(n.slice.elts) == 2:
            i, j = (e.value for e in n.slice.elts)
            return f'{n.value.id}.' + 'abcdefghi'[3 * i + j]
        if isinstance(n, ast.Call) and ast.unparse(n.func) == 'np.trace' and len(n.args) == 1 \
                and isinstance(n.args[0], ast.Name) and n.args[0].id in self.mats:
            return f'(Py.Mat3.tr {n.args[0].id})'
        raise Refuse(self.where, 'matrix entry ' + ast.unparse(n)[:60])


def np_array_literal(node, where, rows, cols):
    if not (isinstance(node, ast.Call) and ast.unparse(node.func) == 'np.array' and len(node.args) == 1
            and isinstance(node.args[0], ast.List) and len(node.args[0].elts) == rows):
        raise Refuse(where, 'not an np.array literal')
    out = []
    for r in node.args[0].elts:
        if not (isinstance(r, ast.List) and len(r.elts) == cols):
            raise Refuse(where, 'matrix literal shape')
        out.append(r.elts)
    return out


def assigned(fnode, name):
    for n in ast.walk(fnode):
        if isinstance(n, ast.Assign) and len(n.targets) == 1 and isinstance(n.targets[0], ast.Name) and n.targets[0].id == name:
            return n.value
    raise Refuse(fnode.name, f'assignment to {name} not found')


def element_assignments(fnode, name, rows, cols, after_line=0):
    got = {}
    for n in ast.walk(fnode):
        if isinstance(n, ast.Assign) and len(n.targets) == 1 and isinstance(n.targets[0], ast.Subscript):
            t = n.targets[0]
            if isinstance(t.value, ast.Name) and t.value.id == name and isinstance(t.slice, ast.Tuple) \
                    and n.lineno > after_line:
                i, j = (e.value for e in t.slice.elts)
                if (i, j) in got:
                    raise Refuse(fnode.name, f'{name}[{i},{j}] assigned twice')
                got[(i, j)] = n.value
    if set(got) != {(i, j) for i in range(rows) for j in range(cols)}:
        raise Refuse(fnode.name, f'not all entries of {name} are assigned')
    return [[got[(i, j)] for j in range(cols)] for i in range(rows)]


CLS = '[Add α] [Sub α] [Mul α] [Neg α] [OfNat α 0] [OfNat α 1] [OfNat α 2]'


def gen_mat():
    tf = parse_module('transform.py')
    sup = parse_module('superpose.py')
    al = parse_module('align.py')
    out = ['/- GENERATED by /verif/py/translate.py from /repo/pdb2sql — do not edit. -/',
           'import PdbVerif.Py.Mat', '', 'namespace Gen', 'open Py', '',
           'section', f'variable {{α : Type}} {CLS}', '']
    refused = []

    def mat3(name, rows, params, doc):
        ents = ', '.join(e for r in rows for e in r)
        out.append(f'/-- {doc} -/\ndef {name} {params} : Mat3 α :=\n  ⟨{ents}⟩\n')

    # Rodrigues
    try:
        mark = len(out)
        fn = find_func(tf, 'rot_xyz_around_axis')
        pre = [ast.unparse(s) for s in fn.body[1:3]]
        if pre != ['ct, st = (np.cos(angle), np.sin(angle))', 'ux, uy, uz = axis']:
            raise Refuse('rot_xyz_around_axis', 'preamble changed: ' + repr(pre))
        if ast.unparse(fn.body[-1]) != 'return rotate(xyz, rot_mat, center)':
            raise Refuse('rot_xyz_around_axis', 'application changed')
        et = EntryTranslator('rot_xyz_around_axis', {'ct', 'st', 'ux', 'uy', 'uz'}, set())
        rows = [[et.ex(e) for e in r] for r in np_array_literal(assigned(fn, 'rot_mat'), 'rot_xyz_around_axis', 3, 3)]
        mat3('rodrigues', rows, '(ct st ux uy uz : α)',
             '`rot_mat` of `transform.rot_xyz_around_axis` with `ct, st = cos(angle), sin(angle)`, `ux, uy, uz = axis`')
        out[mark:] = [unit('rodrigues', '\n'.join(out[mark:]))]
    except Refuse as r:
        out[mark:] = [refused_unit('Mat.lean', 'rodrigues', refused, str(r))]
    # Euler
    try:
        mark = len(out)
        fn = find_func(tf, 'rotation_euler')
        trig = [ast.unparse(s) for s in fn.body[1:4]]
        if trig != ['ca, sa = (np.cos(alpha), np.sin(alpha))', 'cb, sb = (np.cos(beta), np.sin(beta))',
                    'cg, sg = (np.cos(gamma), np.sin(gamma))']:
            raise Refuse('rotation_euler', 'preamble changed')
        for nm, sc in (('rx', {'ca', 'sa'}), ('ry', {'cb', 'sb'}), ('rz', {'cg', 'sg'})):
            et = EntryTranslator('rotation_euler', sc, set())
            rows = [[et.ex(e) for e in r] for r in np_array_literal(assigned(fn, nm), 'rotation_euler', 3, 3)]
            ps = ' '.join(sorted(sc))
            mat3('euler_' + nm, rows, f'({ps} : α)', f'`{nm}` of `transform.rotation_euler`')
        prod = ast.unparse(assigned(fn, 'rot_mat'))
        if prod != 'np.dot(rz, np.dot(ry, rx))':
            # any other product of the three is translated too, as long as it is a product of np.dot's
            def p(n):
                if isinstance(n, ast.Name) and n.id in ('rx', 'ry', 'rz'):
                    return {'rx': 'euler_rx ca sa', 'ry': 'euler_ry cb sb', 'rz': 'euler_rz cg sg'}[n.id]
                if isinstance(n, ast.Call) and ast.unparse(n.func) == 'np.dot' and len(n.args) == 2:
                    return f'Mat3.mul ({p(n.args[0])}) ({p(n.args[1])})'
                raise Refuse('rotation_euler', 'product expression ' + prod)
            body = p(assigned(fn, 'rot_mat'))
        else:
            body = 'Mat3.mul (euler_rz cg sg) (Mat3.mul (euler_ry cb sb) (euler_rx ca sa))'
        if ast.unparse(fn.body[-1]) != 'return rotate(xyz, rot_mat, center)':
            raise Refuse('rotation_euler', 'application changed')
        out.append('/-- `rot_mat` of `transform.rotation_euler` -/\n'
                   f'def euler_mat (ca sa cb sb cg sg : α) : Mat3 α :=\n  {body}\n')
        out[mark:] = [unit('euler', '\n'.join(out[mark:]))]
    except Refuse as r:
        out[mark:] = [refused_unit('Mat.lean', 'euler', refused, str(r))]
    # quaternion F and U
    try:
        mark = len(out)
        fn = find_func(sup, 'get_rotation_matrix_quaternion')
        if ast.unparse(assigned(fn, 'R')) != 'np.dot(P.T, Q)':
            raise Refuse('quaternion', 'correlation matrix changed')
        et = EntryTranslator('quaternion F', set(), {'R'})
        F = element_assignments(fn, 'F', 4, 4)
        ents = ', '.join(et.ex(e) for r in F for e in r)
        out.append('/-- key matrix `F` of `get_rotation_matrix_quaternion` from the correlation matrix `R = PᵀQ` -/\n'
                   f'def quat_F (R : Mat3 α) : Mat4 α :=\n  ⟨{ents}⟩\n')
        # U entries are assigned after `U = np.zeros((3, 3))`
        zline = None
        for n in ast.walk(fn):
            if isinstance(n, ast.Assign) and ast.unparse(n) == 'U = np.zeros((3, 3))':
                zline = n.lineno
        if zline is None:
            raise Refuse('quaternion', 'U = np.zeros((3,3)) not found')
        unpack = [ast.unparse(n) for n in ast.walk(fn) if isinstance(n, ast.Assign) and 'indmax' in ast.unparse(n)]
        if sorted(unpack) != sorted(['indmax = np.argmax(l)', 'q0, q1, q2, q3 = U[:, indmax]']):
            raise Refuse('quaternion', 'eigenvector selection changed: ' + repr(unpack))
        if ast.unparse(assigned(fn, 'l') if False else [n for n in ast.walk(fn) if isinstance(n, ast.Assign) and 'linalg' in ast.unparse(n)][0]) != 'l, U = np.linalg.eigh(F)':
            raise Refuse('quaternion', 'diagonalisation call changed')
        et = EntryTranslator('quaternion U', {'q0', 'q1', 'q2', 'q3'}, set())
        U = element_assignments(fn, 'U', 3, 3, after_line=zline)
        rows = [[et.ex(e) for e in r] for r in U]
        mat3('quat_rot', rows, '(q0 q1 q2 q3 : α)', 'rotation matrix `U` of `get_rotation_matrix_quaternion` from the unit quaternion')
        out[mark:] = [unit('quaternion', '\n'.join(out[mark:]))]
    except (Refuse, IndexError) as r:
        out[mark:] = [refused_unit('Mat.lean', 'quaternion', refused, str(r))]
    out.append('end\n')

    # Kabsch: the sequence of operations, checked structurally (the glue is a hand model that follows this list)
    try:
        mark = len(out)
        fn = find_func(sup, 'get_rotation_matrix_Kabsh')
        want = ['A = np.dot(P.T, Q) / npts', 'V, _, W = np.linalg.svd(A)', 'W = W.T', 'd = np.linalg.det(np.dot(W, V.T))',
                'Id = np.eye(3)', 'if d < 0:\n    Id[2, 2] = -1', 'U = np.dot(W, np.dot(Id, V.T))', 'return U']
        got = [ast.unparse(s) for s in fn.body if not isinstance(s, ast.Expr)]
        tail = got[-len(want):]
        out.append('/-- the statements of `get_rotation_matrix_Kabsh` after the guards, as text: the hand model\n'
                   '    `Model.kabsch` follows exactly this list, and `kabsch_steps_ok` pins it. -/')
        out.append('def kabsch_steps : List String :=\n  [' + ',\n   '.join(lean_string(t) for t in tail) + ']\n')
        out[mark:] = [unit('kabsch', '\n'.join(out[mark:]))]
    except Refuse as r:
        out[mark:] = [refused_unit('Mat.lean', 'kabsch', refused, str(r))]

    # align: the (axis vector, angle expression) pairs of _align_along_axis
    try:
        mark = len(out)
        fn = find_func(al, '_align_along_axis')
        top = next(s for s in fn.body if isinstance(s, ast.If))
        branches = {}
        cur = top
        while True:
            axis = cur.test.comparators[0].value
            steps = []
            for s in cur.body:
                v = s.value
                if not (isinstance(s, ast.Assign) and isinstance(v, ast.Call) and ast.unparse(v.func) == 'rot_xyz_around_axis'
                        and ast.unparse(v.args[0]) == 'xyz' and len(v.args) == 3):
                    raise Refuse('_align_along_axis', 'step form')
                vec = ast.literal_eval(v.args[1].args[0])
                steps.append((vec, ast.unparse(v.args[2])))
            branches[axis] = steps
            if len(cur.orelse) == 1 and isinstance(cur.orelse[0], ast.If):
                cur = cur.orelse[0]
            else:
                break
        out.append('/-- `_align_along_axis`: for each target axis, the successive rotations (axis vector, angle expression) -/')
        items = []
        for ax, steps in branches.items():
            st = ', '.join(f'(({v[0]}, {v[1]}, {v[2]}), {lean_string(e)})' for v, e in steps)
            items.append(f'({lean_string(ax)}, [{st}])')
        out.append('def align_steps : List (String × List ((Int × Int × Int) × String)) :=\n  [' + ',\n   '.join(items) + ']\n')
        fn2 = find_func(al, 'get_rotation_angle')
        ang = [ast.unparse(s) for s in fn2.body if isinstance(s, (ast.Assign, ast.Return))]
        out.append('def rotation_angle_steps : List String :=\n  [' + ', '.join(lean_string(t) for t in ang) + ']\n')
        pca = [ast.unparse(s) for s in find_func(al, 'pca').body if isinstance(s, (ast.Assign, ast.Return))]
        out.append('def pca_steps : List String :=\n  [' + ', '.join(lean_string(t) for t in pca) + ']\n')
        mx = ast.unparse(find_func(al, 'get_max_pca_vect').body[-1])
        mn = ast.unparse(find_func(al, 'get_min_pca_vect').body[-1])
        out.append(f'def max_pca_return : String := {lean_string(mx)}')
        out.append(f'def min_pca_return : String := {lean_string(mn)}\n')
        out[mark:] = [unit('align', '\n'.join(out[mark:]))]
    except (Refuse, StopIteration, ValueError) as r:
        out[mark:] = [refused_unit('Mat.lean', 'align', refused, str(r))]

    # rotate(): the expression applied
    try:
        mark = len(out)
        fn = find_func(tf, 'rotate')
        ret = ast.unparse(fn.body[-1])
        dflt = [ast.unparse(s) for s in fn.body if isinstance(s, ast.If)][0]
        out.append(f'def rotate_return : String := {lean_string(ret)}')
        out.append(f'def rotate_default_center : String := {lean_string(dflt)}\n')
        sel = find_func(sup, 'superpose_selection')
        steps = [ast.unparse(s) for s in sel.body if isinstance(s, (ast.Assign, ast.AugAssign, ast.Return))]
        out.append('def superpose_selection_steps : List String :=\n  [' + ',\n   '.join(lean_string(t) for t in steps) + ']\n')
        tv = ast.unparse(find_func(sup, 'get_trans_vect').body[-1])
        out.append(f'def trans_vect_return : String := {lean_string(tv)}\n')
        ss = parse_module('StructureSimilarity.py')
        rm = [ast.unparse(s) for s in find_func(ss, 'StructureSimilarity.get_rmsd').body if isinstance(s, (ast.Assign, ast.Return))]
        out.append('def get_rmsd_steps : List String :=\n  [' + ', '.join(lean_string(t) for t in rm) + ']\n')
        out[mark:] = [unit('rotate', '\n'.join(out[mark:]))]
    except (Refuse, IndexError) as r:
        out[mark:] = [refused_unit('Mat.lean', 'rotate', refused, str(r))]

    out.append('end Gen')
    return '\n'.join(out) + '\n', refused


# ---------------------------------------------------------------------------------------------
# effects
# ---------------------------------------------------------------------------------------------

EFFECT_CALLEES = {'open', 'os.remove', 'os.unlink', 'os.system', 'os.replace', 'os.rename', 'sp.call', 'sp.run',
                  'sp.Popen', 'subprocess.call', 'subprocess.run', 'subprocess.Popen', 'os.popen', 'sqlite3.connect',
                  'os.fdopen', 'tempfile.mkstemp', 'pickle.dump', 'shutil.rmtree', 'shutil.copy', 'os.mkdir',
                  'os.makedirs', 'os.rmdir', 'shutil.move', 'os.path.isfile', 'os.path.exists', 'eval', 'exec'}


def arg_shape(n):
    if isinstance(n, ast.Constant):
        return 'literal', repr(n.value)
    if isinstance(n, ast.Name):
        return 'name', n.id
    if isinstance(n, ast.Attribute):
        return 'name', ast.unparse(n)
    if isinstance(n, ast.BinOp) and isinstance(n.op, ast.Mod):
        return 'interpolated', ast.unparse(n)
    if isinstance(n, ast.JoinedStr):
        return 'interpolated', ast.unparse(n)
    if isinstance(n, ast.BinOp) and isinstance(n.op, ast.Add):
        return 'concat', ast.unparse(n)
    if isinstance(n, ast.Call) and isinstance(n.func, ast.Attribute) and n.func.attr == 'format':
        return 'interpolated', ast.unparse(n)
    return 'other', ast.unparse(n)[:60]


def gen_effects():
    out = ['/- GENERATED by /verif/py/translate.py from /repo/pdb2sql — do not edit. -/', '', 'namespace Gen', '',
           '/-- one effectful call in the library source: where, what is called, the shape of its first argument,\n'
           '    whether a shell is involved (`os.system`, `os.popen`, `shell=True`), and the file mode for `open`. -/',
           'structure Effect where',
           '  func : String', '  callee : String', '  shape : String', '  arg : String', '  shell : Bool', '  mode : String',
           '  deriving DecidableEq, Repr', '',
           'def effects : List Effect := [']
    items = []
    for fname in sorted(os.listdir(SRC)):
        if not fname.endswith('.py') or fname in ('utils.py', '__init__.py', '__version__.py'):
            continue
        mod = parse_module(fname)

        def visit(node, qual):
            for ch in ast.iter_child_nodes(node):
                if isinstance(ch, (ast.FunctionDef, ast.ClassDef)):
                    visit(ch, (qual + '.' if qual else '') + ch.name)
                else:
                    for n in ast.walk(ch) if not isinstance(ch, (ast.FunctionDef, ast.ClassDef)) else []:
                        if isinstance(n, ast.Call):
                            callee = ast.unparse(n.func)
                            meth = n.func.attr if isinstance(n.func, ast.Attribute) else None
                            is_open_method = meth == 'open' and callee not in EFFECT_CALLEES
                            if callee in EFFECT_CALLEES or is_open_method:
                                shape, arg = arg_shape(n.args[0]) if n.args else ('none', '')
                                shell = callee in ('os.system', 'os.popen') or any(
                                    kw.arg == 'shell' and not (isinstance(kw.value, ast.Constant) and kw.value.value is False)
                                    for kw in n.keywords)
                                mode = ''
                                if callee == 'open' or is_open_method:
                                    if len(n.args) > 1 and isinstance(n.args[1], ast.Constant):
                                        mode = n.args[1].value
                                    elif is_open_method and n.args and isinstance(n.args[0], ast.Constant):
                                        mode = n.args[0].value
                                    else:
                                        mode = 'r'
                                items.append((fname[:-3] + ':' + qual, callee, shape, arg, shell, mode))
        visit(mod, '')
    rows = [f'  ⟨{lean_string(a)}, {lean_string(b)}, {lean_string(c)}, {lean_string(d)}, {"true" if e else "false"}, {lean_string(m)}⟩'
            for a, b, c, d, e, m in items]
    out.append(',\n'.join(rows))
    out.append(']\n')
    out.append('end Gen')
    return '\n'.join(out) + '\n'


# ---------------------------------------------------------------------------------------------

def main():
    outdir = sys.argv[1] if len(sys.argv) > 1 else '/verif/lean/PdbVerif/Gen'
    os.makedirs(outdir, exist_ok=True)
    report = {'refused': [], 'written': [], 'changed': []}
    files = {}
    try:
        consts, _ = gen_consts()
        files['Consts.lean'] = consts
    except Refuse as r:
        report['refused'].append(['Consts', str(r)])
        # without the column table the Atom field order is unknown; use the committed order
        global ATOM_FIELDS
        ATOM_FIELDS = [('serial', 'Int'), ('name', 'Str'), ('altLoc', 'Str'), ('resName', 'Str'), ('chainID', 'Str'),
                       ('resSeq', 'Int'), ('iCode', 'Str'), ('x', 'Rat'), ('y', 'Rat'), ('z', 'Rat'), ('occ', 'Rat'),
                       ('temp', 'Rat'), ('element', 'Str'), ('model', 'Int')]
    for name, fn in (('Str.lean', gen_str), ('Score.lean', gen_score), ('Mat.lean', gen_mat)):
        try:
            text, refused = fn()
            files[name] = text
            report['refused'] += [[a, b] for a, b in refused]
        except (Refuse, SyntaxError) as r:
            report['refused'].append([name, str(r)])
    try:
        files['Effects.lean'] = gen_effects()
    except (Refuse, SyntaxError) as r:
        report['refused'].append(['Effects', str(r)])
    # plug-ins: /verif/py/translate_ext_*.py, each with generate() -> ({filename: text}, [(unit, reason), ...])
    import glob, importlib.util
    for ext in sorted(glob.glob(os.path.join(os.path.dirname(os.path.abspath(__file__)), 'translate_ext_*.py'))):
        try:
            spec = importlib.util.spec_from_file_location(os.path.basename(ext)[:-3], ext)
            mod = importlib.util.module_from_spec(spec)
            spec.loader.exec_module(mod)
            extra, refused = mod.generate()
            files.update(extra)
            report['refused'] += [[a, b] for a, b in refused]
        except (Refuse, SyntaxError) as r:
            report['refused'].append([os.path.basename(ext), str(r)])
    for name, text in files.items():
        path = os.path.join(outdir, name)
        old = open(path).read() if os.path.exists(path) else None
        if old != text:
            with open(path, 'w') as f:
                f.write(text)
            report['changed'].append(name)
        report['written'].append(name)
    print(json.dumps(report))
    return 0


if __name__ == '__main__':
    sys.exit(main())
