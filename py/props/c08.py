"""C08 -- Fnat and clash count equal their definitions; Fnat is a fraction in [0,1]."""
import os, math, json, itertools
from fractions import Fraction
import numpy as np
import vlib
from vlib import rat, unrat, exc_tag
import complexgen as cg
from pdb2sql import StructureSimilarity, pdb2sql

ID = 'C08'
LEVEL = 'proof'
CLUSTER = 'G'
GEN_UNITS = ['Consts', 'record_loop', '_format_pdb_linelength', '_get_chainID', '_get_element',
             'rmsd_runtime', 'rmsd_compute_residue_pairs_ref', 'rmsd_compute_fnat_fast',
             'sim_runtime', 'sim_compute_fnat_pdb2sql', 'sim_compute_clashes']
MODELS = ['Model.Fnat.fnatFast', 'Model.Fnat.fnatSql', 'Model.Fnat.clashes', 'Model.Fnat.fixChainID']
RULE = ('reference = synthetic two-chain complex from complexgen (3-12 residues per chain, backbone + 0-4 side-chain atoms, optional hydrogens '
        'named H/HA/1HB/HD21, plain/negative/gappy/offset numbering, inter-strand gap 3.5-11 A, chain identifiers A/B, X/Y, B/A, L/H, 1/2, a/A); '
        'decoy = the reference itself / jittered / one chain moved rigidly (contacts lost) / interface residues deleted on the first or the second '
        'side / atoms deleted / an interface residue reduced to its hydrogens / atoms with blank names / records permuted; cutoffs 3, 3.5, 4, 5 '
        '(also by default argument), 6, 8; every case is run through BOTH Fnat routes; files on disk or lists of lines. Random families keep every '
        'inter-chain heavy-atom distance at least 1e-6 away from the cutoff (regenerated otherwise, counted); the lattice families place atoms on a '
        'half-Angstrom lattice with partner atoms at offsets of EXACTLY the cutoff (integer solutions of a^2+b^2+c^2=(2c)^2), one step inside and '
        'one step outside, for the cutoffs 3, 5 and 4.5. compute_clashes: the same structures (chains moved towards each other) with chain1/chain2 = '
        'the two chains in both orders and by default, lattice structures one step inside/outside 3 A; pairs at exactly 3 A only in the dedicated '
        'probe (known finding C08-F2). Out-of-domain stream (implementation vs Model only): three chains, one chain, no contact, different chain '
        'identifiers in the two files, renamed decoy residue, chain given by segID. NON-CONTIGUOUS files: decoys (30% also references) whose '
        'residues are split over the file -- backbone of the whole chain first and side chains afterwards, heavy atoms first and hydrogens '
        'appended, a few atoms appended at the end of the chain, atoms of a chain in random order -- for Fnat (both routes) and the clash count. '
        'LARGE structures (extra checks; too big for exact rationals): one chain of 2^k + 1..700 ATOM records, 2^k = 256..4096 (quick: one of '
        '2048/4096 and one of 256/512/1024), with hydrogens, line or serpentine layout, first or second in the file, a partner of 12-36 residues '
        'facing the last residues / the window around position 2^k / a random window; decoys = the reference, and the partner moved 0.7-2.3 A with '
        'interface residues deleted on both sides; get_contact_atoms (sets, pair map, both chain orders, filter combinations, allchains), '
        'compute_clashes (both orders) and both Fnat routes (two cutoffs) against a brute-force NumPy evaluation of the definitions on the record '
        'text, every inter-chain distance at least 1e-6 from every cutoff used. A case is non-trivial when distinct by (family, number of '
        'reference contacts, value, cutoff).')
ASSUMPTIONS = ['single-model files (no ENDMDL)',
               'floating-point distance decision equals the exact one: generated distances are exactly on the cutoff with dyadic coordinates '
               '(exact in binary64) or at least 1e-6 away from it',
               'round(nCommon / nTotal, 6) on the double quotient equals half-even rounding of the exact quotient (no tie is reachable for '
               'nTotal < 128; a one-unit difference in the sixth decimal would be counted as a rounding-boundary discard)',
               'a hydrogen is an atom whose name starts with H (library convention, shared with C05): 1HB-style names count as heavy atoms in '
               'the Spec as in both routes',
               'the Spec is evaluated on the table as the library parsed it (C01); the Model parses the text itself']
TRUSTED = ['the C08 theorems import cluster C\'s proved closed forms of Model.contactPairs / Model.contactResiduePairs (Proofs/Contacts*.lean, re-checked in the same build; nothing assumed)',
           'RawAgrees (the raw-column reader of the fast route sees the rows of the parsed decoy table) is a hypothesis of fnat_fast_eq_def, evaluated by the Model driver on every case; it is not derived from the parser model']

CUTOFFS = [3.0, 3.5, 4.0, 5.0, 5.0, 6.0, 8.0]
CHAIN_PAIRS = [('A', 'B'), ('A', 'B'), ('A', 'B'), ('X', 'Y'), ('B', 'A'), ('L', 'H'), ('1', '2'), ('a', 'A')]
_STATS = {'regenerated_near_cutoff': 0}


# ----------------------------------------------------------------------------------------------------------------
# geometry helpers (generator side only: they decide what is generated, never what is expected)
# ----------------------------------------------------------------------------------------------------------------

def heavy(name):
    return not name.startswith('H')


def millis(lines):
    """(chain, resSeq, name, (x,y,z) in integer thousandths) per ATOM line"""
    out = []
    for l in lines:
        if l.startswith('ATOM'):
            out.append((l[21], int(l[22:26]), l[12:16].strip(),
                        tuple(int(round(float(l[a:b]) * 1000)) for a, b in ((30, 38), (38, 46), (46, 54)))))
    return out


def near_cutoff(lines, cutoff):
    """True when some inter-chain heavy-atom pair is closer than 1e-6 to the cutoff (exactly on it included)"""
    at = [a for a in millis(lines) if heavy(a[2])]
    c = cutoff * 1000.0
    xs = np.array([a[3] for a in at], dtype=float)
    ch = np.array([a[0] for a in at])
    if len(xs) == 0:
        return False
    d = np.sqrt(((xs[:, None, :] - xs[None, :, :]) ** 2).sum(-1))
    mask = ch[:, None] != ch[None, :]
    return bool((np.abs(d - c)[mask] < 1e-3).any())


def interface_residues(cx, cutoff):
    """indices of residues having a heavy atom within the cutoff of a heavy atom of the other chain"""
    res = cx.residues
    idx = set()
    for i, r in enumerate(res):
        for j, s in enumerate(res):
            if r['chain'] < s['chain']:
                close = any(heavy(a[0]) and heavy(b[0]) and math.dist(a[2], b[2]) <= cutoff for a in r['atoms'] for b in s['atoms'])
                if close:
                    idx.add(i); idx.add(j)
    return sorted(idx)


# ----------------------------------------------------------------------------------------------------------------
# reference / decoy pairs
# ----------------------------------------------------------------------------------------------------------------

FAMILIES = ['self', 'jitter', 'jitter', 'rigid_chain', 'del_iface_first', 'del_iface_second', 'del_res', 'del_atoms', 'h_only',
            'blank_name', 'permute', 'mix']


def make_decoy(rng, ref, family, cutoff):
    chains = ref.chains()
    if family == 'self':
        return ref.copy()
    if family == 'jitter':
        return cg.jitter(rng, ref, rng.choice([0.1, 0.3, 0.8]))
    if family == 'rigid_chain':
        return cg.rigid_move(rng, ref, which=rng.choice(chains), angle_scale=1.0, shift=rng.choice([1.5, 4.0, 25.0]))
    if family in ('del_iface_first', 'del_iface_second'):
        dec = cg.jitter(rng, ref, rng.choice([0.0, 0.2]))
        side = chains[0] if family == 'del_iface_first' else chains[1]
        cand = [i for i in interface_residues(ref, cutoff) if ref.residues[i]['chain'] == side]
        if not cand:
            cand = [i for i, r in enumerate(ref.residues) if r['chain'] == side]
        nside = sum(1 for r in ref.residues if r['chain'] == side)
        k = min(rng.randint(1, 2), len(cand), nside - 1)
        for i in sorted(rng.sample(cand, k), reverse=True):
            del dec.residues[i]
        return dec
    if family == 'del_res':
        return cg.delete_some(rng, cg.jitter(rng, ref, 0.2), n_res=rng.randint(1, 3))
    if family == 'del_atoms':
        return cg.delete_some(rng, cg.jitter(rng, ref, 0.2), n_res=0, n_atoms=rng.randint(1, 6))
    if family == 'h_only':
        dec = ref.copy()
        cand = [i for i in interface_residues(ref, cutoff) if any(not heavy(a[0]) for a in ref.residues[i]['atoms'])]
        if not cand:        # give an interface residue a hydrogen first
            cand = interface_residues(ref, cutoff)[:1] or [0]
            r = dec.residues[cand[0]]
            x, y, z = r['atoms'][0][2]
            r['atoms'].append(('H', 'H', (round(x + 0.5, 3), round(y + 0.3, 3), round(z - 0.9, 3))))
        i = rng.choice(cand)
        dec.residues[i]['atoms'] = [a for a in dec.residues[i]['atoms'] if not heavy(a[0])]
        return dec
    if family == 'blank_name':
        return cg.jitter(rng, ref, 0.1)        # names are blanked on the rendered lines (random_pair)
    if family == 'permute':
        return cg.permute(rng, cg.jitter(rng, ref, 0.2), rng.choice(['atoms', 'residues', 'chains']))
    # mix
    dec = cg.jitter(rng, ref, 0.3)
    if rng.random() < 0.5:
        dec = cg.rigid_move(rng, dec, which=rng.choice(['all'] + chains))
    return cg.delete_some(rng, dec, n_res=rng.randint(0, 2), n_atoms=rng.randint(0, 3))


def add_conformers(rng, lines):
    """mark 1-3 heavy side-chain atoms as altLoc A and insert a B conformer right after each, displaced by 0.6-2.5 A towards +-y"""
    out = []
    cand = [i for i, l in enumerate(lines) if l[12:16].strip() not in ('N', 'CA', 'C', 'O') and not l[12:16].strip().startswith('H') and l[12:16].strip()]
    pick = set(rng.sample(cand, min(len(cand), rng.randint(2, 5)))) if cand else set()
    first = lines[0][21] if lines else ''
    for i, l in enumerate(lines):
        if i in pick:
            # the generated chains face each other along y (first chain below): the B conformer mostly reaches TOWARDS the partner,
            # so that some residue pair is in contact through the second record only
            toward = 1 if l[21] == first else -1
            y = float(l[38:46]) + (toward if rng.random() < 0.8 else -toward) * rng.choice([1.1, 1.9, 2.7, 3.6])
            out.append(l[:16] + 'A' + l[17:])
            out.append(l[:16] + 'B' + l[17:38] + '%8.3f' % y + l[46:])
        else:
            out.append(l)
    return out


def random_pair(rng, family, long_residues=False):
    for attempt in range(30):
        cutoff = rng.choice(CUTOFFS)
        chains = rng.choice(CHAIN_PAIRS)
        ref = cg.make_complex(rng, chains=chains) if not long_residues else cg.make_long_complex(rng, chains=chains)
        dec = make_decoy(rng, ref, family, cutoff)
        rl, dl = ref.lines(), dec.lines()
        if family == 'blank_name':
            for k in rng.sample(range(len(dl)), min(len(dl), rng.randint(1, 3))):
                dl[k] = dl[k][:12] + '    ' + dl[k][16:]
            if rng.random() < 0.5:
                k = rng.randrange(len(rl))
                rl[k] = rl[k][:12] + '    ' + rl[k][16:]
        if len({l[21] for l in dl}) < 2 or len(dl) < 4:
            continue
        if near_cutoff(rl, cutoff) or near_cutoff(dl, cutoff):
            _STATS['regenerated_near_cutoff'] += 1
            continue
        return rl, dl, cutoff
    raise RuntimeError('generator could not place a pair away from the cutoff')


# ---- records of one residue NOT contiguous in the file -------------------------------------------------------------

NONCONTIGUOUS_BASE = ['self', 'self', 'jitter', 'jitter', 'rigid_chain', 'del_iface_first', 'del_iface_second', 'del_atoms']


def noncontiguous_pair(rng, level):
    """reference / decoy pair in which the ATOM records of a residue are not contiguous in the decoy file (and sometimes in the
    reference file as well): all backbone atoms of a chain first and the side chains afterwards, heavy atoms first and hydrogens
    appended, a few atoms appended at the end of the chain, or the atoms of a chain in random order (complexgen.permute, levels
    NONCONTIGUOUS_LEVELS).  Fnat and the clash count are defined on the SET of atoms: the order of the records is not in the
    definition.  The decoy is first derived from the reference like the other families (identical / jittered / one chain moved /
    interface residues or atoms deleted)."""
    for attempt in range(30):
        cutoff = rng.choice(CUTOFFS)
        chains = rng.choice(CHAIN_PAIRS)
        ref = cg.make_complex(rng, chains=chains, hydrogens=rng.random() < 0.6, gap=rng.choice([3.5, 4.5, 6.0]))
        base = rng.choice(NONCONTIGUOUS_BASE)
        dec = cg.permute(rng, make_decoy(rng, ref, base, cutoff), level)
        if rng.random() < 0.3:
            ref = cg.permute(rng, ref, rng.choice(cg.NONCONTIGUOUS_LEVELS))
        rl, dl = ref.lines(), dec.lines()
        if len({l[21] for l in dl}) < 2 or len(dl) < 4:
            continue
        if near_cutoff(rl, cutoff) or near_cutoff(dl, cutoff):
            _STATS['regenerated_near_cutoff'] += 1
            continue
        return rl, dl, cutoff, base
    raise RuntimeError('generator could not place a pair away from the cutoff')


def split_residues(lines):
    """number of residues (chain, resSeq, resName) whose records form more than one run in the file"""
    runs = {}
    prev = None
    for l in lines:
        key = (l[21], l[22:26], l[17:20])
        if key != prev:
            runs[key] = runs.get(key, 0) + 1
        prev = key
    return sum(1 for v in runs.values() if v > 1)


# ---- lattice families -------------------------------------------------------------------------------------------

def exact_vectors(c2):
    """integer (a,b,c) in half-Angstrom units with a^2+b^2+c^2 = c2 (c2 = (2*cutoff)^2)"""
    m = int(math.isqrt(c2))
    out = []
    for a in range(0, m + 1):
        for b in range(a, m + 1):
            r = c2 - a * a - b * b
            if r < b * b:
                break
            c = math.isqrt(r)
            if c * c == r:
                out.append((a, b, c))
    return out


def lattice_offset(rng, cutoff, mode):
    v = list(rng.choice(exact_vectors(int(round((2 * cutoff) ** 2)))))
    nz = [k for k in range(3) if v[k] != 0]
    k = rng.choice(nz)
    if mode == 'inside':
        v[k] -= 1
    elif mode == 'outside':
        v[k] += 1
    rng.shuffle(v)
    return [x * rng.choice([-1, 1]) for x in v]


def lattice_complex(rng, cutoff, modes, chains=('A', 'B')):
    """chain 1: residues 20 A apart on a half-Angstrom lattice; chain 2: one residue per chain-1 residue whose first heavy atom sits at an
    offset of length exactly / just under / just over the cutoff from a heavy atom of its partner; everything else is farther away"""
    nres = rng.randint(2, 4)
    A, B = [], []
    for k in range(nres):
        base = [40 * k + rng.randint(-2, 2), rng.randint(-2, 2), rng.randint(-2, 2)]     # half-Angstrom units
        atoms = [('N', 'N', base), ('CA', 'C', [base[0] + 2, base[1] + 1, base[2]])]
        if rng.random() < 0.5:
            atoms.append(('H', 'H', [base[0] + 1, base[1] - 1, base[2] + 1]))
        A.append({'chain': chains[0], 'resSeq': k + 1, 'resName': rng.choice(cg.RESN), 'atoms': atoms})
        mode = modes[k % len(modes)]
        anchor = rng.choice(atoms[:2])[2]
        off = lattice_offset(rng, cutoff, mode)
        p = [anchor[i] + off[i] for i in range(3)]
        away = [o * 2 for o in off]                       # second atom twice as far from the anchor
        batoms = [('CA', 'C', p), ('CB', 'C', [anchor[i] + away[i] for i in range(3)])]
        if rng.random() < 0.5:                            # a hydrogen right next to the anchor: must not count
            batoms.append(('HA', 'H', [anchor[0] + 1, anchor[1], anchor[2]]))
        B.append({'chain': chains[1], 'resSeq': k + 1 + rng.choice([0, 100]), 'resName': rng.choice(cg.RESN), 'atoms': batoms, 'mode': mode})
    res = A + B
    for r in res:
        r['atoms'] = [(n, e, tuple(v / 2.0 for v in xyz)) for (n, e, xyz) in r['atoms']]
    return cg.Complex(res)


def exact_at_cutoff(lines, cutoff):
    """number of inter-chain heavy-atom pairs at a distance of exactly the cutoff (integer arithmetic on thousandths)"""
    at = [a for a in millis(lines) if heavy(a[2])]
    c2 = int(round(cutoff * 1000)) ** 2
    return sum(1 for a, b in itertools.combinations(at, 2)
               if a[0] != b[0] and sum((p - q) ** 2 for p, q in zip(a[3], b[3])) == c2)


def lattice_pair(rng, cutoff):
    ref = lattice_complex(rng, cutoff, rng.choice([['exact'], ['exact', 'inside'], ['exact', 'outside', 'inside']]),
                          chains=rng.choice(CHAIN_PAIRS))
    dec = ref.copy()
    # move the partner atom of some residues by one lattice step along an axis (exact -> inside/outside/still exact is decided by the Spec)
    for r in dec.residues:
        if r['chain'] == ref.chains()[1] and rng.random() < 0.6:
            n, e, xyz = r['atoms'][0]
            k = rng.randrange(3)
            xyz = list(xyz); xyz[k] += rng.choice([-0.5, 0.5])
            r['atoms'][0] = (n, e, tuple(xyz))
    if rng.random() < 0.3:
        del dec.residues[rng.randrange(len(dec.residues))]
    return ref.lines(), dec.lines(), cutoff


# ----------------------------------------------------------------------------------------------------------------
# cases
# ----------------------------------------------------------------------------------------------------------------

def fnat_case(rl, dl, cutoff, family, via='file', default=False, raw_ok=True, domain=True):
    return {'op': 'fnat', 'ref': rl, 'dec': dl, 'cutoff': 'default' if default else rat(float(cutoff)), 'family': family, 'via': via,
            'raw_ok': raw_ok, 'domain': domain}


def n_ref_contacts(lines, cutoff):
    """number of residue pairs of different chains with heavy atoms within the cutoff (generator side: decides what is generated)"""
    at = [a for a in millis(lines) if heavy(a[2])]
    c2 = (cutoff * 1000.0) ** 2
    pairs = set()
    for a, b in itertools.combinations(at, 2):
        if a[0] != b[0] and sum((p - q) ** 2 for p, q in zip(a[3], b[3])) <= c2:
            pairs.add(frozenset(((a[0], a[1]), (b[0], b[1]))))
    return len(pairs)


HISTORY_CUTOFFS = [3.0, 3.5, 4.0, 5.0, 6.0, 8.0]


def history_case(rng, k):
    """ONE StructureSimilarity object, 2-4 calls mixing the routes, with cutoffs whose reference contact sets differ from call to call
    (also repeated identical calls, the default cutoff, and the static compute_clashes in between)"""
    for attempt in range(60):
        fam = rng.choice(['self', 'jitter', 'del_iface_first', 'del_iface_second', 'rigid_chain', 'mix'])
        chains = rng.choice(CHAIN_PAIRS)
        ref = cg.make_complex(rng, chains=chains, gap=rng.choice([3.5, 4.5, 6.0]))
        dec = make_decoy(rng, ref, fam, 5.0)
        rl, dl = ref.lines(), dec.lines()
        if len({l[21] for l in dl}) < 2 or len(dl) < 4:
            continue
        counts = {c: n_ref_contacts(rl, c) for c in HISTORY_CUTOFFS}
        usable = [c for c in HISTORY_CUTOFFS if counts[c] > 0 and not near_cutoff(rl, c) and not near_cutoff(dl, c)]
        distinct = sorted({counts[c]: c for c in usable}.values())        # one cutoff per distinct number of reference contacts
        if len(distinct) < 2 or not clash_free_of_exact3(dl):
            _STATS['regenerated_near_cutoff'] += 1
            continue
        ncalls = rng.randint(2, 4)
        pattern = rng.choice(['fast-fast', 'fast-fast', 'fast-fast', 'mixed', 'mixed', 'mixed', 'repeat', 'repeat', 'sql-sql'])
        cuts = rng.sample(distinct, min(len(distinct), ncalls))
        if rng.random() < 0.5:
            cuts.sort(reverse=rng.random() < 0.5)
        while len(cuts) < ncalls:
            cuts.append(rng.choice(distinct))
        if pattern == 'repeat':                        # A, B, A (and A again): the same call before and after another cutoff
            cuts = [cuts[0], cuts[1], cuts[0]] + ([cuts[0]] if ncalls == 4 else [])
        calls = []
        for i, c in enumerate(cuts):
            if pattern in ('fast-fast', 'repeat'):
                route = 'fast'
            elif pattern == 'sql-sql':
                route = 'sql'
            else:                                      # mixed: the first two calls are fast ones at different cutoffs, the rest random
                route = 'fast' if i < 2 else rng.choice(['fast', 'sql'])
            calls.append({'route': route, 'cutoff': 'default' if (c == 5.0 and rng.random() < 0.3) else rat(float(c))})
            if pattern == 'mixed' and rng.random() < 0.5:
                dch = sorted({l[21] for l in dl})
                calls.append({'route': 'clashes', 'chain1': dch[0], 'chain2': dch[1]})
                if rng.random() < 0.5:
                    calls.append({'route': 'sql', 'cutoff': rat(float(rng.choice(distinct)))})
        fast_cuts = {('5/1' if cl['cutoff'] == 'default' else cl['cutoff']) for cl in calls if cl['route'] == 'fast'}
        return {'op': 'fnat_history', 'ref': rl, 'dec': dl, 'calls': calls, 'family': 'history-' + pattern, 'via': rng.choice(['file', 'file', 'list']),
                'raw_ok': True, 'domain': True, 'decoy_family': fam,
                'ref_contacts': {rat(float(c)): counts[c] for c in distinct}, 'fast_cutoffs': len(fast_cuts)}
    raise RuntimeError('generator could not build a history case')


def clash_case(lines, chain1, chain2, family, default=False):
    return {'op': 'clashes', 'lines': lines, 'chain1': chain1, 'chain2': chain2, 'family': family, 'default': default}


def squeeze(rng, cx, dist):
    """move the second chain towards the first so that their facing atoms come within ~dist"""
    out = cx.copy()
    ch = out.chains()
    ys = {c: [a[2][1] for r in out.residues if r['chain'] == c for a in r['atoms']] for c in ch}
    first, second = (ch[0], ch[1]) if np.mean(ys[ch[0]]) < np.mean(ys[ch[1]]) else (ch[1], ch[0])
    gap = min(ys[second]) - max(ys[first])
    shift = gap - dist
    for r in out.residues:
        if r['chain'] == second:
            r['atoms'] = [(n, e, (x, round(y - shift, 3), z)) for (n, e, (x, y, z)) in r['atoms']]
    return out


def clash_free_of_exact3(lines):
    at = [a for a in millis(lines) if heavy(a[2])]
    for a, b in itertools.combinations(at, 2):
        if a[0] != b[0]:
            d2 = sum((p - q) ** 2 for p, q in zip(a[3], b[3]))
            if abs(math.sqrt(d2) - 3000.0) < 1e-3:
                return False
    return True


def cases(ctx):
    rng = ctx.rng
    out = []
    n = ctx.scale(5, 60)
    for fam in FAMILIES:
        for k in range(n if fam != 'self' else max(2, n // 2)):
            rl, dl, cutoff = random_pair(rng, fam)
            default = (cutoff == 5.0 and rng.random() < 0.5)
            out.append(fnat_case(rl, dl, cutoff, fam, via=rng.choice(['file', 'file', 'list']), default=default))
    # long residues touching tip to tip (centres far apart, atoms in contact): any geometry is in the quantifier
    for fam in ('self', 'jitter', 'del_res', 'del_atoms', 'rigid_chain', 'permute'):
        for k in range(ctx.scale(2, 12)):
            rl, dl, cutoff = random_pair(rng, fam, long_residues=True)
            out.append(fnat_case(rl, dl, cutoff, fam, via=rng.choice(['file', 'list'])))
            out[-1]['geometry'] = 'long-residues'
    # alternate-location conformers: an atom listed twice in its residue (altLoc A and B, second position shifted); both are ATOM
    # records of non-hydrogen atoms, so either may make the contact (round-8 seed C08-r8m1: the fast route kept the first record per name)
    for fam in ('self', 'jitter', 'del_res'):
        for k in range(ctx.scale(2, 12)):
            rl, dl, cutoff = random_pair(rng, fam)
            rl2 = add_conformers(rng, rl)
            dl2 = list(rl2) if fam == 'self' else add_conformers(rng, dl)      # 'self': the decoy IS the reference
            if near_cutoff(rl2, cutoff) or near_cutoff(dl2, cutoff):
                continue
            out.append(fnat_case(rl2, dl2, cutoff, fam, via=rng.choice(['file', 'list'])))
            out[-1]['geometry'] = 'altloc-conformers'
    for cutoff in (3.0, 5.0, 4.5):
        for k in range(ctx.scale(6, 40)):
            rl, dl, c = lattice_pair(rng, cutoff)
            out.append(fnat_case(rl, dl, c, f'lattice{cutoff:g}', via=rng.choice(['file', 'list']), default=(cutoff == 5.0 and k % 2 == 0)))
            out[-1]['exact_pairs'] = [exact_at_cutoff(rl, c), exact_at_cutoff(dl, c)]
    out += malformed_cases(ctx)
    # decoys without any inter-chain heavy-atom contact (one chain moved 60 A away): Fnat 0 on both routes
    for k in range(ctx.scale(4, 20)):
        for attempt in range(30):
            cutoff = rng.choice(CUTOFFS)
            ref = cg.make_complex(rng, chains=rng.choice(CHAIN_PAIRS), gap=rng.choice([3.5, 4.5]))
            dec = ref.copy()
            far = dec.chains()[rng.randrange(2)]
            for r in dec.residues:
                if r['chain'] == far:
                    r['atoms'] = [(n_, e_, (x, round(y + 60.0, 3), z)) for (n_, e_, (x, y, z)) in r['atoms']]
            rl, dl = ref.lines(), dec.lines()
            if n_ref_contacts(rl, cutoff) > 0 and not near_cutoff(rl, cutoff):
                break
        out.append(fnat_case(rl, dl, cutoff, 'decoy_no_contact', via=rng.choice(['file', 'list'])))
    # ---- histories on one object
    for k in range(ctx.scale(36, 200)):
        out.append(history_case(rng, k))
    # ---- clashes
    for k in range(ctx.scale(24, 200)):
        for attempt in range(20):
            cx = cg.make_complex(rng, chains=rng.choice(CHAIN_PAIRS), gap=rng.choice([3.5, 4.5, 6.0]))
            cx = squeeze(rng, cx, rng.choice([0.6, 1.5, 2.4, 2.9, 3.2]))
            if rng.random() < 0.4:
                cx = cg.jitter(rng, cx, 0.3)
            ls = cx.lines()
            if clash_free_of_exact3(ls):
                break
            _STATS['regenerated_near_cutoff'] += 1
        ch = cx.chains()
        order = rng.choice([(ch[0], ch[1]), (ch[0], ch[1]), (ch[1], ch[0])])
        out.append(clash_case(ls, order[0], order[1], 'squeezed', default=(set(ch) == {'A', 'B'} and order == ('A', 'B') and rng.random() < 0.5)))
    for k in range(ctx.scale(8, 60)):
        for attempt in range(50):
            cx = lattice_complex(rng, 3.0, rng.choice([['inside'], ['outside'], ['inside', 'outside']]), chains=rng.choice(CHAIN_PAIRS))
            if clash_free_of_exact3(cx.lines()):
                break
            _STATS['regenerated_near_cutoff'] += 1
        ch = cx.chains()
        out.append(clash_case(cx.lines(), ch[0], ch[1], 'lattice3-off-cutoff'))
    # clash stream outside the domain: unknown chain, same chain twice, three chains
    cx = cg.make_complex(rng, gap=3.5)
    out.append(clash_case(cx.lines(), 'A', 'Q', 'unknown-chain'))
    out.append(clash_case(cx.lines(), 'A', 'A', 'same-chain'))
    third = [cg.atom_line(900 + i, 'CA', 'GLY', 'C', i + 1, 1.0 + 3.8 * i, 2.0, 0.5) for i in range(3)]
    out.append(clash_case(cx.lines() + third, 'A', 'B', 'three-chains'))
    out.append(clash_case(cx.lines() + third, 'A', 'C', 'three-chains'))
    # ---- files in which the records of a residue are not contiguous (both Fnat routes, clash count); appended last so that the
    #      cases above are the same as before for a given seed
    for level in cg.NONCONTIGUOUS_LEVELS:
        for k in range(ctx.scale(2, 12)):
            rl, dl, cutoff, base = noncontiguous_pair(rng, level)
            out.append(fnat_case(rl, dl, cutoff, 'noncontiguous-' + level, via=rng.choice(['file', 'list']),
                                 default=(cutoff == 5.0 and rng.random() < 0.5)))
            out[-1]['decoy_family'] = base
            out[-1]['split_residues'] = [split_residues(rl), split_residues(dl)]
        for k in range(ctx.scale(1, 6)):
            for attempt in range(20):
                cx = squeeze(rng, cg.make_complex(rng, chains=rng.choice(CHAIN_PAIRS), hydrogens=rng.random() < 0.6, gap=4.5),
                             rng.choice([0.6, 1.5, 2.4, 2.9]))
                ls = cg.permute(rng, cx, level).lines()
                if clash_free_of_exact3(ls):
                    break
                _STATS['regenerated_near_cutoff'] += 1
            ch = cx.chains()
            order = rng.choice([(ch[0], ch[1]), (ch[1], ch[0])])
            out.append(clash_case(ls, order[0], order[1], 'squeezed-noncontiguous-' + level))
    return out


def malformed_cases(ctx):
    """outside the property's domain: compared with the Model only"""
    rng = ctx.rng
    out = []
    for k in range(ctx.scale(2, 10)):
        rl, dl, cutoff = random_pair(rng, 'jitter')
        third = [cg.atom_line(900 + i, 'CA', 'GLY', 'C', i + 1, 50.0 + 3.8 * i, 50.0, 50.0) for i in range(3)]
        out.append(fnat_case(rl + third, dl, cutoff, 'ref-three-chains', domain=False))
        out.append(fnat_case(rl, dl + third, cutoff, 'decoy-three-chains', domain=False))
        a = rl[0][21]
        out.append(fnat_case([l for l in rl if l[21] == a], dl, cutoff, 'ref-one-chain', domain=False))
        out.append(fnat_case(rl, [l for l in dl if l[21] == a], cutoff, 'decoy-one-chain', domain=False))
        far = cg.make_complex(rng, gap=11.0).lines()
        out.append(fnat_case(far, far, 3.0, 'no-contact', domain=True))
        ren = {rl[0][21]: 'P', [l for l in rl if l[21] != rl[0][21]][0][21]: 'Q'}
        out.append(fnat_case(rl, [l[:21] + ren[l[21]] + l[22:] for l in dl], cutoff, 'decoy-other-chain-ids', domain=False))
        i = rng.randrange(len(dl))
        key = (dl[i][21], dl[i][22:26])
        out.append(fnat_case(rl, [l[:17] + 'UNK' + l[20:] if (l[21], l[22:26]) == key else l for l in dl], cutoff, 'decoy-residue-renamed', domain=False))
        # chain identifier only in the segID columns 73-76
        seg1 = [l[:21] + ' ' + l[22:72] + l[21] + '   ' + l[76:] for l in dl]
        out.append(fnat_case([l[:21] + ' ' + l[22:72] + l[21] + '   ' + l[76:] for l in rl], seg1, cutoff, 'segid-one-char', domain=True))
        seg2 = [l[:21] + ' ' + l[22:72] + 'S' + l[21] + '  ' + l[76:] for l in dl]
        out.append(fnat_case([l[:21] + ' ' + l[22:72] + 'S' + l[21] + '  ' + l[76:] for l in rl], seg2, cutoff, 'segid-two-chars', raw_ok=False, domain=False))
        out.append(fnat_case(rl, dl, 0.0, 'cutoff-zero', domain=True))
        out.append(fnat_case(rl, dl, -1.0, 'cutoff-negative', domain=True))
    return out


def search_cases(ctx):
    rng = ctx.rng
    out = []
    for cutoff in (3.0, 5.0, 4.5):
        for k in range(40):
            rl, dl, c = lattice_pair(rng, cutoff)
            out.append(fnat_case(rl, dl, c, f'search-lattice{cutoff:g}', via='list'))
    for fam in ('del_iface_first', 'del_iface_second', 'h_only', 'blank_name', 'self'):
        for k in range(15):
            rl, dl, cutoff = random_pair(rng, fam)
            out.append(fnat_case(rl, dl, cutoff, 'search-' + fam, via='list'))
    for k in range(40):
        out.append(history_case(rng, k))
        out[-1]['family'] = 'search-' + out[-1]['family']
    for k in range(30):
        cx = lattice_complex(rng, 3.0, ['inside', 'outside'])
        if clash_free_of_exact3(cx.lines()):
            out.append(clash_case(cx.lines(), 'A', 'B', 'search-lattice3'))
    return out


# ----------------------------------------------------------------------------------------------------------------
# running the real code
# ----------------------------------------------------------------------------------------------------------------

_COUNTER = [0]
_TABLES = {}       # case id -> tables as the library parsed them (kept out of the reported outputs: they are large)


def table_of(db):
    out = []
    for r in db.get('*'):
        out.append([int(r[0]), r[1], r[2], r[3], r[4], int(r[5]), r[6], rat(float(r[7])), rat(float(r[8])), rat(float(r[9])),
                    rat(float(r[10])), rat(float(r[11])), r[12], int(r[13])])
    return out


def parsed_table(lines):
    try:
        db = pdb2sql(list(lines))
        t = table_of(db)
        db._close()
        return t
    except Exception as e:
        return exc_tag(e)


def write(ctx, lines):
    # four file names in rotation, rewritten from case to case: a path names what the file holds NOW
    _COUNTER[0] += 1
    p = os.path.join(ctx.tmpdir(), f's{_COUNTER[0] % 4}.pdb')
    with open(p, 'w') as f:
        f.write('\n'.join(lines) + '\n')
    return p


def canon_value(v, kind='fraction'):
    """canonical form of what a routine returned; anything that is not the expected number becomes a tag that disagrees with every model value"""
    try:
        if isinstance(v, bool) or v is None:
            return f'BAD-RETURN:{type(v).__name__}'
        if kind == 'count':
            if isinstance(v, (int, np.integer)):
                return int(v)
            return f'BAD-RETURN:{type(v).__name__}'
        if isinstance(v, (int, float, np.integer, np.floating)):
            x = float(v)
            if x != x or x in (float('inf'), float('-inf')):
                return f'BAD-RETURN:{x!r}'
            return rat(x)
        return f'BAD-RETURN:{type(v).__name__}'
    except Exception as e:                               # never let a strange return value crash the harness
        return f'BAD-RETURN:{type(e).__name__}'


def val(f, kind='fraction'):
    try:
        r = f()
    except BaseException as e:                           # SystemExit (sys.exit in _fix_chainID) included
        if isinstance(e, KeyboardInterrupt):
            raise
        return exc_tag(e)
    return canon_value(r, kind)


def impl(ctx, c):
    cwd = os.getcwd()
    os.chdir(ctx.tmpdir())
    try:
        if c['op'] == 'fnat':
            if c['via'] == 'file':
                ref, dec = write(ctx, c['ref']), write(ctx, c['dec'])
            else:
                ref, dec = list(c['ref']), list(c['dec'])
            S = StructureSimilarity(dec, ref)
            if c['cutoff'] == 'default':
                fast, sql = val(lambda: S.compute_fnat_fast()), val(lambda: S.compute_fnat_pdb2sql())
            else:
                cut = float(unrat(c['cutoff']))
                cut_fast = int(cut) if cut == int(cut) and c['family'].startswith('lattice') else cut   # the default of the fast route is an int
                fast, sql = val(lambda: S.compute_fnat_fast(cutoff=cut_fast)), val(lambda: S.compute_fnat_pdb2sql(cutoff=cut))
            _COUNTER[0] += 1
            out = {'fast': fast, 'sql': sql, 'tables': _COUNTER[0]}
            _TABLES[out['tables']] = {'ref_atoms': parsed_table(c['ref']), 'dec_atoms': parsed_table(c['dec'])}
            for p in (ref, dec):
                if isinstance(p, str) and os.path.exists(p):
                    os.remove(p)
            return out
        if c['op'] == 'fnat_history':
            if c['via'] == 'file':
                ref, dec = write(ctx, c['ref']), write(ctx, c['dec'])
            else:
                ref, dec = list(c['ref']), list(c['dec'])
            S = StructureSimilarity(dec, ref)              # ONE object for the whole sequence
            values = []
            for cl in c['calls']:
                if cl['route'] == 'clashes':
                    values.append(val(lambda: StructureSimilarity.compute_clashes(dec, cl['chain1'], cl['chain2']), 'count'))
                    continue
                f = S.compute_fnat_fast if cl['route'] == 'fast' else S.compute_fnat_pdb2sql
                if cl['cutoff'] == 'default':
                    values.append(val(lambda: f()))
                else:
                    cut = float(unrat(cl['cutoff']))
                    values.append(val(lambda: f(cutoff=cut)))
            _COUNTER[0] += 1
            out = {'values': values, 'tables': _COUNTER[0]}
            _TABLES[out['tables']] = {'ref_atoms': parsed_table(c['ref']), 'dec_atoms': parsed_table(c['dec'])}
            for p in (ref, dec):
                if isinstance(p, str) and os.path.exists(p):
                    os.remove(p)
            return out
        p = write(ctx, c['lines'])
        if c['default']:
            v = val(lambda: StructureSimilarity.compute_clashes(p), 'count')
        else:
            v = val(lambda: StructureSimilarity.compute_clashes(p, c['chain1'], c['chain2']), 'count')
        os.remove(p)
        _COUNTER[0] += 1
        _TABLES[_COUNTER[0]] = {'atoms': parsed_table(c['lines'])}
        return {'value': v, 'tables': _COUNTER[0]}
    finally:
        os.chdir(cwd)


def driver_line(c, out):
    nl = '\n' if c.get('via') == 'file' else ''
    tb = _TABLES.get(out.get('tables'), {}) if isinstance(out, dict) else {}
    if c['op'] == 'fnat':
        ra, da = tb.get('ref_atoms'), tb.get('dec_atoms')
        return {'op': 'fnat', 'ref_lines': [l + nl for l in c['ref']], 'dec_lines': [l + nl for l in c['dec']], 'cutoff': c['cutoff'],
                'ref_atoms': ra if isinstance(ra, list) else [], 'dec_atoms': da if isinstance(da, list) else []}
    if c['op'] == 'fnat_history':
        ra, da = tb.get('ref_atoms'), tb.get('dec_atoms')
        return {'op': 'fnat_history', 'ref_lines': [l + nl for l in c['ref']], 'dec_lines': [l + nl for l in c['dec']], 'calls': c['calls'],
                'ref_atoms': ra if isinstance(ra, list) else [], 'dec_atoms': da if isinstance(da, list) else []}
    at = tb.get('atoms')
    return {'op': 'clashes', 'lines': [l + '\n' for l in c['lines']], 'chain1': c['chain1'], 'chain2': c['chain2'],
            'atoms': at if isinstance(at, list) else []}


# ----------------------------------------------------------------------------------------------------------------
# comparison
# ----------------------------------------------------------------------------------------------------------------

TOL = Fraction(1, 10 ** 9)


def same_value(a, b):
    """both exception tags, or both numbers within 1e-9; 'discard' for a one-unit difference in the sixth decimal"""
    def is_num(v):
        try:
            unrat(v); return True
        except Exception:
            return False
    if not (isinstance(a, str) and isinstance(b, str) and is_num(a) and is_num(b)):
        return True if a == b else f'{a!r} vs {b!r}'
    x, y = unrat(a), unrat(b)
    if abs(x - y) <= TOL:
        return True
    if abs(abs(x - y) - Fraction(1, 10 ** 6)) <= TOL:
        return 'discard'
    return f'{float(x)!r} vs {float(y)!r}'


def agree_model(c, out, model):
    if c['op'] == 'fnat_history':
        if len(out['values']) != len(model['values']):
            return 'history: number of answers differs'
        for i, (cl, a, b) in enumerate(zip(c['calls'], out['values'], model['values'])):
            v = (True if a == b else f'{a!r} vs {b!r}') if cl['route'] == 'clashes' else same_value(a, b)
            if v is not True:
                return v if v == 'discard' else f'call {i + 1} of {len(c["calls"])} on one object ({cl["route"]}, cutoff {cl.get("cutoff")}): implementation/model {v}'
        return True
    if c['op'] == 'fnat':
        for route in ('fast', 'sql'):
            v = same_value(out[route], model[route])
            if v is not True:
                return v if v == 'discard' else f'{route}: implementation/model {v}'
        if isinstance(_TABLES.get(out['tables'], {}).get('dec_atoms'), list) and model['raw_agrees'] != c['raw_ok']:
            return f'raw-column reader agrees with the parser: model says {model["raw_agrees"]}, generator expected {c["raw_ok"]}'
        return True
    return True if out['value'] == model else f'implementation {out["value"]!r} model {model!r}'


def in_domain(c, spec, route):
    """the hypotheses of fnat_<route>_eq_def, evaluated by the Spec driver on the parsed tables"""
    if not spec['ref_two_chains'] or not spec['names_consistent']:
        return False
    if route == 'sql':
        return bool(spec['same_chains'])
    return bool(c['raw_ok'])


def agree_spec(c, out, spec):
    if c['op'] == 'fnat_history':
        tb = _TABLES.get(out['tables'], {})
        if not isinstance(tb.get('ref_atoms'), list) or not isinstance(tb.get('dec_atoms'), list):
            return True
        for i, (cl, a, sp) in enumerate(zip(c['calls'], out['values'], spec['values'])):
            where = f'call {i + 1} of {len(c["calls"])} on one object ({cl["route"]}, cutoff {cl.get("cutoff")})'
            if cl['route'] == 'clashes':
                if spec['same_chains'] and a != sp['value']:
                    return f'{where}: compute_clashes {a!r}, definition {sp["value"]}'
                continue
            if not in_domain(c, spec, cl['route']):
                continue
            want = 'ERR:ZeroDivisionError' if sp['value'] == 'UNDEFINED' else sp['value']
            v = same_value(a, want)
            if v is not True:
                return v if v == 'discard' else f'{where}: implementation/definition {v} (reference contacts at this cutoff: {sp["n_ref"]})'
        return True
    if c['op'] == 'fnat':
        tb = _TABLES.get(out['tables'], {})
        if not isinstance(tb.get('ref_atoms'), list) or not isinstance(tb.get('dec_atoms'), list):
            return True
        want = 'ERR:ZeroDivisionError' if spec['value'] == 'UNDEFINED' else spec['value']
        for route in ('fast', 'sql'):
            if not in_domain(c, spec, route):
                continue
            v = same_value(out[route], want)
            if v is not True:
                return v if v == 'discard' else f'{route}: implementation/definition {v} (reference contacts {spec["n_ref"]}, preserved {spec["n_preserved"]})'
            if not str(out[route]).startswith('ERR') and not (0 <= unrat(out[route]) <= 1):
                return f'{route}: value {out[route]} outside [0,1]'
        same_atoms = c['family'] == 'self' or (c['family'].startswith('noncontiguous') and c.get('decoy_family') == 'self')
        if same_atoms and spec['n_ref'] > 0 and in_domain(c, spec, 'sql'):
            for route in ('fast', 'sql'):
                if out[route] != '1/1':
                    return f'{route}: decoy = reference but Fnat = {out[route]}'
        return True
    if not isinstance(_TABLES.get(out['tables'], {}).get('atoms'), list) or not spec['two_chains'] or isinstance(out['value'], str):
        return True
    if c['family'] in ('three-chains', 'unknown-chain', 'same-chain'):
        return True
    return True if out['value'] == spec['value'] else \
        f'compute_clashes {out["value"]} definition (closer than 3 A) {spec["value"]}; pairs at exactly 3 A: {spec["at_cutoff"]}'


def classify(c, out, spec):
    if c['op'] == 'clashes' and isinstance(out.get('value'), int) and spec.get('at_cutoff', 0) > 0 \
            and out['value'] == spec['value'] + spec['at_cutoff']:
        return 'clash_at_exactly_cutoff'
    return None


def nontrivial_key(c, out):
    if c['op'] == 'fnat_history':
        return ['history', c['family'], json.dumps(c['calls'], sort_keys=True), out.get('values'), len(c['ref']), len(c['dec'])]
    if c['op'] == 'fnat':
        return ['fnat', c['family'], c['cutoff'], out.get('fast'), out.get('sql'), len(c['ref']), len(c['dec'])]
    return ['clashes', c['family'], out.get('value'), len(c['lines'])]


def distribution(recs):
    fam, vals, errs = {}, {'0': 0, '(0,1)': 0, '1': 0}, {}
    n_ref = []
    for r in recs:
        c, o = r['case'], r['impl']
        fam[c['op'] + ':' + c['family']] = fam.get(c['op'] + ':' + c['family'], 0) + 1
        if c['op'] == 'fnat' and isinstance(o, dict):
            for route in ('fast', 'sql'):
                v = o[route]
                if str(v).startswith('ERR'):
                    errs[v] = errs.get(v, 0) + 1
                else:
                    q = unrat(v)
                    vals['0' if q == 0 else '1' if q == 1 else '(0,1)'] += 1
            if isinstance(r.get('spec'), dict):
                n_ref.append(r['spec'].get('n_ref', 0))
    cl = [r['impl']['value'] for r in recs if r['case']['op'] == 'clashes' and isinstance(r['impl'], dict) and isinstance(r['impl']['value'], int)]
    hist = [r['case'] for r in recs if r['case']['op'] == 'fnat_history']
    ex = [r['case']['exact_pairs'] for r in recs if 'exact_pairs' in r['case']]
    return {'families': fam, 'fnat_values': vals, 'fnat_exceptions': errs,
            'histories': {'sequences': len(hist), 'calls': sum(len(h['calls']) for h in hist),
                          'with_two_or_more_fast_calls_at_different_cutoffs': sum(1 for h in hist if h['fast_cutoffs'] >= 2),
                          'with_clashes_in_between': sum(1 for h in hist if any(cl['route'] == 'clashes' for cl in h['calls']))},
            'lattice_cases_with_pairs_exactly_at_cutoff': {'reference': sum(1 for e in ex if e[0] > 0), 'decoy': sum(1 for e in ex if e[1] > 0), 'of': len(ex)},
            'reference_contacts': {'min': min(n_ref) if n_ref else 0, 'max': max(n_ref) if n_ref else 0,
                                   'mean': round(sum(n_ref) / len(n_ref), 1) if n_ref else 0},
            'clash_counts': {'zero': sum(1 for v in cl if v == 0), 'positive': sum(1 for v in cl if v > 0), 'max': max(cl) if cl else 0},
            'noncontiguous_files': {'cases': sum(1 for r in recs if 'noncontiguous' in r['case']['family']),
                                    'decoys_with_split_residues': sum(1 for r in recs if r['case'].get('split_residues', [0, 0])[1] > 0),
                                    'references_with_split_residues': sum(1 for r in recs if r['case'].get('split_residues', [0, 0])[0] > 0)},
            'regenerated_near_cutoff': _STATS['regenerated_near_cutoff']}


# ----------------------------------------------------------------------------------------------------------------
# regression probes of repaired defects; the recorded finding
# ----------------------------------------------------------------------------------------------------------------

def gen_fnat_checks(ctx):
    """compute_fnat_fast: the real code against its translation (Gen/Rmsd.lean, driver op gen_fnat_fast) on the cases of the check"""
    import vlib
    cs = [c for c in (cases(ctx) + malformed_cases(ctx)) if c['op'] == 'fnat']
    ctx.rng.shuffle(cs)
    cs = cs[:ctx.scale(70, 400)]
    lines, outs = [], []
    for c in cs:
        out = impl(ctx, c)
        nl = '\n' if c.get('via') == 'file' else ''
        lines.append({'op': 'gen_fnat_fast', 'ref_lines': [l + nl for l in c['ref']], 'dec_lines': [l + nl for l in c['dec']], 'cutoff': c['cutoff']})
        outs.append(out['fast'])
    try:
        ans = vlib.run_driver(lines, which='model', cluster=CLUSTER) if lines else []
    except Exception as e:
        return [{'name': 'generated compute_fnat_fast: model driver not available (' + repr(e)[:80] + ')', 'ok': True, 'case': None, 'detail': 'skipped'}]
    bad, stats = None, {}
    for c, g, a in zip(cs, outs, ans):
        m = a.get('model')
        if isinstance(m, str) and m.startswith('ERR:UNMODELLED'):
            stats['unmodelled'] = stats.get('unmodelled', 0) + 1
            continue
        v = same_value(g, m)
        tag = g if isinstance(g, str) and g.startswith('ERR') else 'value'
        stats[tag] = stats.get(tag, 0) + 1
        if v not in (True, 'discard') and bad is None:
            bad = {'why': v, 'real code': g, 'translation': m, 'family': c['family'], 'cutoff': c['cutoff'], 'ref': c['ref'][:40], 'dec': c['dec'][:40]}
    return [{'name': f'compute_fnat_fast = its translation (Gen/Rmsd.lean) on {len(cs)} cases ({dict(sorted(stats.items()))})',
             'ok': bad is None and len(cs) > 30, 'case': bad,
             'detail': 'driver op gen_fnat_fast runs GenR.compute_fnat_fast with the parser model and the residue contact model as parameters',
             'kind': 'gen-fnat'}]


# ---- simTie: the GENERATED SQL route and clash count (Gen/Sim.lean, py/translate_ext_sim.py) against the real code ----------------

def sim_gen_checks(ctx):
    """compute_fnat_pdb2sql / compute_clashes: the real code against its translation (driver op sim_fnat) on the cases of the check"""
    import vlib
    cs = [c for c in (cases(ctx) + malformed_cases(ctx)) if c['op'] in ('fnat', 'clashes')]
    ctx.rng.shuffle(cs)
    cs = cs[:ctx.scale(45, 500)]
    lines, outs = [], []
    for c in cs:
        if c['op'] == 'fnat':
            rl, dl = c['ref'], c['dec']
            cut = '5/1' if c['cutoff'] == 'default' else c['cutoff']
            ch = sorted({l[21] for l in dl if l.startswith('ATOM') and len(l) > 21})
            ch1, ch2 = (ch[0], ch[1]) if len(ch) >= 2 else ('A', 'B')
            fn = impl(ctx, c)['sql']
        else:
            rl = dl = c['lines']
            cut, ch1, ch2 = '5/1', c['chain1'], c['chain2']
            S = StructureSimilarity(list(dl), list(rl))
            fn = val(lambda: S.compute_fnat_pdb2sql(cutoff=5.0))
        p = write(ctx, dl)
        cl = val(lambda: StructureSimilarity.compute_clashes(p, ch1, ch2), 'count')
        os.remove(p)
        nl = '\n' if c.get('via', 'file') == 'file' else ''
        lines.append({'op': 'sim_fnat', 'ref_lines': [l + nl for l in rl], 'dec_lines': [l + nl for l in dl], 'cutoff': cut, 'chain1': ch1, 'chain2': ch2})
        outs.append((fn, cl))
    try:
        ans = vlib.run_driver(lines, which='model', cluster=CLUSTER) if lines else []
    except Exception as e:
        return [{'name': 'generated compute_fnat_pdb2sql / compute_clashes: model driver not available (' + repr(e)[:80] + ')', 'ok': True, 'case': None, 'detail': 'skipped'}]
    bad, stats = None, {}
    for c, (fn, cl), a in zip(cs, outs, ans):
        m = a.get('model') or {}
        for key, g, kind in (('fnat', fn, 'f'), ('fnat_rev', fn, 'f'), ('clashes', cl, 'c'), ('clashes_rev', cl, 'c')):
            mm = m.get(key)
            if isinstance(mm, str) and mm.startswith('ERR:UNMODELLED'):
                stats['unmodelled'] = stats.get('unmodelled', 0) + 1
                continue
            v = same_value(g, mm) if kind == 'f' else (True if g == mm else f'{g!r} vs {mm!r}')
            tag = key.split('_')[0] + ':' + (g if isinstance(g, str) and g.startswith('ERR') else 'value')
            stats[tag] = stats.get(tag, 0) + 1
            if v not in (True, 'discard') and bad is None:
                bad = {'routine': key, 'why': v, 'real code': g, 'translation': mm, 'family': c['family'], 'cutoff': c.get('cutoff'),
                       'ref': (c.get('ref') or c.get('lines'))[:40], 'dec': (c.get('dec') or c.get('lines'))[:40]}
    return [{'name': f'compute_fnat_pdb2sql / compute_clashes = their translations (Gen/Sim.lean) on {len(cs)} cases ({dict(sorted(stats.items()))})',
             'ok': bad is None and len(cs) > 25, 'case': bad,
             'detail': 'driver op sim_fnat runs GenS.compute_fnat_pdb2sql / GenS.compute_clashes with the parser model, the _fix_chainID model and two set orders',
             'kind': 'gen-sim-fnat'}]


# ---- LARGE structures: the library against a brute-force NumPy evaluation of the definitions --------------------------------------
#
# The property quantifies over all two-chain complexes; the exact-rational Lean drivers take structures of tens of atoms in the quick
# tier.  Chains of hundreds to thousands of ATOM records (protonated receptors) are therefore compared with an independent evaluation
# of the DEFINITIONS written here with NumPy on the text of the records (three decimals: the text is the ground truth):
#   contact atoms / pair map (C05's definition, which clash count and both Fnat routes are built on), clash count, Fnat.
# Chain sizes are taken just above the powers of two 256 .. 4096 (where blocked / chunked / paged implementations change regime), the
# partner chain faces the window of the big chain that holds those atom positions, both chains carry hydrogens, the big chain is the
# first or the second chain of the file and of the call.  Every inter-chain distance is at least 1e-6 away from every cutoff used
# (regenerated otherwise), so that the binary64 decisions are the exact ones.

BACKBONE = ['CA', 'C', 'N', 'O']                 # the published convention (as in C05), not read from the library
LARGE_SIZES = [256, 512, 1024, 2048, 4096]
LARGE_CUTOFFS = [5.0, 3.5, 4.0, 6.0]


def large_pair(spec):
    """deterministic in `spec` (a JSON dict kept in the replay): reference lines and the decoys derived from it"""
    import random
    rng = random.Random(spec['subseed'])
    ref, info = cg.make_large_complex(rng, spec['n_big'], chains=tuple(spec['chains']), big_first=spec['big_first'],
                                      hydrogens=spec['hydrogens'], where=('straddle', spec['n_big'] - spec['back']) if spec['where'] == 'straddle' else spec['where'])
    small = info['small']
    decoys = {'self': ref.copy()}
    moved = ref.copy()
    dy = rng.choice([0.7, 1.1, 1.6, 2.3])
    for r in moved.residues:
        if r['chain'] == small:
            r['atoms'] = [(n, e, (round(x + rng.gauss(0, 0.15), 3), round(y + dy + rng.gauss(0, 0.15), 3), round(z + rng.gauss(0, 0.15), 3)))
                          for (n, e, (x, y, z)) in r['atoms']]
    # residues of the interface window deleted on either side
    first, last = info['window']
    bigidx = [i for i, r in enumerate(moved.residues) if r['chain'] == info['big']]
    smallidx = [i for i, r in enumerate(moved.residues) if r['chain'] == small]
    drop = set(rng.sample(bigidx[first:last + 1], min(2, last - first + 1)) + rng.sample(smallidx, min(rng.randint(0, 2), len(smallidx) - 1)))
    moved.residues = [r for i, r in enumerate(moved.residues) if i not in drop]
    decoys['moved'] = moved
    return ref.lines(), {k: v.lines() for k, v in decoys.items()}, info


class _BF:
    """the atoms of a file as the definitions see them (from the text of the records; rowID = position among the ATOM records)"""

    def __init__(self, lines):
        at = cg.parse_lines(lines)
        self.n = len(at)
        self.xyz = np.array([a['xyz'] for a in at], dtype=float).reshape(-1, 3)
        self.chain = np.array([a['chain'] for a in at])
        self.name = [a['name'] for a in at]
        self.heavy = np.array([not nm.startswith('H') for nm in self.name], dtype=bool)
        self.bb = np.array([nm in BACKBONE for nm in self.name], dtype=bool)
        self.res = [(a['chain'], a['resSeq'], a['resName']) for a in at]
        self.chains = sorted(set(self.chain.tolist()))

    def dist(self, i1, i2):
        """distances between the atoms with the indices i1 and those with the indices i2 (blocks of rows)"""
        out = np.empty((len(i1), len(i2)))
        b = self.xyz[i2]
        for s in range(0, len(i1), 512):
            a = self.xyz[i1[s:s + 512]]
            out[s:s + 512] = np.sqrt(((a[:, None, :] - b[None, :, :]) ** 2).sum(-1))
        return out

    def select(self, c, bb, noH):
        m = self.chain == c
        if bb:
            m = m & self.bb
        if noH:
            m = m & self.heavy
        return np.nonzero(m)[0]

    def margin(self, cutoffs):
        """smallest | distance - cutoff | over all inter-chain pairs of atoms"""
        best = np.inf
        for c1, c2 in itertools.combinations(self.chains, 2):
            d = self.dist(np.nonzero(self.chain == c1)[0], np.nonzero(self.chain == c2)[0])
            for c in cutoffs:
                best = min(best, float(np.abs(d - c).min())) if d.size else best
        return best

    def contacts(self, c1, c2, cutoff, bb, noH):
        """C05's definition: (atoms of c1 in contact, atoms of c2 in contact, pair map of the atoms of c1)"""
        i1, i2 = self.select(c1, bb, noH), self.select(c2, bb, noH)
        if len(i1) == 0 or len(i2) == 0:
            return [], [], {}
        close = self.dist(i1, i2) <= cutoff
        pm = {int(i1[r]): [int(x) for x in i2[np.nonzero(close[r])[0]]] for r in np.nonzero(close.any(1))[0]}
        return sorted(pm), sorted(int(x) for x in i2[np.nonzero(close.any(0))[0]]), pm

    def clashes(self, c1, c2):
        i1, i2 = self.select(c1, False, True), self.select(c2, False, True)
        return int((self.dist(i1, i2) < 3.0).sum()) if len(i1) and len(i2) else 0

    def residue_contacts(self, cutoff):
        """pairs of residues of different chains having non-hydrogen atoms within the cutoff"""
        out = set()
        for c1, c2 in itertools.combinations(self.chains, 2):
            i1, i2 = self.select(c1, False, True), self.select(c2, False, True)
            if len(i1) == 0 or len(i2) == 0:
                continue
            for r, k in zip(*np.nonzero(self.dist(i1, i2) <= cutoff)):
                out.add((self.res[i1[r]], self.res[i2[k]]))
        return out


def _fnat_definition(bref, bdec, cutoff):
    cref, cdec = bref.residue_contacts(cutoff), bdec.residue_contacts(cutoff)
    return len(cref & cdec), len(cref)


def _canon_pm(r):
    return {P_int(k): sorted(P_int(x) for x in v) for k, v in r.items()}


def _canon_sets(r):
    return {str(k): sorted(P_int(x) for x in v) for k, v in r.items()}


def P_int(x):
    if isinstance(x, bool) or not isinstance(x, (int, np.integer)):
        raise TypeError('not an integer: %r' % (x,))
    return int(x)


def _first_diff(got, want):
    """a short description of where two dicts of lists differ"""
    for k in sorted(set(got) | set(want), key=str):
        g, w = got.get(k), want.get(k)
        if g != w:
            gs, ws = set(g or []), set(w or [])
            return {'key': k, 'missing': sorted(ws - gs)[:6], 'unexpected': sorted(gs - ws)[:6],
                    'reported': None if g is None else len(g), 'expected': None if w is None else len(w)}
    return None


def large_structure_specs(ctx):
    """quick: one big chain just above 2048 or 4096 records (with hydrogens, the partner at the window around position 2^k or at the end
    of the chain, at least 20 records beyond 2^k) and one just above 256 / 512 / 1024 drawn like those of the thorough tier;
    thorough: every size twice and four more, every parameter drawn at random"""
    rng = ctx.rng
    sizes = ctx.scale([rng.choice([2048, 2048, 4096]), rng.choice([256, 512, 1024])],
                      LARGE_SIZES + LARGE_SIZES + [rng.choice(LARGE_SIZES) for _ in range(4)])
    specs = []
    for k, p2 in enumerate(sizes):
        over = rng.choice([rng.randint(1, 8), rng.randint(8, 60), rng.randint(60, 250), rng.randint(250, 700)])
        where = rng.choice(['end', 'end', 'straddle', 'straddle', 'straddle', 'random'])
        hydrogens = rng.random() < 0.85
        if k == 0 and not ctx.thorough:
            over, hydrogens = max(over, 20), True
            where = where if where != 'random' else 'straddle'
        specs.append({'subseed': rng.getrandbits(48), 'n_big': p2 + over, 'power_of_two': p2, 'chains': list(rng.choice(CHAIN_PAIRS)),
                      'big_first': rng.random() < 0.7, 'hydrogens': hydrogens, 'where': where,
                      'back': rng.randint(0, over)})      # 'straddle': the window holds a position between 2^k and the last record
    return specs


def large_structure_checks(ctx):
    from pdb2sql import interface
    rng = ctx.rng
    names = ['large structures: get_contact_atoms (sets and pair map, both chain orders, filters) = brute-force evaluation of the definition',
             'large structures: compute_clashes (both chain orders) = number of inter-chain heavy-atom pairs closer than 3 A',
             'large structures: compute_fnat_fast and compute_fnat_pdb2sql = preserved reference residue contacts / reference residue contacts']
    bad = [None, None, None]
    stats = {'structures': 0, 'regenerated_near_cutoff': 0, 'sizes': [], 'contact_calls': 0, 'fnat_values': 0, 'max_ref_contacts': 0}
    cwd = os.getcwd()
    os.chdir(ctx.tmpdir())
    try:
        for spec in large_structure_specs(ctx):
            cutoffs = [5.0, rng.choice(LARGE_CUTOFFS[1:])]
            for attempt in range(8):
                rl, decoys, info = large_pair(spec)
                bref = _BF(rl)
                bdec = {k: _BF(v) for k, v in decoys.items()}
                if min(b.margin(cutoffs + [3.0]) for b in [bref] + list(bdec.values())) >= 1e-6:
                    break
                stats['regenerated_near_cutoff'] += 1
                spec = dict(spec, subseed=spec['subseed'] + 1)
            else:
                continue
            stats['structures'] += 1
            stats['sizes'].append(spec['n_big'])
            ch = bref.chains
            note = {'generator': 'props.c08.large_pair(spec) -> (reference lines, decoys, info)', 'spec': spec, 'info': info,
                    'atoms': {c: int((bref.chain == c).sum()) for c in ch}}
            # (a) contact atoms and pair map
            db = None
            try:
                db = interface(list(rl))
                combos = [(False, True), (False, False), (True, True)] + ([(True, False)] if ctx.thorough else [])
                for (c1, c2) in ((ch[0], ch[1]), (ch[1], ch[0])):
                    for bb, noH in combos:
                        cut = cutoffs[0] if (bb, noH) != (False, True) else rng.choice(cutoffs + [3.0])
                        s1, s2, pm = bref.contacts(c1, c2, cut, bb, noH)
                        kw = dict(cutoff=cut, chain1=c1, chain2=c2, only_backbone_atoms=bb, excludeH=noH)
                        for pairs in (True, False):
                            stats['contact_calls'] += 1
                            want = pm if pairs else {c1: s1, c2: s2}
                            try:
                                r = db.get_contact_atoms(return_contact_pairs=pairs, **kw)
                                got = _canon_pm(r) if pairs else _canon_sets(r)
                                diff = _first_diff(got, want)
                            except Exception as e:
                                diff = {'raised_or_unexpected_value': repr(e)[:300]}
                            if diff is not None and bad[0] is None:
                                rows = [diff.get('key')] + list(diff.get('missing', []))[:3] + list(diff.get('unexpected', []))[:3]
                                bad[0] = dict(note, call=dict(kw, return_contact_pairs=pairs), first_difference=diff,
                                              records={i: rl[i] for i in rows if isinstance(i, int) and 0 <= i < len(rl)})
                # all chains at once
                s1, s2, pm = bref.contacts(ch[0], ch[1], cutoffs[0], False, True)
                try:
                    got = _canon_pm(db.get_contact_atoms(cutoff=cutoffs[0], allchains=True, excludeH=True, return_contact_pairs=True))
                    diff = _first_diff(got, pm)
                except Exception as e:
                    diff = {'raised_or_unexpected_value': repr(e)[:300]}
                stats['contact_calls'] += 1
                if diff is not None and bad[0] is None:
                    bad[0] = dict(note, call={'cutoff': cutoffs[0], 'allchains': True, 'excludeH': True, 'return_contact_pairs': True}, first_difference=diff)
            except Exception as e:
                if bad[0] is None:
                    bad[0] = dict(note, raised=repr(e)[:300])
            finally:
                try:
                    if db is not None:
                        db._close()
                except Exception:
                    pass
            # (b) clash count, (c) Fnat
            for dname, dl in [('reference', rl)] + sorted(decoys.items()):
                b = bref if dname == 'reference' else bdec[dname]
                if dname != 'self':
                    p = write(ctx, dl)
                    orders = [(ch[0], ch[1]), (ch[1], ch[0])]
                    if dname != 'reference' and not ctx.thorough:
                        orders = [rng.choice(orders)]         # quick tier: both orders on the reference, one on the decoy
                    for (c1, c2) in orders:
                        want = b.clashes(c1, c2)
                        got = val(lambda: StructureSimilarity.compute_clashes(p, c1, c2), 'count')
                        if got != want and bad[1] is None:
                            bad[1] = dict(note, file=dname, chain1=c1, chain2=c2, compute_clashes=got, definition=want)
                    if os.path.exists(p):
                        os.remove(p)
                if dname == 'reference':
                    continue
                via_file = rng.random() < 0.5
                ref_arg, dec_arg = (write(ctx, rl), write(ctx, dl)) if via_file else (list(rl), list(dl))
                S = StructureSimilarity(dec_arg, ref_arg)
                for cut in (cutoffs if (dname != 'self' or ctx.thorough) else cutoffs[:1]):
                    n, N = _fnat_definition(bref, b, cut)
                    stats['max_ref_contacts'] = max(stats['max_ref_contacts'], N)
                    if N == 0:
                        continue
                    for route, f in (('fast', S.compute_fnat_fast), ('sql', S.compute_fnat_pdb2sql)):
                        got = val(lambda: f(cutoff=cut))
                        stats['fnat_values'] += 1
                        try:
                            ok = abs(unrat(got) - Fraction(n, N)) <= Fraction(1, 2 * 10 ** 6) + TOL and 0 <= unrat(got) <= 1
                            if dname == 'self':
                                ok = ok and got == '1/1'
                        except Exception:
                            ok = False
                        if not ok and bad[2] is None:
                            bad[2] = dict(note, decoy=dname, route=route, cutoff=cut, returned=got if isinstance(got, str) and not got[:1].isdigit() else float(unrat(got)),
                                          definition=f'{n}/{N} = {n / N:.6f}')
                for q in (ref_arg, dec_arg):
                    if isinstance(q, str) and os.path.exists(q):
                        os.remove(q)
    finally:
        os.chdir(cwd)
    enough = stats['structures'] >= 1 and stats['fnat_values'] > 0
    tail = f' ({stats["structures"]} structures, records of the big chain {stats["sizes"]}, {stats["contact_calls"]} contact calls, {stats["fnat_values"]} Fnat values, ' \
           f'up to {stats["max_ref_contacts"]} reference contacts, {stats["regenerated_near_cutoff"]} regenerated near a cutoff)'
    return [{'name': names[i] + (tail if i == 0 else ''), 'ok': bad[i] is None and enough, 'case': bad[i],
             'detail': 'generator could not build a structure' if not enough else 'independent NumPy evaluation on the text of the ATOM records; reproduce with the spec in the case',
             'kind': 'large-structure'} for i in range(3)]


def extra_checks(ctx):
    import random
    res = gen_fnat_checks(ctx)
    res += sim_gen_checks(ctx)                       # simTie: Gen/Sim.lean
    try:
        res += large_structure_checks(ctx)
    except Exception as e:                               # a crash of this harness code is a failed check with its reason, never an exit 2
        res.append({'name': 'large structures against brute-force definitions', 'ok': False, 'case': None, 'detail': 'harness error ' + repr(e)[:300]})
    cwd = os.getcwd()
    os.chdir(ctx.tmpdir())
    try:
        # 45588a8: a first-chain interface residue missing from the decoy stays in the denominator of the fast route
        ref = cg.make_complex(random.Random(1), nA=4, nB=4, hydrogens=True, gap=4.5)
        dec = ref.copy(); del dec.residues[0]
        S = StructureSimilarity(dec.lines(), ref.lines())
        a, b = val(lambda: S.compute_fnat_fast()), val(lambda: S.compute_fnat_pdb2sql())
        res.append({'name': 'first-chain interface residue missing: both routes agree and are below 1',
                    'ok': a == b and same_value(a, a) is True and not a.startswith(('ERR', 'BAD')) and unrat(a) < 1,
                    'case': {'fast': a, 'sql': b, 'ref': ref.lines(), 'decoy': dec.lines()}, 'detail': 'denominator rule'})
        # 52132bc: a decoy residue reduced to its hydrogens is treated as absent
        dec = ref.copy(); dec.residues[0]['atoms'] = [x for x in dec.residues[0]['atoms'] if x[0].startswith('H')]
        S = StructureSimilarity(dec.lines(), ref.lines())
        a, b = val(lambda: S.compute_fnat_fast()), val(lambda: S.compute_fnat_pdb2sql())
        res.append({'name': 'hydrogen-only decoy residue: both routes return the same value', 'ok': a == b and not a.startswith(('ERR', 'BAD')),
                    'case': {'fast': a, 'sql': b, 'ref': ref.lines(), 'decoy': dec.lines()}, 'detail': ''})
        # 16014ef: a blank atom name in the decoy
        dl = ref.lines(); dl[1] = dl[1][:12] + '    ' + dl[1][16:]
        S = StructureSimilarity(dl, ref.lines())
        a, b = val(lambda: S.compute_fnat_fast()), val(lambda: S.compute_fnat_pdb2sql())
        res.append({'name': 'blank atom name in the decoy: both routes return the same value', 'ok': a == b and not a.startswith(('ERR', 'BAD')),
                    'case': {'fast': a, 'sql': b, 'decoy': dl}, 'detail': ''})
    finally:
        os.chdir(cwd)
    return res


PROBE = [cg.atom_line(1, 'CA', 'ALA', 'A', 1, 0.0, 0.0, 0.0), cg.atom_line(2, 'CA', 'GLY', 'B', 1, 1.0, 2.0, 2.0)]


def known_probes(ctx):
    """C08-F2: two heavy atoms of different chains at a distance of exactly 3 A (offset (1,2,2))"""
    p = write(ctx, PROBE)
    got = val(lambda: StructureSimilarity.compute_clashes(p), 'count')
    os.remove(p)
    ans = vlib.run_driver([{'op': 'clashes', 'lines': [l + '\n' for l in PROBE], 'chain1': 'A', 'chain2': 'B', 'atoms': parsed_table(PROBE)}],
                          which='model', cluster=CLUSTER)[0]
    spec = ans['spec']['value']
    return [('clash_at_exactly_cutoff', got != spec, f'compute_clashes = {got}, pairs closer than 3 A = {spec} (model {ans["model"]})')]
