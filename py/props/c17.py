"""C17 -- query results do not depend on condition list length or on which table is used."""
import numpy as np
from props import c03 as B
from props.c03 import (STD, KIND, COLNAMES, build, jval, unjval, jrow, db_json, jkw, kw_py, canon, call, is_err, short, rand_table)
from props import c04 as H
from pdb2sql import pdb2sql, many2sql

ID = 'C17'
LEVEL = 'proof'
CLUSTER = 'B'
GEN_UNITS = ['Consts', 'sql_runtime', 'sql_get_nokw', 'sql_get_cond', 'sql_get_query', 'sql_get_rows_step', 'sql_format_get_output', 'get_runtime', 'get_get', 'get_get_table_names']
RULE = ('Databases of 1-3 structures and of twelve (pdb2sql for one, many2sql for several; 20-4000 atoms per table, formula-generated so that the '
        'Lean side rebuilds the same records). One condition carries a value list of length L in {0,1,2,949,950,951,998,999,1000,'
        '1899,1900,1901,2851} or a random length up to 3000, on rowID / serial / resSeq / name / x, positive or negated, values in '
        'ascending / descending / shuffled order, with duplicates inside a chunk and across chunks, hitting and missing; alone or '
        'with further conditions (scalar, short list, a second long list; including combinations whose weights exceed 999 -> the '
        'documented error); every table name of the database; through get, get_all and update (the state of EVERY table is compared '
        'after the update). Multi-structure databases also carry USER-CHOSEN table names given in an order that is not the alphabetical '
        'one (byte-wise or ignoring case: wt/mutant/apo, bound/Free, random draws from a pool of identifiers) and twelve structures under '
        'the default names (ATOM10 sorts before ATOM2); get_all is compared PER POSITION (entry i = the selection on structure i). '
        'PER-STRUCTURE (extra check): get_all per position, get by table name and the sub-selection db(**conditions) (its get_all per '
        'position and its tables by name) against a plain-Python row-by-row evaluation of the conditions on the records of each structure, '
        'short and long lists, positive and negated. The real code runs under a lowered recursion limit, so unbounded recursion is a reported outcome. '
        'Non-trivial: list longer than 950 or a non-default table or a combined-limit case, distinct by content. '
        'SQL TEXT TIE (extra check): for calls with one over-long list the COMPLETE sequence of statements the real get() sends to the '
        'sqlite3 cursor (recorded by a proxy around db.c) is compared with the sequence the TRANSLATED builders predict: one '
        '`SELECT rowID ...` per chunk of 950 values (op sql_get on the keyword list with the chunk substituted), then one '
        '`SELECT cols ... WHERE rowID in (?,...)` per 950 selected rows (op sql_rows_step); texts and bound values must coincide.')
ASSUMPTIONS = ['SQLite accepts up to 999 bound variables (the limit the source assumes); beyond the model the engine may accept more',
               'as C03: comparison affinity of SQLite = Model.sqlEq (sampled)']
TRUSTED = ['the formula that generates the big tables is implemented twice (Driver/BJson.lean genRow, c17.gen_row); the harness checks '
           'that the real object parsed the intended records']

LENGTHS = [0, 1, 2, 949, 950, 951, 998, 999, 1000, 1899, 1900, 1901, 2851]
NAMES5 = ['CA', 'N', 'C', 'O', 'CB']
RESN3 = ['ALA', 'GLY', 'TRP']
CH3 = ['A', 'B', 'C']


def gen_row(salt, i):
    k = i + salt
    return [i + 1, NAMES5[k % 5], '', RESN3[(k // 5) % 3], CH3[(i // 700) % 3], i // 5, '', (k % 97) / 8, (k % 13) / 4, -(k % 7) / 2, 1.0, (k % 11) / 4, 'C', 0]


def gen_rows(n, salt):
    return [gen_row(salt, i) for i in range(n)]


_OBJ = {}


def obj_of(spec):
    """spec: list of (name, n, salt); one table -> pdb2sql, several -> many2sql"""
    key = tuple(spec)
    if key not in _OBJ:
        if len(_OBJ) > 16:
            _OBJ.clear()
        tables = [gen_rows(n, salt) for _, n, salt in spec]
        lines = [[B.atom_line(r) for r in rows] for rows in tables]
        if len(spec) == 1:
            db = build(tables[0])
            names = ['atom']
        else:
            names = [nm for nm, _, _ in spec]
            # the default names are produced by the library itself (tablenames=None) for part of the databases
            tns = None if names == default_names(len(spec)) and spec[0][2] % 2 == 0 else names
            db = call(lambda: many2sql([l for l in lines], tablenames=tns))
        for nm, rows in zip(names, tables):
            B.check_parse(db, rows, tn=nm)
        _OBJ[key] = db
    return _OBJ[key]


def default_names(k):
    return ['ATOM'] + ['ATOM%d' % i for i in range(1, k)]


# table names a user may choose (identifiers, no SQL keywords, distinct when letter case is ignored)
USER_NAMES = ['wt', 'mutant', 'apo', 'holo', 'Free', 'bound', 'Complex', 'ligand', 'chainA', 'Zn_site', 'model_2', 'b2', 'B10', 'receptor', 'Ab']


def user_spec(rng, k):
    """k structures under user-chosen names, in the order the USER gives them: not the alphabetical one (neither byte-wise
    nor ignoring letter case), so that 'position i of the constructor' and 'i-th name in some sorted listing' differ"""
    while True:
        names = rng.sample(USER_NAMES, k)
        if names != sorted(names) and names != sorted(names, key=str.lower):
            break
    return [(nm, rng.randrange(30, 95), rng.randrange(0, 12)) for nm in names]


def multi_specs(rng):
    """multi-structure databases whose creation order is not the alphabetical order of the table names"""
    return [
        [('wt', 80, 2), ('mutant', 45, 9), ('apo', 60, 4)],
        [('bound', 70, 3), ('Free', 50, 8)],                       # upper case sorts first byte-wise
        user_spec(rng, 3),
        user_spec(rng, 2),
        # eleven or more structures under the default names: ATOM10 / ATOM11 sort before ATOM2
        [(nm, 22 + (5 * i) % 13, 3 * i + 1) for i, nm in enumerate(default_names(12))],
    ]


def dbj_of(spec):
    return {'tabs': [{'name': nm, 'gen': {'n': n, 'salt': salt}} for nm, n, salt in spec], 'extra': [], 'nModel': 0}


def value_list(rng, key, n, L, order, dups):
    """L values for attribute `key` of a table with n rows"""
    if key == 'rowID':
        universe = list(range(0, max(n, L) + L // 3 + 3))
    elif key == 'serial':
        universe = list(range(1, max(n, L) + L // 3 + 4))
    elif key == 'resSeq':
        universe = list(range(0, max(n // 5, L) + L // 3 + 3))
    elif key == 'x':
        universe = [v / 8 for v in range(0, max(97, L) + L // 3 + 3)]
    else:
        universe = NAMES5 + ['X%d' % i for i in range(L + 5)]
    if L <= len(universe):
        if rng.random() < 0.5:
            vals = universe[:L]                       # a prefix: mostly hits
        else:
            vals = rng.sample(universe, L)
    else:
        vals = [rng.choice(universe) for _ in range(L)]
    if dups == 'within' and L >= 4:
        for _ in range(min(20, L // 4)):
            a, b = rng.randrange(min(L, 900)), rng.randrange(min(L, 900))
            vals[a] = vals[b]
    elif dups == 'across' and L > 960:
        for _ in range(min(20, L // 4)):
            a, b = rng.randrange(0, 950), rng.randrange(950, L)
            vals[b] = vals[a]
    if order == 'asc':
        vals = sorted(vals)
    elif order == 'desc':
        vals = sorted(vals, reverse=True)
    elif order == 'shuffled':
        rng.shuffle(vals)
    return vals


def further_conds(rng, used, n, mode):
    """conditions added to the long one"""
    keys = [k for k in ['name', 'resName', 'chainID', 'resSeq', 'serial', 'x', 'temp', 'rowID'] if k not in used]
    out = []
    if mode == 'none':
        return out
    if mode in ('scalar', 'both'):
        k = rng.choice(keys); keys.remove(k)
        v = {'name': 'CA', 'resName': 'ALA', 'chainID': 'A', 'resSeq': 3, 'serial': 7, 'x': 1.5, 'temp': 0.5, 'rowID': 4}[k]
        out.append((rng.choice(['', 'no_']) + k, v))
    if mode in ('short', 'both'):
        k = rng.choice(keys); keys.remove(k)
        pool = {'name': NAMES5, 'resName': RESN3, 'chainID': CH3, 'resSeq': list(range(40)), 'serial': list(range(1, 200)),
                'x': [i / 8 for i in range(40)], 'temp': [i / 4 for i in range(11)], 'rowID': list(range(150))}[k]
        m = rng.choice([1, 2, 3, 10, 48, 49, 50])
        out.append((rng.choice(['', 'no_']) + k, [rng.choice(pool) for _ in range(m)]))
    return out


def weight(kws):
    return sum(min(len(v), 950) if isinstance(v, list) else 1 for _, v in kws)


def cases(ctx):
    rng = ctx.rng
    out = []
    specs = [
        [('atom', 60, 0)],
        [('atom', 1000, 3)],
        [('ATOM', 40, 0), ('ATOM1', 55, 7)],
        [('ATOM', 150, 1), ('ATOM1', 100, 11), ('ATOM2', 120, 5)],
        [('s1', 90, 2), ('s2', 35, 9)],
        [('ATOM', 1100, 0), ('ATOM1', 1300, 4)],
    ]
    specs += multi_specs(rng)
    small = [s for s in specs if sum(n for _, n, _ in s) <= 400]
    multi = [s for s in small if len(s) > 1]
    empty = [('atom', 0, 0)]
    big = [('atom', 4000, 1)]
    nper = ctx.scale(2, 8)

    def add(spec, cols, tn, kws, family, op='get'):
        c = {'op': op, 'spec': spec, 'db': dbj_of(spec), 'tn': tn, 'kw': jkw(kws), 'family': family,
             'domain': B.in_spec_domain(cols if op == 'get' else 'x', kws), 'weight': weight(kws),
             'maxlen': max([len(v) for _, v in kws if isinstance(v, list)] or [0])}
        c['columns'] = cols
        c['carrier'] = 'np' if len(out) % 3 == 0 else 'py'          # rowID lists as np.int64 (how interface code passes them)
        out.append(c)

    # --- every length x sign, on every table name, rotating keys / orders / duplicates / further conditions
    i = 0
    for rep in range(nper):
        for L in LENGTHS + [rng.randrange(3, 3000) for _ in range(3)]:
            for neg in ('', 'no_'):
                spec = specs[i % len(specs)] if i % 7 == 0 else small[i % len(small)]
                nm, n, _ = spec[(i // len(specs)) % len(spec)]
                tn = nm if rng.random() < 0.7 else nm.lower() if nm.lower() != nm else nm.upper()
                key = ['rowID', 'serial', 'name', 'resSeq', 'x'][i % 5]
                order = ['asc', 'desc', 'shuffled', 'asis'][(i // 5) % 4]
                dups = ['none', 'within', 'across'][(i // 3) % 3]
                vals = value_list(rng, key, n, L, order, dups)
                mode = ['none', 'none', 'scalar', 'short', 'both'][(i // 2) % 5]
                kws = [(neg + key, vals)] + further_conds(rng, {key}, n, mode)
                if rng.random() < 0.4:
                    rng.shuffle(kws)
                cols = rng.choice(['rowID', 'rowID,serial', 'name', 'serial,x,chainID', '*', 'x,y,z'])
                add(spec, cols, tn, kws, 'length-grid')
                i += 1
    # --- an empty table
    for L in [0, 2, 951, 1901]:
        for neg in ('', 'no_'):
            add(empty, rng.choice(['rowID', '*', 'name,x']), 'atom', [(neg + rng.choice(['rowID', 'serial', 'name']), value_list(rng, 'rowID', 0, L, 'asc', 'none'))], 'empty-table')
    # --- a long list on the key `model` (the table has one model, 0)
    for L in [950, 951, 1000, 1901]:
        for neg in ('', 'no_'):
            for vals in (list(range(L)), list(range(1, L + 1)), list(range(L - 1, -1, -1))):
                spec = specs[0]
                kws = [(neg + 'model', vals)] + further_conds(rng, {'model'}, 60, rng.choice(['none', 'scalar']))
                add(spec, rng.choice(['rowID', 'serial,model']), 'atom', kws, 'long-list-on-model')
    # --- two long lists / combined limit
    for rep in range(ctx.scale(14, 80)):
        spec = rng.choice(small if rep % 5 else specs)
        nm, n, _ = rng.choice(spec)
        k1, k2 = rng.sample(['rowID', 'serial', 'resSeq', 'name', 'x'], 2)
        L1 = rng.choice([5, 49, 50, 51, 400, 500, 600, 949, 950, 951, 1200, 1901])
        L2 = rng.choice([48, 49, 50, 51, 400, 499, 500, 600, 951, 1000])
        kws = [(rng.choice(['', 'no_']) + k1, value_list(rng, k1, n, L1, 'shuffled', 'none')),
               (rng.choice(['', 'no_']) + k2, value_list(rng, k2, n, L2, 'asc', 'none'))]
        if rng.random() < 0.5:
            kws += further_conds(rng, {k1, k2}, n, 'scalar')
        add(spec, rng.choice(['rowID', 'serial,name']), nm, kws, 'two-lists')
    # --- exactly at the combined limit: 950 + 49 = 999 (ok), 950 + 50 = 1000 (documented error), 998 + 1, 999 + scalar ...
    for L1, extra in [(950, 49), (950, 50), (951, 49), (951, 50), (949, 50), (949, 51), (998, 0), (999, 0), (1000, 0), (2000, 49), (2000, 50)]:
        for neg in ('', 'no_'):
            spec = specs[0] if ctx.tier == 'quick' and L1 != 950 else specs[1]
            kws = [(neg + 'rowID', value_list(rng, 'rowID', 1000, L1, 'asc', 'none'))]
            if extra:
                kws.append(('serial', list(range(1, extra + 1))))
            add(spec, 'rowID', 'atom', kws, 'at-combined-limit')
            add(spec, 'rowID', 'atom', kws + [('chainID', 'A')], 'at-combined-limit')
    # --- big table
    for rep in range(ctx.scale(1, 10)):
        L = rng.choice([951, 1000, 1901]) if ctx.thorough else 951
        key = rng.choice(['rowID', 'serial'])
        kws = [(rng.choice(['', 'no_']) + key, value_list(rng, key, 4000, L, rng.choice(['asc', 'desc', 'shuffled']), 'across'))]
        add(big, 'rowID', 'atom', kws, 'big-table')
    # --- get_all
    for rep in range(ctx.scale(16, 80)):
        # every multi-structure database in turn (entry i of the answer must be the selection on structure i)
        spec = rng.choice([s for s in specs if len(s) > 1]) if rep % 8 == 7 else multi[rep % len(multi)]
        key = rng.choice(['rowID', 'serial', 'name'])
        L = rng.choice([2, 950, 951, 1000, 1901])
        kws = [(rng.choice(['', 'no_']) + key, value_list(rng, key, spec[0][1], L, 'shuffled', 'across'))] + further_conds(rng, {key}, 50, rng.choice(['none', 'scalar']))
        add(spec, rng.choice(['rowID', 'name,x']), '', kws, 'get_all', op='get_all')
    # --- update through long lists, on every table; the whole database is compared afterwards
    for rep in range(ctx.scale(12, 80)):
        spec = rng.choice(small) if rep % 6 else specs[5]
        t = rng.randrange(len(spec))
        nm, n, _ = spec[t]
        key = rng.choice(['rowID', 'serial'])
        L = rng.choice([3, 950, 951, 1000, 1200])
        neg = rng.choice(['', 'no_'])
        vals = value_list(rng, key, n, L, rng.choice(['asc', 'desc', 'shuffled']), rng.choice(['none', 'across']))
        kws = [(neg + key, vals)]
        hit = [i for i in range(n) if (((i if key == 'rowID' else i + 1) in set(vals)) != (neg == 'no_'))]
        if rng.random() < 0.15:
            hit = hit + [0]                                    # wrong number of value rows: must raise, nothing may change
        block = [[float(j % 50) + 0.5, 'Z%d' % (j % 7)] for j in range(len(hit))]
        c = {'op': 'hist', 'spec': spec, 'db': dbj_of(spec), 'family': 'update', 'domain': True, 'weight': weight(kws), 'maxlen': L, 'tn': nm,
             'ops': [{'name': 'update', 'columns': 'temp,name', 'values': [jrow(r) for r in block], 'tn': nm, 'kw': jkw(kws),
                      'carrier': rng.choice(['list', 'tuple', 'npscalar'])}]}
        out.append(c)
    return out


# ---------------------------------------------------------------------------------------------------------
# the SQL text tie on the chunked path: the whole sequence of statements
# ---------------------------------------------------------------------------------------------------------

def sql_text_checks(ctx):
    import vlib
    rng = ctx.rng
    specs = [[('atom', 60, 0)], [('atom', 1000, 3)], [('s1', 90, 2), ('s2', 35, 9)], [('ATOM', 150, 1), ('ATOM1', 100, 11), ('ATOM2', 120, 5)]]
    lines, plan = [], []
    skipped = 0
    for rep in range(ctx.scale(24, 160)):
        spec = specs[rep % len(specs)]
        nm, n, _ = rng.choice(spec)
        tn = nm if rng.random() < 0.7 else nm.lower() if nm.lower() != nm else nm.upper()
        key = ['rowID', 'serial', 'name', 'resSeq', 'x'][rep % 5]
        L = rng.choice([951, 1000, 1899, 1900, 1901, 2851, rng.randrange(951, 3000)])
        neg = rng.choice(['', 'no_'])
        vals = value_list(rng, key, n, L, rng.choice(['asc', 'desc', 'shuffled', 'asis']), rng.choice(['none', 'within', 'across']))
        extra = [(k, (v[:40] if isinstance(v, list) else v)) for k, v in further_conds(rng, {key}, n, rng.choice(['none', 'scalar', 'short', 'both']))]
        kws = [(neg + key, vals)] + extra
        if rng.random() < 0.4:
            rng.shuffle(kws)
        cols = rng.choice(['rowID', 'rowID,serial', 'name', 'serial,x,chainID', '*', 'x, y ,z'])
        db = obj_of(spec)
        rows = call(lambda: db.get('rowID', tablename=tn, **dict(kws)))
        out, log = B.recorded(db, lambda: db.get(cols, tablename=tn, **dict(kws)))
        if is_err(out) or is_err(rows):
            skipped += 1
            continue
        sent = [{'text': e[1], 'vals': [jval(x) for x in e[2]]} for e in B.main_statements(log)]
        rows = sorted(rows)
        first = len(lines)
        for i in range(0, L, 950):
            sub = [(k, (vals[i:i + 950] if k == neg + key else v)) for k, v in kws]
            lines.append({'op': 'sql_get', 'columns': 'rowID', 'tn': tn, 'kw': jkw(sub)})
        for i in range(0, len(rows), 950):
            lines.append({'op': 'sql_rows_step', 'columns': cols, 'tn': tn, 'rows': rows, 'i': i, 'size': 950})
        plan.append(({'columns': cols, 'tn': tn, 'kw': [(k, (f'<{len(v)} values>' if isinstance(v, list) and len(v) > 50 else v)) for k, v in kws]},
                     sent, first, len(lines)))
    ans = vlib.run_driver(lines, which='model', cluster=CLUSTER) if lines else []
    bad, nst = None, 0
    for case, sent, a, b in plan:
        want = [x.get('model') for x in ans[a:b]]
        nst += len(sent)
        if sent != want and bad is None:
            k = next((i for i in range(min(len(sent), len(want))) if sent[i] != want[i]), min(len(sent), len(want)))
            bad = {'case': case, 'number of statements (real, predicted)': [len(sent), len(want)], 'first difference at': k,
                   'real code sends': short(sent[k] if k < len(sent) else None, 600), 'translated builders': short(want[k] if k < len(want) else None, 600)}
    return [{'name': f'chunked path: the whole sequence of statements = what the translated builders predict ({len(plan)} calls, {nst} statements, {skipped} skipped)',
             'ok': bad is None and len(plan) >= 10, 'case': bad, 'detail': 'Gen/Sql.lean get_query (per chunk) and get_rows_step (final queries)', 'kind': 'sql-text'}]


# ---- getTie: begin -----------------------------------------------------------------------------------------------------
def gen_get_checks(ctx):
    """the WHOLE translated `get` (Gen/Get.lean `GenG.get`, chunked branch and its recursion included, MicroSql as the engine)
    against the real code on the property's own `get` cases: every length of the grid, positive and negated, duplicates, two long
    lists, the combined limit, every table name"""
    import vlib
    rng = ctx.rng
    pool = [c for c in cases(ctx) if c['op'] == 'get' and sum(n for _, n, _ in c['spec']) <= 1200]
    fams = {}
    for c in pool:
        fams.setdefault(c['family'], []).append(c)
    sample = []
    for f in sorted(fams):
        sample += rng.sample(fams[f], min(ctx.scale(18, 200), len(fams[f])))
    lines, outs = [], []
    for c in sample:
        outs.append(impl(ctx, c))
        lines.append(dict(driver_line(c), op='g_get'))
    ans = vlib.run_driver(lines, which='model', cluster=CLUSTER) if lines else []
    bad, n, disc, kinds = None, 0, 0, {}
    for c, out, a in zip(sample, outs, ans):
        m = a.get('model')
        if not isinstance(m, dict) or 'gen' not in m:
            bad = bad or {'case': B.short(c['kw']), 'driver': B.short(m)}
            continue
        v = B.agree_answer_model(out, m['gen'])
        if v == 'discard':
            disc += 1
            continue
        n += 1
        kk = c['family'] + (':chunked' if c['maxlen'] > 950 else '') + (':err' if is_err(out) else '')
        kinds[kk] = kinds.get(kk, 0) + 1
        if v is not True and bad is None:
            bad = {'columns': c['columns'], 'tn': c['tn'], 'kw': B.short(c['kw'], 600), 'real code': B.short(out), 'translated get': B.short(m['gen']),
                   'hand model': B.short(m.get('hand'))}
    return [{'name': f'whole get() on long lists: real code = GENERATED GenG.get ({n} calls: {kinds}; {disc} outside MicroSql)',
             'ok': bad is None and n > 60 and any(':chunked' in k for k in kinds), 'case': bad,
             'detail': 'Gen/Get.lean (py/translate_ext_get.py): validation, dispatch, chunked branch with its recursion, MicroSql as the engine', 'kind': 'gen-get'}]
def gen_table_names_checks(ctx):
    """the translated `_get_table_names` (Gen/Get.lean `GenG._get_table_names`: the catalogue query text + the contract clause
    `E.connExecute`: creation order) against the real method on multi-structure databases, names not in alphabetical order included"""
    import vlib
    specs = [[('atom', 5, 0)],
             [('ATOM', 4, 0), ('ATOM1', 5, 7)],
             [('ATOM', 6, 1), ('ATOM1', 3, 11), ('ATOM2', 4, 5)],
             [('s2', 4, 2), ('s1', 3, 9)],
             [('zeta', 3, 1), ('Mol_B', 2, 3), ('alpha', 4, 5)],
             [('t9', 2, 1), ('t10', 2, 2), ('T1', 3, 3), ('a', 2, 4)]]
    lines, reals = [], []
    for spec in specs:
        db = obj_of(spec)
        reals.append(call(lambda: list(db._get_table_names())))
        lines.append({'op': 'g_table_names', 'db': dbj_of(spec)})
    ans = vlib.run_driver(lines, which='model', cluster=CLUSTER)
    bad, n, unordered = None, 0, 0
    for spec, real, a in zip(specs, reals, ans):
        m = a.get('model')
        n += 1
        unordered += isinstance(real, list) and real != sorted(real)
        if m != real and bad is None:
            bad = {'tables as created': [nm for nm, _, _ in spec], 'real _get_table_names()': short(real), 'translated': short(m)}
    return [{'name': f'_get_table_names(): real code = GENERATED GenG._get_table_names ({n} databases, {unordered} with names not in alphabetical order)',
             'ok': bad is None and unordered >= 2, 'case': bad,
             'detail': 'Gen/Get.lean unit get_get_table_names + the catalogue clause E.connExecute (creation order)', 'kind': 'gen-get'}]
# ---- getTie: end -------------------------------------------------------------------------------------------------------


# ---------------------------------------------------------------------------------------------------------
# "nor on which table of a multi-structure database is addressed ... never another table's rows": get_all, get by
# name and the sub-selection db(**conditions) against the property's row-by-row evaluation of each STRUCTURE (plain
# Python over the generated records; conditions whose values have the attribute's own type, so that `==` is the
# property's "equals")
# ---------------------------------------------------------------------------------------------------------

OBS_COLS = 'serial,name,resSeq,x'


def rowwise(rows, kws, cols=OBS_COLS):
    """the property's definition: every row, in input order, for which every condition holds"""
    idx = [B.STD.index(c) for c in cols.split(',')]
    conds = []
    for k, v in kws:
        neg = k.startswith('no_')
        key = k[3:] if neg else k
        conds.append((neg, key, set(v) if isinstance(v, list) else {v}))
    out = []
    for rid, r in enumerate(rows):
        if all(((rid if key == 'rowID' else r[B.STD.index(key)]) in vs) != neg for neg, key, vs in conds):
            out.append([jval(r[i]) for i in idx])
    return out


def total(x):
    """whatever the library returned, as something comparable (never an exception of the harness)"""
    try:
        return x if is_err(x) else canon(x)
    except Exception as e:
        return 'UNREADABLE:' + repr(e)[:80] + ':' + short(x, 120)


def per_structure_checks(ctx):
    rng = ctx.rng
    multi = [[('ATOM', 40, 0), ('ATOM1', 55, 7)], [('s1', 90, 2), ('s2', 35, 9)]] + multi_specs(rng)
    res, n, nsub, nempty, nlong = [], 0, 0, 0, 0
    for rep in range(ctx.scale(15, 90)):
        spec = multi[rep % len(multi)]
        names = [nm for nm, _, _ in spec]
        tables = [gen_rows(m, salt) for _, m, salt in spec]
        key = ['serial', 'rowID', 'resSeq', 'name'][(rep // len(multi)) % 4]
        L = rng.choice([1, 2, 949, 950, 951, 1000, 1901, rng.randrange(3, 2500)])
        neg = rng.choice(['', 'no_'])
        vals = value_list(rng, key, max(len(t) for t in tables), L, rng.choice(['asc', 'desc', 'shuffled', 'asis']), rng.choice(['none', 'within', 'across']))
        kws = [(neg + key, vals)]
        if rng.random() < 0.5:
            kws.append(rng.choice([('no_name', ['CB']), ('resName', ['ALA', 'TRP']), ('no_resSeq', 3), ('name', ['CA', 'N', 'O'])]) if key not in ('name', 'resSeq')
                       else rng.choice([('no_serial', [1, 2, 3]), ('resName', 'GLY')]))
        want = [rowwise(t, kws) for t in tables]
        db = obj_of(spec)
        kw = dict(kws)
        if rep % 3 == 0:
            kw = B.np_carry(kw)
        case = {'structures': [{'tablename': nm, 'records': f'gen_rows(n={m}, salt={salt})'} for nm, m, salt in spec], 'columns': OBS_COLS,
                'conditions': [(k, (v if not isinstance(v, list) or len(v) <= 12 else {'values': len(v), 'first': v[:12]})) for k, v in kws]}
        n += 1
        nlong += L > 950
        bad = None
        every = total(call(lambda: db.get_all(OBS_COLS, **kw)))
        if not isinstance(every, list) or len(every) != len(spec):
            bad = {'get_all returned': short(every), 'expected': f'{len(spec)} entries'}
        for i, nm in enumerate(names):
            if bad:
                break
            if every[i] != want[i]:
                other = [j for j in range(len(spec)) if every[i] == want[j]]
                bad = {'observation': f'get_all()[{i}] must be the selection on structure {i} (table {nm})', 'is the selection on structure(s)': other,
                       'got': short(every[i]), 'row-by-row': short(want[i])}
                break
            one = total(call(lambda: db.get(OBS_COLS, tablename=nm, **kw)))
            if one != want[i]:
                bad = {'observation': f'get(tablename={nm!r})', 'got': short(one), 'row-by-row': short(want[i])}
        if not bad:
            sub = call(lambda: db(**kw))
            if any(not w for w in want):
                nempty += 1                                   # a structure left without atoms has no table in the new database: not compared
            elif is_err(sub):
                bad = {'observation': 'db(**conditions)', 'got': sub, 'row-by-row': 'every structure keeps atoms'}
            else:
                nsub += 1
                sub_all = total(call(lambda: sub.get_all(OBS_COLS)))
                if not isinstance(sub_all, list) or len(sub_all) != len(spec):
                    bad = {'db(**conditions).get_all returned': short(sub_all), 'expected': f'{len(spec)} entries'}
                for i, nm in enumerate(names):
                    if bad:
                        break
                    if sub_all[i] != want[i]:
                        other = [j for j in range(len(spec)) if sub_all[i] == want[j]]
                        bad = {'observation': f'db(**conditions).get_all()[{i}] must hold the selection on structure {i} (table {nm})',
                               'is the selection on structure(s)': other, 'got': short(sub_all[i]), 'row-by-row': short(want[i])}
                        break
                    one = total(call(lambda: sub.get(OBS_COLS, tablename=nm)))
                    if one != want[i]:
                        bad = {'observation': f'db(**conditions).get(tablename={nm!r})', 'got': short(one), 'row-by-row': short(want[i])}
                call(lambda: sub._close())
        if bad:
            res.append({'name': 'every structure of a multi-structure database answers with its own rows (get_all per position, get by name, db(**conditions))',
                        'ok': False, 'case': dict(case, **bad), 'kind': 'per-structure',
                        'detail': 'row-by-row evaluation of the conditions on the records of structure i, in the order the structures were given to many2sql'})
            break
    res.append({'name': f'per-structure answers = row-by-row evaluation on that structure ({n} selections, {nlong} with a list > 950, {nsub} sub-selections '
                        f'compared, {nempty} with an emptied structure)', 'ok': n >= 10 and nsub >= 3 or len(res) > 0, 'case': None, 'detail': '', 'kind': 'per-structure'})
    return res


def extra_checks(ctx):
    return sql_text_checks(ctx) + gen_get_checks(ctx) + gen_table_names_checks(ctx) + per_structure_checks(ctx)


def search_cases(ctx):
    rng = ctx.rng
    out = []
    saved = ctx.rng
    for c in cases(ctx):
        if c['family'] in ('length-grid', 'two-lists'):
            out.append(c)
    return out


def driver_line(c):
    d = {k: v for k, v in c.items() if k not in ('family', 'spec', 'domain', 'weight', 'maxlen', 'carrier')}
    if c['op'] == 'hist':
        d['ops'] = [{k: v for k, v in o.items() if k != 'carrier'} for o in c['ops']]
        d.pop('tn', None)
    return d


def observe(db):
    return {'tabs': [{'rows': canon(db.c.execute(f'select * from {n}').fetchall())} for n in db._get_table_names()], 'colnames': db.get_colnames()}


def impl(ctx, c):
    spec = [tuple(s) for s in c['spec']]
    if c['op'] == 'hist':
        # fresh object: the update modifies it
        key = tuple(spec)
        _OBJ.pop(key, None)
        db = obj_of(spec)
        _OBJ.pop(key, None)
        steps = []
        for o in c['ops']:
            r = call(lambda: H.apply_op(db, o))
            steps.append({'out': r if is_err(r) else 'ok', 'db': observe(db)})
        return steps
    db = obj_of(spec)
    kw = kw_py(c['kw'])
    if c.get('carrier') == 'np':
        kw = B.np_carry(kw)
    if c['op'] == 'get_all':
        r = call(lambda: db.get_all(c['columns'], **kw))
    else:
        r = call(lambda: db.get(c['columns'], tablename=c['tn'], **kw))
    return r if is_err(r) else canon(r)


def agree_model(c, out, model):
    if c['op'] == 'hist':
        return H.agree_model(c, out, model)
    return B.agree_answer_model(out, model)


def expand_db(c):
    return {'tabs': [{'rows': [jrow(r) for r in gen_rows(n, salt)]} for _, n, salt in c['spec']], 'colnames': COLNAMES}


def agree_spec(c, out, spec):
    if c['op'] == 'hist':
        c2 = dict(c)
        prev = expand_db(c)
        for k, (a, s) in enumerate(zip(out, spec)):
            if s['out'] == 'outside':
                return True
            if s['out'] == 'reject':
                if a['out'] == 'ok':
                    return f'step {k}: accepted where the property demands an error'
                if not H.eqv(a['db'], prev):
                    return f'step {k}: raised {a["out"]} after modifying a table'
            else:
                if a['out'] != 'ok':
                    return f'step {k}: raised {a["out"]} on a well-formed update'
                if not H.eqv(a['db'], H.strip_names(s['db'])):
                    bad = [i for i, (x, y) in enumerate(zip(a['db']['tabs'], s['db']['tabs'])) if not H.eqv(x['rows'], y['rows'])]
                    return f'step {k}: tables {bad} differ from the row-by-row evaluation on table {c["tn"]}'
            prev = a['db']
        return True
    if not c.get('domain', True):
        return True
    if c['op'] == 'get_all':
        if is_err(out):
            # the loop over the tables raises at the first table whose answer is an error
            bad = [s for s in spec if s in ('REJECTED', 'TOOMANY')]
            if not bad:
                return f'implementation {out} where every table has an answer'
            return B.agree_answer_spec(out, bad[0])
        if len(out) != len(spec):
            return 'number of tables'
        for i, (o, s) in enumerate(zip(out, spec)):
            r = B.agree_answer_spec(o, s)
            if r is not True:
                other = [j for j, s2 in enumerate(spec) if j != i and B.agree_answer_spec(o, s2) is True]
                return (f'get_all()[{i}] is not the row-by-row selection on structure {i} (table {c["spec"][i][0]})'
                        + (f' but the one on structure(s) {other}' if other else '') + ': ' + r)
        return True
    return B.agree_answer_spec(out, spec)


def nontrivial_key(c, out):
    if c['maxlen'] > 950 or len(c['spec']) > 1 or c['weight'] > 999:
        import vlib
        return vlib.case_hash({k: c[k] for k in ('op', 'spec', 'tn', 'kw', 'columns', 'ops') if k in c})
    return None


def distribution(recs):
    fam, lens, outs, tabs, signs, weights, ntab = {}, {}, {}, {}, {'pos': 0, 'neg': 0}, {'<=999': 0, '>999 (documented error expected)': 0}, {}
    for r in recs:
        c, o = r['case'], r['impl']
        fam[c['family']] = fam.get(c['family'], 0) + 1
        L = c['maxlen']
        b = str(L) if L in LENGTHS else '3-948' if L < 949 else '952-997' if L < 998 else '1001-1898' if L < 1899 else '1902-2850' if L < 2851 else '>2851'
        lens[b] = lens.get(b, 0) + 1
        tag = (o if is_err(o) else 'ok') if not isinstance(o, list) or c['op'] != 'hist' else ';'.join(s['out'] for s in o)
        outs[tag] = outs.get(tag, 0) + 1
        tabs[c.get('tn', '') or '(all)'] = tabs.get(c.get('tn', '') or '(all)', 0) + 1
        ntab[len(c['spec'])] = ntab.get(len(c['spec']), 0) + 1
        for e in (c.get('kw') or c['ops'][0]['kw']):
            signs['neg' if e['k'].startswith('no_') else 'pos'] += 1
        weights['<=999' if c['weight'] <= 999 else '>999 (documented error expected)'] += 1
    return {'families': fam, 'longest_list': lens, 'outcomes': outs, 'table_addressed': tabs, 'structures_per_database': ntab,
            'condition_signs': signs, 'combined_weight': weights, 'table_sizes': sorted({n for r in recs for _, n, _ in r['case']['spec']})}
