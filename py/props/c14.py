"""C14 -- contact residues and residue extension are exact projections / closures of the contact atoms."""
import itertools, json
from pdb2sql import interface
from props import c05
from props.c05 import (impl, driver_line, agree_model, agree_spec, nontrivial_key, distribution, struct_key, result_size,   # noqa: F401
                       gen_structure, to_lines, atom_line, CUTS, BACKBONE)

ID = 'C14'
LEVEL = 'proof'
CLUSTER = 'C'
GEN_UNITS = ['Consts']
RULE = ('the C05 generator (2-5 chains on a 1/4-Angstrom lattice with distances exactly on / one step inside / outside the cutoffs 3, 5, 7, 8.5, 9; '
        'hydrogens, non-backbone and blank names) with residue tricks switched on: the same residue number shared across chains (60% of the chains '
        'start at a common number), the same number with a different residue name inside a chain, numbering that goes back, negative numbers. '
        'Every structure is run through get_contact_atoms(extend_to_residue=True) and through get_contact_residues with 2 cutoffs x all ordered chain '
        'pairs x the 8 combinations of only_backbone_atoms/excludeH/return_contact_pairs, and with allchains x the same 8; plus the malformed stream '
        '(unknown chain, chain with itself, single-chain allchains, zero / negative cutoff) and the bundled 3CRO at 8.5 / 6.0 A (thorough: all chains of 3CRO, 3CRO_H, 1AK4 target). '
        'A case is counted non-trivial when its result is non-empty or an exception, distinct by (structure, arguments).')
ASSUMPTIONS = list(c05.ASSUMPTIONS) + [
    'SQLite compares resSeq (INT column) with Python ints and resName / chainID (TEXT) with Python strs exactly (no affinity surprises for the generated values)',
    'the iteration order of set(dataA) in _extend_contact_to_residue is irrelevant (the result is sorted(set(.)) of a union); the model iterates in first-occurrence order']
TRUSTED = list(c05.TRUSTED)


def corpus(ctx):
    return c05.corpus(ctx, 'contact_atoms', extends=(True,)) + c05.corpus(ctx, 'contact_residues')


def cases(ctx):
    out = c05.structure_cases(ctx, 'contact_atoms', ctx.scale(12, 90), family='extend', extends=(True,))
    out += c05.structure_cases(ctx, 'contact_residues', ctx.scale(14, 90), family='residues')
    out += c05.malformed_cases(ctx, 'contact_residues', ctx.scale(4, 30))
    out += c05.file_cases(ctx, 'contact_atoms', extends=(True,))
    out += c05.file_cases(ctx, 'contact_residues', heavy=False)
    return out


def search_cases(ctx):
    return c05.search_cases(ctx, 'contact_atoms', extends=(True,)) + c05.search_cases(ctx, 'contact_residues')


def extra_checks(ctx):
    """the residue view against the atom view of the same call, and the closure computed from the table (real code only)"""
    rng = ctx.rng
    res = []
    bad_proj = bad_pairs = bad_ext = None
    n = ctx.scale(40, 400)
    for _ in range(n):
        table = gen_structure(rng)
        lines = to_lines(table)
        chains = sorted(set(l[21] for l in lines))
        db = interface(lines)
        rows = db.get('chainID,resSeq,resName,name')
        key = [(r[0], int(r[1]), r[2]) for r in rows]
        cut = rng.choice(CUTS)
        bb, noH, allc = rng.random() < 0.5, rng.random() < 0.5, rng.random() < 0.4
        a, b = rng.sample(chains, 2)
        kw = dict(cutoff=cut, only_backbone_atoms=bb, excludeH=noH, allchains=allc, chain1=a, chain2=b)
        atoms = {k: [int(i) for i in v] for k, v in db.get_contact_atoms(**kw).items()}
        pairs = {int(k): [int(i) for i in v] for k, v in db.get_contact_atoms(return_contact_pairs=True, **kw).items()}
        resid = {k: [(x[0], int(x[1]), x[2]) for x in v] for k, v in db.get_contact_residues(**kw).items()}
        rpairs = {(k[0], int(k[1]), k[2]): [(x[0], int(x[1]), x[2]) for x in v]
                  for k, v in db.get_contact_residues(return_contact_pairs=True, **kw).items()}
        ext = {k: [int(i) for i in v] for k, v in db.get_contact_atoms(extend_to_residue=True, **kw).items()}
        proj = {k: sorted(set(key[i] for i in v)) for k, v in atoms.items()}
        if proj != resid:
            bad_proj = bad_proj or {'lines': lines, 'kw': kw, 'residues': resid, 'projection': proj}
        pp = {}
        for i, js in pairs.items():
            pp.setdefault(key[i], set()).update(key[j] for j in js)
        pp = {k: sorted(v) for k, v in pp.items()}
        if pp != rpairs:
            bad_pairs = bad_pairs or {'lines': lines, 'kw': kw, 'residue_pairs': {str(k): v for k, v in rpairs.items()},
                                      'projection': {str(k): v for k, v in pp.items()}}
        clo = {}
        for ch, v in atoms.items():
            owners = set(key[i] for i in v)
            clo[ch] = [i for i in range(len(rows)) if key[i] in owners and (not bb or rows[i][3] in BACKBONE)]
        if clo != ext:
            bad_ext = bad_ext or {'lines': lines, 'kw': kw, 'extended': ext, 'closure': clo}
        db._close()
    res.append({'name': f'contact residues = distinct triples of the contact atoms of the same call ({n} structures)', 'ok': bad_proj is None,
                'case': bad_proj, 'detail': ''})
    res.append({'name': 'residue pair map = projection of the atom pair map of the same call', 'ok': bad_pairs is None, 'case': bad_pairs, 'detail': ''})
    res.append({'name': 'extend_to_residue = closure of the unextended result (all atoms / all backbone atoms of every owning residue)',
                'ok': bad_ext is None, 'case': bad_ext, 'detail': ''})
    return res
