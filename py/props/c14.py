"""C14 -- contact residues and residue extension are exact projections / closures of the contact atoms."""
import itertools, json
from pdb2sql import interface
from props import c05
from props.c05 import (impl, driver_line, agree_model, agree_spec, nontrivial_key, distribution, struct_key, result_size,   # noqa: F401
                       gen_structure, to_lines, atom_line, CUTS, BACKBONE)

ID = 'C14'
LEVEL = 'proof'
CLUSTER = 'C'
GEN_UNITS = ['Consts', 'contacts_attrs', 'contacts_get_chains', 'contacts_extend_to_residue', 'contacts_get_contact_atoms',
             'contacts_get_contact_residues']
RULE = ('the C05 generator (2-5 chains on a 1/4-Angstrom lattice with distances exactly on / one step inside / outside the cutoffs 3, 5, 7, 8.5, 9; '
        'hydrogens, non-backbone and blank names) with residue tricks switched on: the same residue number shared across chains (60% of the chains '
        'start at a common number), the same number with a different residue name inside a chain, numbering that goes back, negative numbers. '
        'Every structure is run through get_contact_atoms(extend_to_residue=True) and through get_contact_residues with 2 cutoffs x all ordered chain '
        'pairs x the 8 combinations of only_backbone_atoms/excludeH/return_contact_pairs, and with allchains x the same 8; plus the malformed stream '
        '(unknown chain, chain with itself, single-chain allchains, zero / negative cutoff), the C05 histories (one live object, calls alternating with '
        'edits of one chain through the public API, each call judged on the table read back at that moment), no-contact / all-filtered-out structures '
        'for every option combination in both modes, and the bundled 3CRO at 8.5 / 6.0 A (thorough: all chains of 3CRO, 3CRO_H, 1AK4 target). '
        'A case is counted non-trivial when its result is non-empty or an exception, distinct by (structure, arguments).')
ASSUMPTIONS = list(c05.ASSUMPTIONS) + [
    'SQLite compares resSeq (INT column) with Python ints and resName / chainID (TEXT) with Python strs exactly (no affinity surprises for the generated values)',
    'the iteration order of set(dataA) in _extend_contact_to_residue is irrelevant (the result is sorted(set(.)) of a union); the model iterates in first-occurrence order']
TRUSTED = list(c05.TRUSTED)


def corpus(ctx):
    return c05.corpus(ctx, 'contact_atoms', extends=(True,)) + c05.corpus(ctx, 'contact_residues')


def cases(ctx):
    out = c05.structure_cases(ctx, 'contact_atoms', ctx.scale(12, 90), family='extend', extends=(True,))
    out += c05.structure_cases(ctx, 'contact_residues', ctx.scale(14, 90), family='residues')
    out += c05.malformed_cases(ctx, 'contact_residues', ctx.scale(4, 30))
    out += c05.history_cases(ctx, ['contact_residues', 'contact_atoms', 'extend'], ctx.scale(60, 500))
    out += c05.file_cases(ctx, 'contact_atoms', extends=(True,))
    out += c05.file_cases(ctx, 'contact_residues', heavy=False)
    return out


def search_cases(ctx):
    return c05.search_cases(ctx, 'contact_atoms', extends=(True,)) + c05.search_cases(ctx, 'contact_residues')


def _views(lines, kw, bb):
    """residue view / closure relations between calls of the real code on one structure; {} when all hold"""
    bad = {}
    db = interface(lines)
    rows = db.get('chainID,resSeq,resName,name')
    key = [(r[0], int(r[1]), r[2]) for r in rows]
    tup = lambda x: (c05.as_str(x[0]), c05.as_int(x[1]), c05.as_str(x[2]))
    kwj = {k: (float(v) if k == 'cutoff' else v) for k, v in kw.items()}
    atoms = {c05.as_str(k): [c05.as_int(i) for i in v] for k, v in db.get_contact_atoms(**kw).items()}
    pairs = {c05.as_int(k): [c05.as_int(i) for i in v] for k, v in db.get_contact_atoms(return_contact_pairs=True, **kw).items()}
    resid = {c05.as_str(k): [tup(x) for x in v] for k, v in db.get_contact_residues(**kw).items()}
    rpairs = {tup(k): [tup(x) for x in v] for k, v in db.get_contact_residues(return_contact_pairs=True, **kw).items()}
    ext = {c05.as_str(k): [c05.as_int(i) for i in v] for k, v in db.get_contact_atoms(extend_to_residue=True, **kw).items()}
    proj = {k: sorted(set(key[i] for i in v)) for k, v in atoms.items()}
    if proj != resid:
        bad['proj'] = {'lines': lines, 'kw': kwj, 'residues': resid, 'projection': proj}
    pp = {}
    for i, js in pairs.items():
        pp.setdefault(key[i], set()).update(key[j] for j in js)
    pp = {k: sorted(v) for k, v in pp.items()}
    if pp != rpairs:
        bad['pairs'] = {'lines': lines, 'kw': kwj, 'residue_pairs': {str(k): v for k, v in rpairs.items()},
                        'projection': {str(k): v for k, v in pp.items()}}
    clo = {}
    for ch, v in atoms.items():
        owners = set(key[i] for i in v)
        clo[ch] = [i for i in range(len(rows)) if key[i] in owners and (not bb or rows[i][3] in BACKBONE)]
    if clo != ext:
        bad['ext'] = {'lines': lines, 'kw': kwj, 'extended': ext, 'closure': clo}
    db._close()
    return bad


def extra_checks(ctx):
    """the residue view against the atom view of the same call, and the closure computed from the table (real code only)"""
    rng = ctx.rng
    res = []
    bad_proj = bad_pairs = bad_ext = None
    n = ctx.scale(40, 400)
    for _ in range(n):
        table = gen_structure(rng)
        lines = to_lines(table)
        chains = sorted(set(l[21] for l in lines))
        cut = rng.choice(CUTS)
        bb, noH, allc = rng.random() < 0.5, rng.random() < 0.5, rng.random() < 0.4
        a, b = rng.sample(chains, 2)
        kw = dict(cutoff=cut, only_backbone_atoms=bb, excludeH=noH, allchains=allc, chain1=a, chain2=b)
        try:
            r = _views(lines, kw, bb)
        except Exception as e:       # an unexpected return shape or an exception of the library is a finding, not a harness failure
            r = {'proj': {'lines': lines, 'kw': {k: (float(v) if k == 'cutoff' else v) for k, v in kw.items()}, 'raised': repr(e)[:300]}}
        bad_proj = bad_proj or r.get('proj')
        bad_pairs = bad_pairs or r.get('pairs')
        bad_ext = bad_ext or r.get('ext')
    res.append({'name': f'contact residues = distinct triples of the contact atoms of the same call ({n} structures)', 'ok': bad_proj is None,
                'case': bad_proj, 'detail': ''})
    res.append({'name': 'residue pair map = projection of the atom pair map of the same call', 'ok': bad_pairs is None, 'case': bad_pairs, 'detail': ''})
    res.append({'name': 'extend_to_residue = closure of the unextended result (all atoms / all backbone atoms of every owning residue)',
                'ok': bad_ext is None, 'case': bad_ext, 'detail': ''})
    return res
