"""C11 -- scores are invariant under changes that do not alter the structural relation (cluster E)."""
import os, math, warnings, hashlib, json, itertools
from fractions import Fraction
import numpy as np
from vlib import rat, unrat, exc_tag
import complexgen as cg
from pdb2sql import StructureSimilarity
from props import c07 as base

ID = 'C11'
LEVEL = 'proof'
CLUSTER = 'E'
GEN_UNITS = ['zone_line', 'read_zone_line', 'rotate',
             # simTie: Props/C11K2.lean (metamorphic relations transferred to the generated routes)
             'sim_runtime', 'sim_check_residues', 'sim_get_identical_atoms', 'sim_compute_lrmsd_pdb2sql', 'sim_compute_irmsd_pdb2sql',
             'sim_compute_fnat_pdb2sql', 'sim_compute_clashes', 'rmsd_runtime', 'rmsd_compute_residue_pairs_ref', 'rmsd_compute_fnat_fast']
MODELS = base.MODELS
RULE = ('a synthetic two-chain complex (chains A/B, as in C07: jittered / rigidly displaced / incomplete decoys) and a transformed copy: '
        '(1) one of the 24 lattice rotations + a millesimal translation applied EXACTLY in integer milli-Angstrom to the decoy, or to decoy and '
        'reference (all values must be identical); (2) an arbitrary proper rigid motion, coordinates re-rounded to the text precision (RMSDs within '
        '0.002, Fnat / clashes identical); (3) new serial numbers, occupancies, B-factors and element fields in the record text (identical); '
        '(4) a constant added to all residue numbers of both structures, numbers staying in [-999, 9999] (identical); (5) hydrogens (names starting '
        'with H) added to decoy and reference (Fnat, clashes identical); (6) record permutations within residues / of residues within chains / of '
        'chain blocks / interleaved residues, of the decoy, the reference or both, with both enforcement settings (same value or an exception, '
        'never another number). Pairs with an inter-chain distance within 0.01 A of a cutoff (3, 5, 10) are regenerated and counted. Each case is '
        'also sent to the Lean driver, which evaluates the models and the Spec on both copies and checks the stated relation between their outputs '
        '(pair lists mapped pointwise by the motion / unchanged / keys shifted / permuted-or-error). Non-trivial = distinct (complex, change).')
ASSUMPTIONS = ['RMSD values of an exactly transformed copy may differ by one unit of the third decimal when the unrounded value is within 1e-6 of a '
               'rounding tie (float evaluation of the kernel on rotated coordinates): such cases are discarded and counted',
               'arbitrary rigid motions are re-rounded to 3 decimals: RMSD tolerance 0.002; contacts compared only with a 0.01 A margin to every cutoff',
               'compute_clashes is called with the default chains A, B (the generated complexes use these chain identifiers)']
TRUSTED = base.TRUSTED

SCORES = ['irmsd_fast', 'irmsd_sql', 'lrmsd_fast', 'lrmsd_sql', 'fnat_fast', 'fnat_sql', 'clashes', 'dockq', 'capri']
RMSDS = ['irmsd_fast', 'irmsd_sql', 'lrmsd_fast', 'lrmsd_sql']
KINDS = ['rigid_exact', 'rigid', 'columns', 'renumber', 'hydrogens', 'permute']
ZONE_KINDS = ('rigid_exact', 'rigid', 'renumber')          # relations also run through zone files (written, then read back)
ZONE_ROUTES = {'irmsd_fast_zone_written': 'irmsd_fast', 'irmsd_fast_zone_read': 'irmsd_fast', 'irmsd_sql_zone_read': 'irmsd_sql',
               'lrmsd_fast_zone_written': 'lrmsd_fast', 'lrmsd_fast_zone_read': 'lrmsd_fast'}
H_NAMES = [('H', 'H'), ('HA', 'H'), ('HB2', 'H'), ('HD21', 'H'), ('HG', 'H')]
regenerated = [0]


# ---------------------------------------------------------------------------------------------------------------------
# the real code
# ---------------------------------------------------------------------------------------------------------------------

_cache = {}


def scores(ctx, dec_lines, ref_lines, enforce, cutoff=10.0, zones=False):
    key = hashlib.sha1(json.dumps([dec_lines, ref_lines, enforce, cutoff, zones]).encode()).hexdigest()
    if key in _cache:
        return _cache[key]
    df, rf = base.write_file(ctx, dec_lines, 'dec'), base.write_file(ctx, ref_lines, 'ref')
    S = StructureSimilarity(df, rf, enforce_residue_matching=enforce)

    def call(f, kind=float):
        try:
            with warnings.catch_warnings():
                warnings.simplefilter('ignore')
                v = f()
            return kind(v)
        except Exception as e:
            return exc_tag(e)
    o = {}
    o['irmsd_fast'] = call(lambda: S.compute_irmsd_fast(cutoff=cutoff))
    o['irmsd_sql'] = call(lambda: S.compute_irmsd_pdb2sql(cutoff=cutoff))
    o['lrmsd_fast'] = call(lambda: S.compute_lrmsd_fast())
    o['lrmsd_sql'] = call(lambda: S.compute_lrmsd_pdb2sql())
    o['fnat_fast'] = call(lambda: S.compute_fnat_fast())
    o['fnat_sql'] = call(lambda: S.compute_fnat_pdb2sql())
    o['clashes'] = call(lambda: S.compute_clashes(df), int)
    if all(isinstance(o[k], float) for k in ('fnat_fast', 'lrmsd_fast', 'irmsd_fast')):
        o['dockq'] = call(lambda: S.compute_DockQScore(o['fnat_fast'], o['lrmsd_fast'], o['irmsd_fast']))
        o['capri'] = call(lambda: S.compute_CapriClass(o['fnat_fast'], o['lrmsd_fast'], o['irmsd_fast']), str)
    else:
        o['dockq'] = o['capri'] = 'ERR:undefined'
    if zones:
        # zone-file routes: every fast routine twice with the same fresh file name (absent -> written, present -> read),
        # the SQL i-RMSD routine with that file
        base._counter[0] += 1
        izf = os.path.join(ctx.tmpdir(), 'm.izone')          # same names from run to run; absent before the library writes them
        lzf = os.path.join(ctx.tmpdir(), 'm.lzone')
        for zf in (izf, lzf):
            if os.path.exists(zf):
                os.remove(zf)
        o['irmsd_fast_zone_written'] = call(lambda: S.compute_irmsd_fast(izone=izf, cutoff=cutoff))
        o['irmsd_fast_zone_read'] = call(lambda: S.compute_irmsd_fast(izone=izf, cutoff=cutoff))
        o['irmsd_sql_zone_read'] = call(lambda: S.compute_irmsd_pdb2sql(izone=izf, cutoff=cutoff))
        o['lrmsd_fast_zone_written'] = call(lambda: S.compute_lrmsd_fast(lzone=lzf))
        o['lrmsd_fast_zone_read'] = call(lambda: S.compute_lrmsd_fast(lzone=lzf))
    # unrounded RMSDs (the same routines with the final rounding removed): used only to recognise rounding ties
    raw = {}

    class Raw(StructureSimilarity):
        @staticmethod
        def get_rmsd(P, Q):
            return float(np.sqrt(1. / len(P) * np.sum((P - Q) ** 2)))
    R = Raw(df, rf, enforce_residue_matching=enforce)
    raw['irmsd_fast'] = call(lambda: R.compute_irmsd_fast(cutoff=cutoff))
    raw['irmsd_sql'] = call(lambda: R.compute_irmsd_pdb2sql(cutoff=cutoff))
    raw['lrmsd_fast'] = call(lambda: R.compute_lrmsd_fast())
    raw['lrmsd_sql'] = call(lambda: R.compute_lrmsd_pdb2sql())
    o['raw'] = raw
    _cache[key] = o
    return o


def impl(ctx, c):
    cutoff = float(unrat(c['cutoff']))
    zones = c['kind'] in ZONE_KINDS
    return {'base': scores(ctx, c['base']['dec'], c['base']['ref'], c['enforce'], cutoff, zones),
            'var': scores(ctx, c['var']['dec'], c['var']['ref'], c['enforce'], cutoff, zones),
            'rows': {s: {k: base.rows_of_lines(ctx, c[s][k]) for k in ('dec', 'ref')} for s in ('base', 'var')}}


def driver_line(c, out):
    d = {k: v for k, v in c.items() if k not in ('family', 'detail')}
    rows = out.get('rows', {}) if isinstance(out, dict) else {}
    for s in ('base', 'var'):
        d[s] = {'dec': c[s]['dec'], 'ref': c[s]['ref'],
                'dec_rows': rows.get(s, {}).get('dec'), 'ref_rows': rows.get(s, {}).get('ref')}
    return d


# ---------------------------------------------------------------------------------------------------------------------
# the relation the property states, on the library's values
# ---------------------------------------------------------------------------------------------------------------------

def is_err(v):
    return isinstance(v, str) and v.startswith('ERR')


def near_tie(x):
    """x (unrounded) within 1e-6 of a rounding tie of the third decimal"""
    if not isinstance(x, float) or math.isnan(x):
        return True
    f = x * 1000.0 - math.floor(x * 1000.0)
    return abs(f - 0.5) < 1e-3


def relation(kind, b, v):
    """True | 'discard' | reason: the property's claim between the scores of the base pair and of the changed pair"""
    verdicts = []
    names = SCORES if kind != 'hydrogens' else ['fnat_fast', 'fnat_sql', 'clashes']
    for s in names:
        x, y = b[s], v[s]
        if kind == 'permute':
            if is_err(y):
                verdicts.append(True); continue          # an explicit error
            if is_err(x):
                # the base raised (e.g. enforcement + missing atoms) and the reordered copy returns a number: the number
                # cannot be "a different number" than a value that does not exist; accepted
                verdicts.append(True); continue
        if is_err(x) or is_err(y):
            verdicts.append(True if x == y else f'{s}: {x} -> {y}'); continue
        if s == 'capri':
            if x != y:
                verdicts.append('discard' if kind in ('rigid', 'rigid_exact') and b['dockq'] != v['dockq'] and abs(b['dockq'] - v['dockq']) < 2e-3 else f'capri: {x} -> {y}')
            else:
                verdicts.append(True)
            continue
        if x == y:
            verdicts.append(True); continue
        if s in RMSDS:
            if kind == 'rigid':
                verdicts.append(True if abs(x - y) <= 0.002 + 1e-9 else f'{s}: {x} -> {y} (rigid motion, tolerance 0.002)')
            elif abs(x - y) <= 0.001 + 1e-9 and (near_tie(b['raw'].get(s)) or near_tie(v['raw'].get(s))):
                verdicts.append('discard')
            else:
                verdicts.append(f'{s}: {x} -> {y}')
        elif s == 'dockq':
            tol = 1e-3 if kind == 'rigid' else 2e-6
            verdicts.append(('discard' if kind != 'rigid' else True) if abs(x - y) <= tol else f'dockq: {x} -> {y}')
        else:
            verdicts.append(f'{s}: {x} -> {y}')
    return base.merge(verdicts)


def zone_routes(out):
    """the value obtained through a zone file (written by the first call, read by the later ones) is the no-zone-file value"""
    verdicts = [True]
    for side in ('base', 'var'):
        o = out[side]
        for zr, plain in ZONE_ROUTES.items():
            if zr in o and o[zr] != o[plain]:
                verdicts.append(f'{zr} on the {side} pair: {o[zr]} but {plain} without a zone file gives {o[plain]}')
    return base.merge(verdicts)


def agree_spec(c, out, spec):
    if not spec.get('defined', True):
        return 'discard'
    verdicts = []
    if not spec['premise']:
        verdicts.append('harness: the changed copy is not the stated transform of the base (Spec premise false)')
    if spec['consistent']:
        for k in ('irmsd', 'lrmsd_fit', 'lrmsd_eval', 'fnat', 'clashes'):
            if spec[k] is False:
                verdicts.append(f'Spec: the {k} object of the changed pair is not the image of the base pair\'s')
    verdicts.append(relation(c['kind'], out['base'], out['var']))
    verdicts.append(zone_routes(out))
    return base.merge(verdicts)


def agree_model(c, out, model):
    verdicts = []
    for r in RMSDS:
        m = model[r]
        for side in ('base', 'var'):
            got = out[side][r]
            cls = got if is_err(got) else 'value'
            if 'UNMODELLED' in m[side]:
                verdicts.append('discard')
            elif cls != m[side]:
                verdicts.append(f'{r} on the {side} pair: library {cls}, model {m[side]}')
        if not m['rel']:
            verdicts.append(f'model: outputs of {r} on the changed pair are not related to those on the base pair as the property states')
    for side, key in (('base', 'clashes_base'), ('var', 'clashes_var')):
        got = out[side]['clashes']
        if got != model[key]:
            verdicts.append(f'clash count of the {side} decoy: library {got}, model {model[key]}')
    for k in ('clashes', 'residue_pairs'):
        if model.get(k) is False:
            verdicts.append(f'model: {k} changed')
    return base.merge(verdicts)


def nontrivial_key(c, out):
    return [c['kind'], c.get('detail'), hashlib.sha1(json.dumps([c['base'], c['var']]).encode()).hexdigest()[:12], c['enforce']]


def distribution(recs):
    d, errs = {}, 0
    for r in recs:
        k = r['case']['kind'] + ':' + str(r['case'].get('detail'))
        d[k] = d.get(k, 0) + 1
        if isinstance(r['impl'], dict) and 'var' in r['impl']:
            errs += sum(1 for s in RMSDS if is_err(r['impl']['var'][s]))
    return {'kinds': d, 'rmsd_routine_errors_on_changed_copies': errs, 'regenerated_near_a_cutoff': regenerated[0], 'cases': len(recs)}


# ---------------------------------------------------------------------------------------------------------------------
# changes
# ---------------------------------------------------------------------------------------------------------------------

def margins_ok(cx, cutoffs=(3.0, 5.0, 10.0), margin=0.01):
    """no inter-chain distance within `margin` of a cutoff"""
    P = cg.parse_lines(cx.lines())
    xyz = np.array([p['xyz'] for p in P])
    ch = np.array([p['chain'] for p in P])
    chains = sorted(set(ch))
    if len(chains) != 2:
        return True
    A, B = xyz[ch == chains[0]], xyz[ch == chains[1]]
    d = np.sqrt(((A[:, None, :] - B[None, :, :]) ** 2).sum(-1))
    return not any((np.abs(d - c) < margin).any() for c in cutoffs)


def gen_base(rng, kinds=('jitter', 'rigid', 'del_dec', 'jitter'), hydrogens=None, margin=1e-6):
    for _ in range(200):
        kind = rng.choice(kinds)
        nA, nB = rng.randint(3, 8), rng.randint(3, 8)
        ref = cg.make_complex(rng, nA=nA, nB=nB, chains=('A', 'B'), hydrogens=hydrogens, gap=rng.choice([3.5, 4.5, 6.0, 8.0]))
        for r in ref.residues:      # names not starting with H only, unless they are hydrogens by the library's convention
            r['atoms'] = [a for a in r['atoms'] if a[0] != '1HB']
        dec = cg.jitter(rng, ref, rng.choice([0.2, 0.5, 1.0]))
        if kind == 'rigid':
            dec = cg.rigid_move(rng, dec, which=rng.choice(['all', 'B']), shift=5.0)
        if kind == 'del_dec':
            dec = cg.delete_some(rng, dec, n_res=rng.randint(0, 1), n_atoms=rng.randint(1, 2))
        if margins_ok(ref, margin=margin) and margins_ok(dec, margin=margin):
            return ref, dec
        regenerated[0] += 1
    return ref, dec


def milli(cx):
    return [[(n, e, tuple(int(round(v * 1000)) for v in xyz)) for (n, e, xyz) in r['atoms']] for r in cx.residues]


def move_exact(cx, R, t_milli):
    out = cx.copy()
    for r in out.residues:
        new = []
        for (n, e, xyz) in r['atoms']:
            v = np.array([int(round(x * 1000)) for x in xyz], dtype=np.int64)
            w = R.astype(np.int64) @ v + np.array(t_milli, dtype=np.int64)
            new.append((n, e, tuple(int(x) / 1000.0 for x in w)))
        r['atoms'] = new
    return out


def move_float(cx, R, t):
    out = cx.copy()
    for r in out.residues:
        r['atoms'] = [(n, e, tuple(round(float(v), 3) for v in (R @ np.array(xyz) + t))) for (n, e, xyz) in r['atoms']]
    return out


def change_columns(rng, lines):
    out = []
    for l in lines:
        serial = rng.choice([rng.randint(1, 99999), rng.randint(1, 50), 1])
        occ = rng.choice(['  1.00', '  0.50', '  0.00', '      ', '%6.2f' % rng.random()])
        temp = rng.choice(['  0.00', ' 99.99', '      ', '%6.2f' % rng.uniform(0, 80)])
        el = rng.choice([' C', ' N', ' O', ' S', ' H', 'FE', '  ', 'XX'])
        l = l.ljust(80)
        out.append(l[:6] + '%5d' % serial + l[11:54] + occ + temp + l[66:76] + el + l[78:])
    return out


def add_hydrogens(rng, cx):
    """the record lines of `cx` (serial numbers as in cx.lines()) with hydrogen records inserted anywhere inside the residues"""
    out, serial, hs = [], 1, 90000
    for r in cx.residues:
        have = {a[0] for a in r['atoms']}
        base_xyz = r['atoms'][0][2]
        lines = []
        for (name, el, xyz) in r['atoms']:
            lines.append(cg.atom_line(serial, name, r['resName'], r['chain'], r['resSeq'], xyz[0], xyz[1], xyz[2], element=el)); serial += 1
        for (nm, el) in H_NAMES:
            if nm not in have and rng.random() < 0.5:
                xyz = tuple(round(base_xyz[i] + rng.uniform(-1.1, 1.1), 3) for i in range(3))
                lines.insert(rng.randint(0, len(lines)), cg.atom_line(hs, nm, r['resName'], r['chain'], r['resSeq'], xyz[0], xyz[1], xyz[2], element=el))
                hs += 1
        out += lines
    return out


def mk(kind, detail, bd, br, vd, vr, enforce, extra=None, cutoff=10):
    c = {'op': 'meta', 'kind': kind, 'detail': detail, 'base': {'dec': list(bd), 'ref': list(br)}, 'var': {'dec': list(vd), 'ref': list(vr)},
         'cutoff': rat(Fraction(str(cutoff))), 'check': True, 'enforce': enforce}
    c.update(extra or {})
    return c


def motion_json(R, t):
    return {'R': [rat(Fraction(int(x))) if float(x).is_integer() else rat(float(x)) for x in np.array(R).flatten()],
            't': [rat(Fraction(str(x))) if not isinstance(x, Fraction) else rat(x) for x in t]}


def one_case(rng, kind, k):
    enforce = k % 2 == 1
    if kind == 'rigid_exact':
        ref, dec = gen_base(rng)
        R = cg.lattice_rotations()[rng.randrange(24)]
        tm = [rng.randint(-20000, 20000) for _ in range(3)]
        if k % 4 == 1:
            # far from the origin, still inside the PDB coordinate columns (positive: the field holds -999.999 .. 9999.999)
            tm = [rng.randint(2000000, 8000000) for _ in range(3)]
        which = 'both' if k % 3 == 0 else 'dec'
        vd = move_exact(dec, R, tm)
        vr = move_exact(ref, R, tm) if which == 'both' else ref
        return mk(kind, which, dec.lines(), ref.lines(), vd.lines(), vr.lines(), enforce,
                  {'motion': motion_json(R, [Fraction(x, 1000) for x in tm]), 'which': which})
    if kind == 'rigid':
        for _ in range(50):
            ref, dec = gen_base(rng, margin=0.01)
            R = cg.rot_matrix(rng)
            t = np.array([rng.uniform(-15, 15) for _ in range(3)])
            which = 'both' if k % 2 == 0 else 'dec'
            vd = move_float(dec, R, t)
            vr = move_float(ref, R, t) if which == 'both' else ref
            if margins_ok(vd) and margins_ok(vr):
                break
            regenerated[0] += 1
        return mk(kind, which, dec.lines(), ref.lines(), vd.lines(), vr.lines(), enforce, {'which': which})
    if kind == 'columns':
        ref, dec = gen_base(rng)
        return mk(kind, None, dec.lines(), ref.lines(), change_columns(rng, dec.lines()), change_columns(rng, ref.lines()), enforce)
    if kind == 'renumber':
        ref, dec = gen_base(rng)
        nums = [r['resSeq'] for r in ref.residues + dec.residues]
        cand = [rng.randint(-999 - min(nums), 9999 - max(nums)), -60 - min(nums), -130 - min(nums), -(min(nums) + max(nums)) // 2,
                -999 - min(nums), 9999 - max(nums), 1, -1, 100]      # entries 1-3 make (some of) the numbers negative
        cand = [d for d in cand if -999 <= min(nums) + d and max(nums) + d <= 9999]
        delta = cand[k % len(cand)]
        return mk(kind, 'delta=%d' % delta, dec.lines(), ref.lines(), cg.renumber(dec, delta).lines(), cg.renumber(ref, delta).lines(), enforce,
                  {'delta': delta})
    if kind == 'hydrogens':
        ref, dec = gen_base(rng, hydrogens=rng.random() < 0.3)
        return mk(kind, None, dec.lines(), ref.lines(), add_hydrogens(rng, dec), add_hydrogens(rng, ref), enforce)
    if kind == 'permute':
        ref, dec = gen_base(rng)
        level = base.PERM_LEVELS[(k // 2) % len(base.PERM_LEVELS)]
        side = ['dec', 'ref', 'both'][(k // 8) % 3]
        vd = base.permuted_lines(rng, dec, level) if side in ('dec', 'both') else dec.lines()
        vr = base.permuted_lines(rng, ref, level) if side in ('ref', 'both') else ref.lines()
        return mk(kind, level + '/' + side, dec.lines(), ref.lines(), vd, vr, enforce)
    raise ValueError(kind)


def tie_case(rng, k):
    """equal atom counts in both chains of the reference (the "first chain if equal" rule decides which chain is fitted), chain
    blocks written in an order that is not the sorted order of their identifiers, and the chain-block permutation of the
    reference / of both files: the fitted chain must not depend on the order of the blocks"""
    chains = [('B', 'A'), ('A', 'B'), ('X', 'A')][k % 3]
    side = ['ref', 'both'][(k // 3) % 2]
    for _ in range(200):
        n = rng.randint(3, 7)
        ref = base.equalize(cg.make_complex(rng, nA=n, nB=n, chains=chains, hydrogens=False, gap=rng.choice([3.5, 4.5, 6.0])))
        dec = cg.jitter(rng, ref, rng.choice([0.5, 1.0]))
        dec = cg.rigid_move(rng, dec, which=chains[1], shift=4.0)       # the two chains score very differently
        if margins_ok(ref) and margins_ok(dec):
            break
        regenerated[0] += 1
    vr = base.permuted_lines(rng, ref, 'chains')
    vd = base.permuted_lines(rng, dec, 'chains') if side == 'both' else dec.lines()
    return mk('permute', 'chains/tie/%s/%s%s' % (side, chains[0], chains[1]), dec.lines(), ref.lines(), vd, vr, k % 2 == 1)


def cases(ctx):
    rng = ctx.rng
    out = []
    per = {'rigid_exact': ctx.scale(16, 120), 'rigid': ctx.scale(8, 60), 'columns': ctx.scale(6, 40), 'renumber': ctx.scale(6, 40),
           'hydrogens': ctx.scale(6, 40), 'permute': ctx.scale(24, 96)}
    for kind in KINDS:
        for k in range(per[kind]):
            out.append(one_case(rng, kind, k))
    for k in range(ctx.scale(6, 36)):
        out.append(tie_case(rng, k))
    return out


def search_cases(ctx):
    rng = ctx.rng
    return [one_case(rng, kind, k) for kind in KINDS for k in range(9)] + [tie_case(rng, k) for k in range(12)]


def extra_checks(ctx):
    """implementation against implementation: all 24 lattice rotations of one complex, decoy alone and both together"""
    rng = ctx.rng
    res = []
    for rep in range(ctx.scale(1, 4)):
        ref, dec = gen_base(rng)
        b = scores(ctx, dec.lines(), ref.lines(), False)
        bad, discards = None, 0
        for i, R in enumerate(cg.lattice_rotations()):
            tm = [rng.randint(-20000, 20000) for _ in range(3)] if i % 3 else [rng.randint(2000000, 8000000) for _ in range(3)]
            for which in ('dec', 'both'):
                vd = move_exact(dec, R, tm)
                vr = move_exact(ref, R, tm) if which == 'both' else ref
                v = scores(ctx, vd.lines(), vr.lines(), False)
                r = relation('rigid_exact', b, v)
                if r == 'discard':
                    discards += 1
                elif r is not True and bad is None:
                    bad = {'rotation': i, 'which': which, 'why': r, 'dec': dec.lines(), 'ref': ref.lines(), 'translation_milli': tm}
        res.append({'name': f'24 lattice rotations x (decoy | decoy+reference) of complex {rep}: all scores identical ({discards} rounding-tie discards)',
                    'ok': bad is None, 'case': bad, 'detail': 'values of the nine scores on an exactly moved copy'})
    return res
