"""C10 -- transforms move exactly the selected atoms by exactly the stated isometry."""
import math, importlib
from fractions import Fraction
import numpy as np
from vlib import rat, unrat, exc_tag
from pdb2sql import pdb2sql
TF = importlib.import_module('pdb2sql.transform')

ID = 'C10'
LEVEL = 'proof'
CLUSTER = 'D'
GEN_UNITS = ['rodrigues', 'euler', 'rotate', 'transform_glue', 'rot_xyz_around_axis', 'rotation_euler', 'translation', 'rot_axis', 'rot_euler', 'rot_mat']
PIN_TARGETS = ['PdbVerif.Pins.D']
RULE = ('real pdb2sql databases built from generated ATOM lines (1-30 atoms, chains A-C, coordinates with three decimals up to +-999) '
        'driven through compositions of 1-5 of translation / rot_axis / rot_euler / rot_mat, each with its own selection (everything, '
        'one chain, several chains = empty complement, single rowID, atom name, residue range, negated chain, rowID lists in ascending, '
        'shuffled, reversed, concatenated (later rows first) and duplicated order, alone and combined with a chain key, negated selections no_rowID (sorted / unsorted '
        'list, scalar) / no_name / no_resSeq / no_chainID alone, combined with a positive key and with each other; a separate '
        'stream of empty selections), angles in [-4pi, 4pi] (generic stream kept away from multiples of pi, separate stream at multiples of pi/2), '
        'Euler triples with all three angles non-zero, random unit axes and coordinate axes, proper random matrices; the xyz-level '
        'functions additionally with explicit centres. A further family puts the angles AT AND NEAR the special values: k*pi/2 (all k with '
        '|k| <= 8; 0, +-pi/2, +-pi, +-2pi, +-4pi on a full grid) exactly and displaced to either side by 1e-9 .. 5e-3 rad (listed decades and '
        'log-uniform), for rot_axis, for Euler triples in which three, two or one of the angles are such values (mixed, or all near whole '
        'turns / half turns / quarter turns, or the same value three times), in compositions with generic steps, and for the xyz-level functions. '
        'get(\'*\') after the sequence is compared with the Lean model (the code\'s matrices) '
        'and with the Lean Spec (vector-form isometries through the centroid of the selection). Histories (extra checks): 20-200 (thorough: 500) '
        'equal steps of rot_axis / rot_euler / translation on one selection (optionally with the complement translated in between) are compared '
        'per atom with ONE accumulated transform evaluated independently (math.cos/sin, vector form): N rotations by delta = one by N*delta. '
        'A case is non-trivial when distinct by '
        '(operation, kinds of the steps, kinds of the selections, error/no error).')
ASSUMPTIONS = ['np.cos / np.sin values are handed to the model as exact rationals; they satisfy c^2+s^2=1 only to 1e-16 (float gap, not part of the algebraic theorems)',
               'SQLite stores and returns REAL columns bit-exactly; rows come back in rowID order (C03/C04)',
               'NumPy seeding reproduces the random stream (checked by calling twice)',
               'floating-point evaluation stays within 1e-9 (relative to the coordinate scale) of the exact-rational model: sampled, not proved']

TOL = Fraction(1, 10**9)
CHAINS = ['A', 'B', 'C']
NAMES = [' CA ', ' C  ', ' N  ', ' O  ', ' CB ']


def atom_line(serial, name, resName, chain, resSeq, x, y, z, alt=' ', icode=' ', occ=1.0, temp=0.0, elem=' C'):
    return "ATOM  %5d %-4s%1s%3s %1s%4d%1s   %8.3f%8.3f%8.3f%6.2f%6.2f          %2s  " % (
        serial, name, alt, resName, chain, resSeq, icode, x, y, z, occ, temp, elem)


def make_lines(rng, n=None):
    n = n or rng.choice([1, 2, 3, 5, 8, 13, 30])
    big = rng.random() < 0.15
    lines = []
    for k in range(n):
        chain = CHAINS[min(2, (3 * k) // n)] if n >= 3 and rng.random() < 0.8 else rng.choice(CHAINS)
        lim = 900.0 if big else 60.0
        x, y, z = (round(rng.uniform(-lim, lim), 3) for _ in range(3))
        lines.append(atom_line(k + 1, rng.choice(NAMES), rng.choice(['ALA', 'GLY', 'LYS']), chain, 1 + k // 2, x, y, z,
                               occ=rng.choice([1.0, 0.5]), temp=round(rng.uniform(0, 90), 2), elem=rng.choice([' C', ' N', ' O'])))
    return lines


def table_json(rows):
    """get('*') rows -> the 14-array the Lean drivers read"""
    out = []
    for r in rows:
        out.append([int(r[0]), str(r[1]), str(r[2]), str(r[3]), str(r[4]), int(r[5]), str(r[6]),
                    rat(r[7]), rat(r[8]), rat(r[9]), rat(r[10]), rat(r[11]), str(r[12]), int(r[13])])
    return out


ORDERED_KINDS = ['rowlist_shuffled', 'rowlist_reversed', 'rowlist_concat', 'rowlist_dup', 'rowlist_and_key']
NEGATED_KINDS = ['no_rowlist', 'no_rowlist_unsorted', 'no_row_scalar', 'no_name', 'no_name_list', 'no_resseq', 'no_resseq_scalar',
                 'no_row_and_chain', 'no_name_and_rowlist', 'no_row_no_chain', 'no_chain_and_name']
SEL_KINDS = ['all', 'chain', 'chains_all', 'single', 'name', 'resrange', 'no_chain', 'rowlist'] + ORDERED_KINDS + NEGATED_KINDS


def selection(rng, rows, kind=None):
    """(kwargs for the real code, mask computed here from the reference rows)"""
    n = len(rows)
    chains = sorted({r[4] for r in rows})
    kind = kind or rng.choice(SEL_KINDS)
    if kind in ORDERED_KINDS and n < 2:
        kind = 'single'
    if kind == 'all':
        return kind, {}, [True] * n
    if kind == 'chain':
        c = rng.choice(chains)
        return kind, {'chainID': c}, [r[4] == c for r in rows]
    if kind == 'chains_all':                       # explicit selection with an empty complement
        return kind, {'chainID': list(chains)}, [True] * n
    if kind == 'single':
        k = rng.randrange(n)
        return kind, {'rowID': [k]}, [i == k for i in range(n)]
    if kind == 'name':
        nm = rng.choice(sorted({r[1] for r in rows}))
        return kind, {'name': [nm]}, [r[1] == nm for r in rows]
    if kind == 'resrange':
        rs = sorted({r[5] for r in rows})
        pick = rs[: max(1, len(rs) // 2)]
        return kind, {'resSeq': pick}, [r[5] in pick for r in rows]
    if kind == 'no_chain':
        c = rng.choice(chains)
        if all(r[4] == c for r in rows):
            return 'all', {}, [True] * n
        return kind, {'no_chainID': c}, [r[4] != c for r in rows]
    if kind == 'rowlist':
        ks = sorted(rng.sample(range(n), rng.randint(1, n)))
        return kind, {'rowID': ks}, [i in ks for i in range(n)]
    # rowID lists whose ORDER differs from table order: the selection is the same set of rows, and each selected atom must get
    # the isometry applied to its own coordinates whatever the order in which the list names it
    if kind == 'rowlist_shuffled':
        ks = rng.sample(range(n), rng.randint(2, n))
        while ks == sorted(ks):
            rng.shuffle(ks)
        return kind, {'rowID': ks}, [i in ks for i in range(n)]
    if kind == 'rowlist_reversed':
        ks = sorted(rng.sample(range(n), rng.randint(2, n)), reverse=True)
        return kind, {'rowID': ks}, [i in ks for i in range(n)]
    if kind == 'rowlist_concat':                   # concatenation of two get('rowID', ...) results, later rows first
        if len(chains) >= 2:
            c1, c2 = rng.sample(chains, 2)
            first = [i for i, r in enumerate(rows) if r[4] == c1]; second = [i for i, r in enumerate(rows) if r[4] == c2]
            if first and second and first[0] < second[0]:
                first, second = second, first
            ks = first + second
        else:
            h = n // 2
            ks = list(range(h, n)) + list(range(h))
        return kind, {'rowID': ks}, [i in ks for i in range(n)]
    if kind == 'rowlist_dup':                      # a row named twice is still one selected row
        ks = rng.sample(range(n), rng.randint(2, n))
        ks = ks + [ks[0]]
        return kind, {'rowID': ks}, [i in ks for i in range(n)]
    if kind == 'rowlist_and_key':                  # a non-ascending rowID list combined with another key
        c = rng.choice(chains)
        members = [i for i, r in enumerate(rows) if r[4] == c]
        others = [i for i, r in enumerate(rows) if r[4] != c]
        ks = rng.sample(members, rng.randint(1, len(members))) + rng.sample(others, rng.randint(0, len(others)))
        ks.sort(reverse=True)
        if rng.random() < 0.5:
            rng.shuffle(ks)
        return kind, {'rowID': ks, 'chainID': c}, [(i in ks and rows[i][4] == c) for i in range(n)]
    # negated selections.  The mask is computed here from each row's own position / attributes in the reference table, never
    # through the library's get(); a candidate that would select nothing falls back to 'all'.
    if kind in NEGATED_KINDS:
        names = sorted({r[1] for r in rows}); resseqs = sorted({r[5] for r in rows})
        kw, mask = None, None
        if kind in ('no_rowlist', 'no_rowlist_unsorted') and n >= 2:
            ks = sorted(rng.sample(range(n), rng.randint(1, n - 1)))
            if kind == 'no_rowlist_unsorted' and len(ks) >= 2:
                ks = ks[::-1] if rng.random() < 0.5 else rng.sample(ks, len(ks))
            kw, mask = {'no_rowID': ks}, [i not in ks for i in range(n)]
        elif kind == 'no_row_scalar' and n >= 2:
            k = rng.randrange(n)
            kw, mask = {'no_rowID': k}, [i != k for i in range(n)]
        elif kind == 'no_name':
            nm = rng.choice(names)
            kw, mask = {'no_name': nm}, [r[1] != nm for r in rows]
        elif kind == 'no_name_list':
            nms = rng.sample(names, rng.randint(1, max(1, len(names) - 1)))
            kw, mask = {'no_name': nms}, [r[1] not in nms for r in rows]
        elif kind == 'no_resseq':
            rs = rng.sample(resseqs, rng.randint(1, max(1, len(resseqs) - 1)))
            kw, mask = {'no_resSeq': rs}, [r[5] not in rs for r in rows]
        elif kind == 'no_resseq_scalar':
            rsq = rng.choice(resseqs)
            kw, mask = {'no_resSeq': rsq}, [r[5] != rsq for r in rows]
        elif kind == 'no_row_and_chain':               # negated rows combined with a positive key
            c = rng.choice(chains)
            members = [i for i, r in enumerate(rows) if r[4] == c]
            ks = rng.sample(range(n), rng.randint(1, max(1, n // 2)))
            if all(i in ks for i in members):
                ks = [i for i in ks if i != members[0]] or [j for j in range(n) if j != members[0]][:1]
            if ks:
                kw, mask = {'no_rowID': ks, 'chainID': c}, [(i not in ks and rows[i][4] == c) for i in range(n)]
        elif kind == 'no_name_and_rowlist':            # negated name combined with a non-ascending positive rowID list
            nm = rng.choice(names)
            ks = rng.sample(range(n), rng.randint(1, n)); ks.sort(reverse=True)
            kw, mask = {'no_name': nm, 'rowID': ks}, [(i in ks and rows[i][1] != nm) for i in range(n)]
        elif kind == 'no_row_no_chain':                # two negated keys
            c = rng.choice(chains)
            ks = rng.sample(range(n), rng.randint(1, max(1, n // 2)))
            kw, mask = {'no_rowID': ks, 'no_chainID': c}, [(i not in ks and rows[i][4] != c) for i in range(n)]
        elif kind == 'no_chain_and_name':
            c, nm = rng.choice(chains), rng.choice(names)
            kw, mask = {'no_chainID': c, 'name': nm}, [(r[4] != c and r[1] == nm) for r in rows]
        if mask is None or not any(mask):
            return 'all', {}, [True] * n
        return kind, kw, mask
    if kind == 'empty':
        return kind, {'chainID': 'Z'}, [False] * n
    raise ValueError(kind)


def nprng(rng):
    return np.random.default_rng(rng.getrandbits(64))


def rand_rot(g):
    q = g.normal(size=4); q /= np.linalg.norm(q)
    a, b, c, d = q
    return np.array([[a*a+b*b-c*c-d*d, 2*(b*c-a*d), 2*(b*d+a*c)],
                     [2*(b*c+a*d), a*a-b*b+c*c-d*d, 2*(c*d-a*b)],
                     [2*(b*d-a*c), 2*(c*d+a*b), a*a-b*b-c*c+d*d]])


def generic_angle(rng):
    while True:
        a = rng.uniform(-4 * math.pi, 4 * math.pi)
        if abs(math.sin(a)) > 1e-2:
            return a


def unit_axis(rng, g):
    if rng.random() < 0.3:
        v = [0.0, 0.0, 0.0]; v[rng.randrange(3)] = rng.choice([1.0, -1.0])
        return v
    v = g.normal(size=3); v /= np.linalg.norm(v)
    return [float(x) for x in v]


def make_step(rng, g, kind=None, angles='generic'):
    kind = kind or rng.choice(['translation', 'rot_axis', 'rot_euler', 'rot_mat'])
    ang = (lambda: generic_angle(rng)) if angles == 'generic' else (lambda: rng.randint(-8, 8) * math.pi / 2)
    if kind == 'translation':
        v = [0.0, 0.0, 0.0] if rng.random() < 0.1 else [round(rng.uniform(-50, 50), rng.choice([0, 3, 9])) for _ in range(3)]
        return {'kind': kind, 'vect': v}
    if kind == 'rot_axis':
        return {'kind': kind, 'axis': unit_axis(rng, g), 'angle': ang()}
    if kind == 'rot_euler':
        if angles == 'two':                        # search family: exactly two non-zero angles
            t = [ang(), ang(), ang()]; t[rng.randrange(3)] = 0.0
            return {'kind': kind, 'alpha': t[0], 'beta': t[1], 'gamma': t[2]}
        return {'kind': kind, 'alpha': ang(), 'beta': ang(), 'gamma': ang()}
    if rng.random() < 0.3:
        # an explicit matrix written with INTEGER entries (a lattice rotation: quarter / half turns about the axes), carried as an
        # integer ndarray or as nested lists of ints -- what a user types by hand (round-8 seed C10-r8m1: a homogeneous matrix allocated
        # with the dtype of the argument truncates the shift c - R.c)
        import complexgen as _cg
        R = _cg.lattice_rotations()[rng.randrange(24)]
        return {'kind': kind, 'mat': [float(x) for x in R.ravel()], 'carrier': rng.choice(['int-array', 'int-lists'])}
    return {'kind': kind, 'mat': [float(x) for x in rand_rot(g).ravel()]}


# ---- angles at and near the special values ------------------------------------------------------------------------------
# The quantifier says "all angles in [-4pi, 4pi]".  A uniform draw from that interval essentially never comes within 1e-3 rad of a
# multiple of pi/2, and the 'halfpi' stream hits the multiples only exactly; the neighbourhoods (where cos or sin is flat, where a
# rotation is almost -- but not -- the identity / a half turn / a quarter turn) are a family of their own.
SPECIAL_K = [0, 1, -1, 2, -2, 4, -4, 8, -8]          # 0, +-pi/2, +-pi, +-2pi, +-4pi as multiples of pi/2
OFFSETS = [1e-9, 1e-8, 1e-7, 1e-6, 1e-5, 1e-4, 5e-4, 1e-3, 2.5e-3, 4e-3, 5e-3]
ANGLE_CLASSES = {'turn': [0, 4, -4, 8, -8], 'half': [2, -2, 6, -6], 'quarter': [1, -1, 3, -3, 5, -5, 7, -7]}


def near_multiple(k, off):
    """k*pi/2 + off, the offset mirrored to the other side if it would leave [-4pi, 4pi]"""
    a = k * math.pi / 2 + off
    if abs(a) > 4 * math.pi:
        a = k * math.pi / 2 - off
    return a


def special_angle(rng, ks=None):
    """a multiple of pi/2 in [-4pi, 4pi], hit exactly (15%) or displaced to either side by 1e-9 .. 5e-3 rad (listed decades or log-uniform)"""
    if ks is None:
        ks = SPECIAL_K if rng.random() < 0.7 else list(range(-8, 9))
    k = rng.choice(ks)
    r = rng.random()
    if r < 0.15:
        off = 0.0
    elif r < 0.6:
        off = rng.choice([-1, 1]) * rng.choice(OFFSETS)
    else:
        off = rng.choice([-1, 1]) * 10 ** rng.uniform(-9, math.log10(5e-3))
    return near_multiple(k, off)


def special_step(rng, g, kind, nspecial=3, cls=None):
    """rot_axis at/near a special angle; rot_euler with `nspecial` (3, 2 or 1) of its angles at/near special values (the others
    generic).  cls = 'turn' / 'half' / 'quarter' draws all the special angles of the step from one class of multiples, None mixes."""
    ks = ANGLE_CLASSES[cls] if cls else None
    if kind == 'rot_axis':
        return {'kind': kind, 'axis': unit_axis(rng, g), 'angle': special_angle(rng, ks)}
    pos = rng.sample(range(3), nspecial)
    t = [special_angle(rng, ks) if i in pos else generic_angle(rng) for i in range(3)]
    return {'kind': 'rot_euler', 'alpha': t[0], 'beta': t[1], 'gamma': t[2]}


def step_json(st, mask=None):
    """the step as the drivers read it: exact rationals, the trig values NumPy produces"""
    d = {'kind': st['kind']}
    if mask is not None:
        d['sel'] = mask
    if st['kind'] == 'translation':
        d['vect'] = [rat(x) for x in st['vect']]
    elif st['kind'] == 'rot_axis':
        d['axis'] = [rat(x) for x in st['axis']]
        d['c'], d['s'] = rat(float(np.cos(st['angle']))), rat(float(np.sin(st['angle'])))
    elif st['kind'] == 'rot_euler':
        for nm, k in (('a', 'alpha'), ('b', 'beta'), ('g', 'gamma')):
            d['c' + nm], d['s' + nm] = rat(float(np.cos(st[k]))), rat(float(np.sin(st[k])))
    else:
        d['mat'] = [rat(x) for x in st['mat']]
    return d


def cases(ctx):
    rng = ctx.rng
    g = nprng(rng)
    out = []

    def seq_case(nsteps, angles, family, kinds=None, selkinds=None, n=None):
        lines = make_lines(rng, n)
        rows = pdb2sql(lines).get('*')
        steps = []
        for k in range(nsteps):
            st = make_step(rng, g, kinds[k] if kinds else None, angles)
            sk, kw, mask = selection(rng, rows, selkinds[k] if selkinds else None)
            st.update({'selkind': sk, 'kwargs': kw, 'mask': mask})
            steps.append(st)
        return {'op': 'transform_seq', 'lines': lines, 'steps': steps, 'family': family}

    for kind in ('translation', 'rot_axis', 'rot_euler', 'rot_mat'):
        for sk in SEL_KINDS:
            for angles in ('generic', 'halfpi'):
                for _ in range(ctx.scale(2, 30)):
                    out.append(seq_case(1, angles, f'single-{angles}', [kind], [sk]))
    for _ in range(ctx.scale(200, 8000)):
        out.append(seq_case(rng.randint(2, 5), rng.choice(['generic', 'generic', 'halfpi']), 'composition'))
    for kind in ('translation', 'rot_axis', 'rot_euler', 'rot_mat'):
        for _ in range(ctx.scale(2, 10)):
            out.append(seq_case(1, 'generic', 'empty-selection', [kind], ['empty']))
            out.append(seq_case(2, 'generic', 'empty-selection-second', [rng.choice(['translation', 'rot_axis']), kind], ['all', 'empty']))
    # histories: the same selection keywords are used by a transform BEFORE the chain labels are rewritten (update_column) and by
    # the transforms after it; the selection means the atoms that carry the label NOW.  The model starts from the table observed
    # after the prelude, with masks computed from the relabelled records.
    for _ in range(ctx.scale(40, 600)):
        lines = make_lines(rng, rng.choice([3, 5, 8, 13, 30]))
        present = sorted({l[21] for l in lines})
        perm = dict(zip(present, present[1:] + present[:1])) if len(present) > 1 and rng.random() < 0.8 else {c: rng.choice(CHAINS) for c in present}
        relabelled = [l[:21] + perm[l[21]] + l[22:] for l in lines]
        rows2 = pdb2sql(relabelled).get('*')
        steps = []
        for k in range(rng.randint(1, 3)):
            st = make_step(rng, g, None, 'generic')
            sk, kw, mask = selection(rng, rows2, rng.choice(['chain', 'chain', 'no_chain', 'chains_all', 'no_chain_and_name', 'no_row_and_chain', 'name']))
            st.update({'selkind': sk, 'kwargs': kw, 'mask': mask})
            steps.append(st)
        pre = []
        for st in steps[:rng.randint(1, len(steps))]:
            p0 = make_step(rng, g, rng.choice(['translation', 'rot_axis']), 'generic')
            p0.update({'kwargs': st['kwargs']})
            pre.append(p0)
        out.append({'op': 'transform_seq', 'lines': lines, 'steps': steps, 'family': 'history-relabel',
                    'prelude': {'steps': pre, 'column': 'chainID', 'values': [l[21] for l in relabelled]}})
    # xyz-level functions with explicit centres
    for _ in range(ctx.scale(150, 5000)):
        n = rng.choice([1, 2, 5, 20])
        X = [[round(rng.uniform(-80, 80), 3) for _ in range(3)] for _ in range(n)]
        st = make_step(rng, g, rng.choice(['rot_axis', 'rot_euler', 'rot_mat']), rng.choice(['generic', 'halfpi']))
        ck = rng.choice(['none', 'list', 'array', 'origin'])
        center = None if ck == 'none' else ([0.0, 0.0, 0.0] if ck == 'origin' else [round(rng.uniform(-30, 30), 3) for _ in range(3)])
        out.append({'op': 'rotate_xyz', 'X': X, 'step': st, 'center': center, 'center_kind': ck, 'family': 'xyz-' + ck})
    for seed in [0, 1, 2, 3, 7, 42, 2**31 - 1] + [rng.randrange(2**32) for _ in range(ctx.scale(20, 2000))]:
        out.append({'op': 'axis_angle', 'seed': seed, 'family': 'random-axis'})
    # angles at and near the special values (appended last so that the streams above are what they were).  Tables of >= 3 atoms and
    # selections of several atoms: a rotation by 1e-4 rad moves an atom 30 A from the axis by 3e-3 A, the tolerance is 1e-9 * scale.
    wide = ['all', 'chain', 'rowlist', 'no_chain', 'chains_all', 'rowlist_shuffled', 'no_rowlist', 'no_name', 'all']

    def special_case(st, family, sk=None, n=None):
        lines = make_lines(rng, n or rng.choice([3, 5, 8, 13, 30]))
        rows = pdb2sql(lines).get('*')
        sk, kw, mask = selection(rng, rows, sk or rng.choice(wide))
        st.update({'selkind': sk, 'kwargs': kw, 'mask': mask})
        return {'op': 'transform_seq', 'lines': lines, 'steps': [st], 'family': family}

    # rot_axis: the full grid (special value) x (exact, each offset on both sides)
    for k in (SPECIAL_K if not ctx.thorough else range(-8, 9)):
        for off in [0.0] + [s * o for o in OFFSETS for s in (1, -1)]:
            for _ in range(ctx.scale(1, 4)):
                out.append(special_case({'kind': 'rot_axis', 'axis': unit_axis(rng, g), 'angle': near_multiple(k, off)}, 'special-axis-grid'))
    for _ in range(ctx.scale(40, 1000)):
        out.append(special_case(special_step(rng, g, 'rot_axis'), 'special-axis'))
    # rot_euler: all three, two or one of the angles at/near special values; the special angles of a triple mixed, or all near whole
    # turns, all near half turns, all near quarter turns
    for nspecial in (3, 2, 1):
        for cls in (None, 'turn', 'half', 'quarter'):
            for _ in range(ctx.scale(12, 300)):
                out.append(special_case(special_step(rng, g, 'rot_euler', nspecial, cls), f'special-euler-{nspecial}-{cls or "mixed"}'))
    # the same offset in all three angles, on the grid
    for k in SPECIAL_K:
        for off in [s * o for o in OFFSETS[::2] for s in (1, -1)]:
            a = near_multiple(k, off)
            out.append(special_case({'kind': 'rot_euler', 'alpha': a, 'beta': a, 'gamma': a}, 'special-euler-equal'))
    # compositions in which special-angle steps are mixed with generic steps
    for _ in range(ctx.scale(40, 800)):
        lines = make_lines(rng, rng.choice([3, 5, 8, 13, 30]))
        rows = pdb2sql(lines).get('*')
        steps = []
        for k in range(rng.randint(2, 5)):
            kind = rng.choice(['rot_axis', 'rot_euler', 'rot_axis', 'rot_euler', 'translation', 'rot_mat'])
            if kind in ('rot_axis', 'rot_euler') and (k == 0 or rng.random() < 0.7):
                st = special_step(rng, g, kind, rng.choice([3, 3, 2, 1]), rng.choice([None, 'turn', 'half', 'quarter']))
            else:
                st = make_step(rng, g, kind, 'generic')
            sk, kw, mask = selection(rng, rows, rng.choice(wide + ['single', 'name']))
            st.update({'selkind': sk, 'kwargs': kw, 'mask': mask})
            steps.append(st)
        out.append({'op': 'transform_seq', 'lines': lines, 'steps': steps, 'family': 'composition-special'})
    # xyz-level functions at the special angles
    for _ in range(ctx.scale(60, 1000)):
        n = rng.choice([2, 5, 20])
        X = [[round(rng.uniform(-80, 80), 3) for _ in range(3)] for _ in range(n)]
        st = special_step(rng, g, rng.choice(['rot_axis', 'rot_euler']), rng.choice([3, 2, 1]), rng.choice([None, 'turn', 'half', 'quarter']))
        ck = rng.choice(['none', 'list', 'array', 'origin'])
        center = None if ck == 'none' else ([0.0, 0.0, 0.0] if ck == 'origin' else [round(rng.uniform(-30, 30), 3) for _ in range(3)])
        out.append({'op': 'rotate_xyz', 'X': X, 'step': st, 'center': center, 'center_kind': ck, 'family': 'xyz-special-' + ck})
    return out


def search_cases(ctx):
    """angles away from multiples of pi, Euler triples with exactly two non-zero angles, sub-selections"""
    rng = ctx.rng
    g = nprng(rng)
    out = []
    for _ in range(ctx.scale(150, 1500)):
        lines = make_lines(rng)
        rows = pdb2sql(lines).get('*')
        kind = rng.choice(['rot_axis', 'rot_euler', 'rot_euler', 'translation', 'rot_mat'])
        st = make_step(rng, g, kind, 'two' if kind == 'rot_euler' else 'generic')
        sk, kw, mask = selection(rng, rows, rng.choice(['chain', 'single', 'rowlist', 'all'] + ORDERED_KINDS + NEGATED_KINDS))
        st.update({'selkind': sk, 'kwargs': kw, 'mask': mask})
        out.append({'op': 'transform_seq', 'lines': lines, 'steps': [st], 'family': 'search'})
    return out


# ----------------------------------------------------------------------------------------------
# real code
# ----------------------------------------------------------------------------------------------

def matrix_of(st):
    """the explicit matrix in the carrier the step asks for (float ndarray by default)"""
    M = np.array(st['mat']).reshape(3, 3)
    if st.get('carrier') == 'int-array':
        return np.rint(M).astype(int)
    if st.get('carrier') == 'int-lists':
        return [[int(round(v)) for v in row] for row in M]
    return M


def apply_real(db, st):
    kw = dict(st['kwargs'])
    if st['kind'] == 'translation':
        TF.translation(db, list(st['vect']), **kw)
    elif st['kind'] == 'rot_axis':
        TF.rot_axis(db, list(st['axis']), st['angle'], **kw)
    elif st['kind'] == 'rot_euler':
        TF.rot_euler(db, st['alpha'], st['beta'], st['gamma'], **kw)
    else:
        TF.rot_mat(db, matrix_of(st), **kw)


def impl(ctx, c):
    c.pop('obs', None)
    op = c['op']
    if op == 'transform_seq':
        db = pdb2sql(c['lines'])
        if c.get('prelude'):
            for st in c['prelude']['steps']:
                try:
                    apply_real(db, st)
                except Exception:
                    pass
            db.update_column(c['prelude']['column'], list(c['prelude']['values']))
        before = db.get('*')
        c['obs'] = {'db': table_json(before)}
        for k, st in enumerate(c['steps']):
            prev = db.get('*')
            try:
                apply_real(db, st)
            except Exception as e:
                return {'error': exc_tag(e), 'at': k, 'unchanged_by_failed_step': db.get('*') == prev}
        return {'table': table_json(db.get('*'))}
    if op == 'rotate_xyz':
        X = np.array(c['X'], float)
        st = c['step']
        ctr = c['center']
        if c['center_kind'] == 'array' and ctr is not None:
            ctr = np.array(ctr)
        try:
            if st['kind'] == 'rot_axis':
                Y = TF.rot_xyz_around_axis(X.copy(), st['axis'], st['angle'], ctr)
            elif st['kind'] == 'rot_euler':
                Y = TF.rotation_euler(X.copy(), st['alpha'], st['beta'], st['gamma'], ctr)
            else:
                Y = TF.rotate(X.copy(), matrix_of(st), ctr)
        except Exception as e:
            return exc_tag(e)
        return {'xyz': [[rat(v) for v in row] for row in np.asarray(Y, float)]}
    if op == 'axis_angle':
        axis, angle = TF.get_rot_axis_angle(c['seed'])
        axis2, angle2 = TF.get_rot_axis_angle(c['seed'])
        np.random.seed(c['seed'])
        u1, u2 = np.random.rand(), np.random.rand()
        u3 = np.random.rand()
        theta, phi = 2 * np.pi * u1, np.arccos(2 * u2 - 1)
        c['obs'] = {'ct': rat(float(np.cos(theta))), 'st': rat(float(np.sin(theta))), 'cp': rat(float(np.cos(phi))),
                    'sp': rat(float(np.sin(phi))), 'twoPi': rat(2 * np.pi), 'u3': rat(float(u3)),
                    'axis_out': [rat(float(x)) for x in axis], 'angle_out': rat(float(angle))}
        return {'axis': [rat(float(x)) for x in axis], 'angle': rat(float(angle)),
                'reproducible': [float(x) for x in axis] == [float(x) for x in axis2] and float(angle) == float(angle2),
                'u_in_unit_interval': all(0.0 <= u < 1.0 for u in (u1, u2, u3))}
    raise ValueError(op)


def driver_line(c):
    op = c['op']
    if op == 'transform_seq':
        return {'op': op, 'db': c['obs']['db'], 'steps': [step_json(st, st['mask']) for st in c['steps']]}
    if op == 'rotate_xyz':
        d = {'op': op, 'X': [[rat(v) for v in row] for row in c['X']]}
        d.update(step_json(c['step']))
        if c['center'] is not None:
            d['center'] = [rat(v) for v in c['center']]
        return d
    d = {'op': op}
    d.update(c.get('obs', {}))
    return d


# ----------------------------------------------------------------------------------------------
# comparison
# ----------------------------------------------------------------------------------------------

COORD = (7, 8, 9)


def compare_tables(c, got, want, who):
    if len(got) != len(want):
        return f'{who}: row count {len(want)} vs implementation {len(got)}'
    touched = [any(st['mask'][i] for st in c['steps']) for i in range(len(got))]
    ref = c['obs']['db']
    scale = max([Fraction(1)] + [abs(unrat(r[k])) for r in want for k in COORD])
    for i, (a, b) in enumerate(zip(got, want)):
        for k in range(14):
            if k in COORD:
                x, y = unrat(a[k]), unrat(b[k])
                if touched[i]:
                    if abs(x - y) > TOL * scale:
                        return f'{who}: row {i} column {k}: implementation {float(x)!r}, expected {float(y)!r}'
                elif x != y or a[k] != ref[i][k]:
                    return f'{who}: unselected row {i} column {k} changed: {float(x)!r} vs {float(y)!r}'
            else:
                cell_a = unrat(a[k]) if k in (10, 11) else a[k]
                cell_b = unrat(b[k]) if k in (10, 11) else b[k]
                if cell_a != cell_b:
                    return f'{who}: row {i} non-coordinate column {k}: implementation {a[k]!r}, expected {b[k]!r}'
    return True


def points_close(a, b, who):
    if len(a) != len(b):
        return f'{who}: {len(b)} points vs implementation {len(a)}'
    scale = max([Fraction(1)] + [abs(unrat(v)) for row in b for v in row])
    for i, (p, q) in enumerate(zip(a, b)):
        for x, y in zip(p, q):
            if abs(unrat(x) - unrat(y)) > TOL * scale:
                return f'{who}: point {i}: implementation {float(unrat(x))!r}, expected {float(unrat(y))!r}'
    return True


def total(f):
    """a comparison never raises: what it cannot make sense of is a disagreement"""
    def g(c, out, other):
        try:
            return f(c, out, other)
        except Exception as e:
            return f'comparison impossible ({type(e).__name__}: {e}); implementation output {str(out)[:120]}'
    g.__name__ = f.__name__
    return g


@total
def agree_model(c, out, model):
    op = c['op']
    if op == 'transform_seq':
        if 'error' in out:
            if model != out['error']:
                return f'implementation raised {out["error"]} at step {out["at"]}, model {str(model)[:60]!r}'
            return True
        if isinstance(model, str):
            return f'model {model!r}, implementation returned a table'
        return compare_tables(c, out['table'], model, 'model')
    if op == 'rotate_xyz':
        if isinstance(out, str):
            return f'implementation raised {out}'
        return points_close(out['xyz'], model, 'model')
    ax = points_close([out['axis']], [model['axis']], 'model axis')
    if ax is not True:
        return ax
    if abs(unrat(out['angle']) - unrat(model['angle'])) > TOL * 10:
        return f'angle: implementation {out["angle"]}, model {model["angle"]}'
    return True


@total
def agree_spec(c, out, spec):
    op = c['op']
    if op == 'transform_seq':
        if 'error' in out:
            if spec != 'EMPTY-SELECTION':
                return f'implementation raised {out["error"]} at step {out["at"]} on a non-empty selection'
            if not out['unchanged_by_failed_step']:
                return 'a step that raised on an empty selection changed the table'
            return True
        if spec == 'EMPTY-SELECTION':
            return 'discard'          # the property does not say what an empty selection does; the implementation did not raise
        return compare_tables(c, out['table'], spec, 'property')
    if op == 'rotate_xyz':
        if isinstance(out, str):
            return f'implementation raised {out}'
        return points_close(out['xyz'], spec, 'property')
    bad = []
    if unrat(spec['unitDefect']) > TOL: bad.append('random axis is not a unit vector')
    if not spec['inRange']: bad.append('random angle outside [0, 2pi)')
    if not out['reproducible']: bad.append('the same seed gave two different results')
    return True if not bad else '; '.join(bad)


def nontrivial_key(c, out):
    if c['op'] == 'transform_seq':
        return ['seq', [st['kind'] for st in c['steps']], [st['selkind'] for st in c['steps']], isinstance(out, dict) and 'error' in out, c['family']]
    if c['op'] == 'rotate_xyz':
        return ['xyz', c['step']['kind'], c['center_kind'], len(c['X']), c['step'].get('angle'), c['step'].get('alpha')]
    return ['axis', c['seed']]


def distribution(recs):
    fam, kinds, sels, lens, errs = {}, {}, {}, {}, {}
    for r in recs:
        c = r['case']
        fam[c['op'] + ':' + c['family']] = fam.get(c['op'] + ':' + c['family'], 0) + 1
        if c['op'] == 'transform_seq':
            lens[len(c['steps'])] = lens.get(len(c['steps']), 0) + 1
            for st in c['steps']:
                kinds[st['kind']] = kinds.get(st['kind'], 0) + 1
                sels[st['selkind']] = sels.get(st['selkind'], 0) + 1
            if isinstance(r['impl'], dict) and 'error' in r['impl']:
                errs[r['impl']['error']] = errs.get(r['impl']['error'], 0) + 1
    return {'families': fam, 'step_kinds': kinds, 'selection_kinds': sels, 'sequence_lengths': lens, 'errors': errs}


def extra_checks(ctx):
    """metamorphic: the inverse transform restores the coordinates; distances and handedness of the moved set are preserved"""
    rng = ctx.rng
    g = nprng(rng)
    res = []
    bad_inv = bad_iso = None
    n_inv = 0
    for _ in range(ctx.scale(200, 6000)):
        lines = make_lines(rng, rng.choice([4, 8, 13]))
        db = pdb2sql(lines)
        rows0 = db.get('*')
        sk, kw, mask = selection(rng, rows0, rng.choice(['all', 'chain', 'rowlist', 'no_chain', 'single'] + ORDERED_KINDS + NEGATED_KINDS))
        st = make_step(rng, g, None, rng.choice(['generic', 'halfpi']))
        st.update({'kwargs': kw})
        try:
            apply_real(db, st)
        except Exception as e:                  # a transform on a non-empty selection must not raise
            if bad_inv is None:
                bad_inv = {'lines': lines, 'step': {k: v for k, v in st.items() if k != 'kwargs'}, 'kwargs': kw, 'raised': exc_tag(e)}
            continue
        rows1 = db.get('*')
        X0 = np.array([r[7:10] for r, m in zip(rows0, mask) if m], float)
        X1 = np.array([r[7:10] for r, m in zip(rows1, mask) if m], float)
        scale = max(1.0, float(np.max(np.abs(X0))), float(np.max(np.abs(X1))))
        D0 = np.linalg.norm(X0[:, None] - X0[None], axis=2); D1 = np.linalg.norm(X1[:, None] - X1[None], axis=2)
        if np.max(np.abs(D0 - D1)) > 1e-9 * scale and bad_iso is None:
            bad_iso = {'lines': lines, 'step': {k: v for k, v in st.items() if k != 'kwargs'}, 'kwargs': kw, 'what': 'distances changed'}
        if len(X0) >= 4:
            v0 = np.linalg.det(X0[1:4] - X0[0]); v1 = np.linalg.det(X1[1:4] - X1[0])
            if abs(v0 - v1) > 1e-9 * scale ** 3 and bad_iso is None:
                bad_iso = {'lines': lines, 'step': {k: v for k, v in st.items() if k != 'kwargs'}, 'kwargs': kw, 'what': 'handedness changed'}
        # inverse
        if st['kind'] == 'translation':
            inv = [{'kind': 'translation', 'vect': [-x for x in st['vect']]}]
        elif st['kind'] == 'rot_axis':
            inv = [{'kind': 'rot_axis', 'axis': st['axis'], 'angle': -st['angle']}]
        elif st['kind'] == 'rot_euler':
            inv = [{'kind': 'rot_euler', 'alpha': 0.0, 'beta': 0.0, 'gamma': -st['gamma']},
                   {'kind': 'rot_euler', 'alpha': 0.0, 'beta': -st['beta'], 'gamma': 0.0},
                   {'kind': 'rot_euler', 'alpha': -st['alpha'], 'beta': 0.0, 'gamma': 0.0}]
        else:
            inv = [{'kind': 'rot_mat', 'mat': [float(x) for x in np.array(st['mat']).reshape(3, 3).T.ravel()]}]
        try:
            for s2 in inv:
                s2['kwargs'] = kw
                apply_real(db, s2)
        except Exception as e:
            if bad_inv is None:
                bad_inv = {'lines': lines, 'step': {k: v for k, v in st.items() if k != 'kwargs'}, 'kwargs': kw, 'inverse_raised': exc_tag(e)}
            continue
        rows2 = db.get('*')
        n_inv += 1
        for r0, r2 in zip(rows0, rows2):
            if any(abs(a - b) > 1e-9 * scale for a, b in zip(r0[7:10], r2[7:10])) or r0[:7] != r2[:7] or r0[10:] != r2[10:]:
                if bad_inv is None:
                    bad_inv = {'lines': lines, 'step': {k: v for k, v in st.items() if k != 'kwargs'}, 'kwargs': kw, 'before': r0, 'after': r2}
    res.append({'name': f'inverse transform restores the coordinates to 1e-9 on {n_inv} random transforms', 'ok': bad_inv is None, 'case': bad_inv,
                'detail': 'applying the inverse transform to the same selection did not restore the table'})
    res.append({'name': 'distances and handedness within the moved set preserved', 'ok': bad_iso is None, 'case': bad_iso, 'detail': ''})
    res += history_checks(ctx, rng, g)
    return res


# ----------------------------------------------------------------------------------------------
# histories of many equal steps ("all finite compositions of such transforms")
# ----------------------------------------------------------------------------------------------

def rodrigues_ref(axis, angle):
    """the property's rotation, written independently of the library and of NumPy's trig:  v -> v cos + (u x v) sin + u (u.v)(1 - cos)"""
    u = np.array(axis, float)
    c, s = math.cos(angle), math.sin(angle)
    K = np.array([[0.0, -u[2], u[1]], [u[2], 0.0, -u[0]], [-u[1], u[0], 0.0]])
    return c * np.eye(3) + s * K + (1.0 - c) * np.outer(u, u)


def euler_ref(alpha, beta, gamma):
    """about x by alpha, then about y by beta, then about z by gamma"""
    return rodrigues_ref([0, 0, 1], gamma) @ rodrigues_ref([0, 1, 0], beta) @ rodrigues_ref([1, 0, 0], alpha)


def run_history(lines, st, kw, mask, N, other=None):
    """N times the step `st` on the selection `kw` (mask = the rows it means); every `other['every']`-th step the complement is
    translated by other['vect'].  Rotations about the centroid of the selection leave that centroid where it is, so N rotations by
    delta about one axis are ONE rotation by N*delta about it, and N equal Euler steps are the N-th power of the step's matrix;
    N translations by v are one by N*v.  Returns None or a description of the first disagreement; never raises."""
    try:
        db = pdb2sql(lines)
        rows0 = db.get('*')
        sel = [i for i, m in enumerate(mask) if m]
        comp = [i for i, m in enumerate(mask) if not m]
        step = dict(st, kwargs=kw)
        n_other = 0
        for k in range(N):
            apply_real(db, step)
            if other and comp and (k + 1) % other['every'] == 0:
                apply_real(db, {'kind': 'translation', 'vect': other['vect'], 'kwargs': {'rowID': comp}})
                n_other += 1
        rows1 = db.get('*')
        if len(rows1) != len(rows0):
            return {'what': f'row count {len(rows0)} -> {len(rows1)}'}
        X0 = np.array([r[7:10] for r in rows0], float)
        want = X0.copy()
        if st['kind'] == 'translation':
            want[sel] = X0[sel] + N * np.array(st['vect'], float)
        else:
            if st['kind'] == 'rot_axis':
                R = rodrigues_ref(st['axis'], N * st['angle'])
            else:
                R = np.linalg.matrix_power(euler_ref(st['alpha'], st['beta'], st['gamma']), N)
            ctr = X0[sel].mean(0)
            want[sel] = (X0[sel] - ctr) @ R.T + ctr
        if n_other:
            want[comp] = X0[comp] + n_other * np.array(other['vect'], float)
        scale = max(1.0, float(np.max(np.abs(X0))), float(np.max(np.abs(want))))
        for i, (r0, r1) in enumerate(zip(rows0, rows1)):
            if tuple(r0[:7]) != tuple(r1[:7]) or tuple(r0[10:]) != tuple(r1[10:]):
                return {'what': f'non-coordinate attributes of row {i} changed', 'before': r0, 'after': r1}
            got = [float(v) for v in r1[7:10]]
            if i in comp and not n_other:
                if got != [float(v) for v in r0[7:10]]:
                    return {'what': f'unselected row {i} moved', 'before': r0[7:10], 'after': r1[7:10]}
            elif not all(abs(a - b) <= 1e-9 * scale for a, b in zip(got, want[i])):      # NaN is a disagreement too
                return {'what': f'row {i} is at {got}, the accumulated transform puts it at {[float(v) for v in want[i]]}'}
        return None
    except Exception as e:
        return {'what': f'raised {type(e).__name__}: {e}'}


def history_checks(ctx, rng, g):
    wide = ['all', 'chain', 'rowlist', 'no_chain', 'chains_all', 'rowlist_shuffled', 'no_rowlist', 'no_name', 'all']
    ex, ey, ez = [1.0, 0.0, 0.0], [0.0, 1.0, 0.0], [0.0, 0.0, 1.0]
    third = [2.0 / 3.0, -1.0 / 3.0, 2.0 / 3.0]
    plans = [('rot_axis', 200, {'axis': third, 'angle': 0.004}), ('rot_axis', 100, {'axis': ez, 'angle': -0.003}),
             ('rot_axis', 50, {'axis': ey, 'angle': 2 * math.pi / 50}), ('rot_axis', 64, {'axis': third, 'angle': 2 * math.pi + 1e-3}),
             ('rot_axis', 40, {'axis': ex, 'angle': math.pi / 2 - 1e-4}), ('rot_axis', 30, {'axis': third, 'angle': 0.7}),
             ('rot_euler', 100, {'alpha': 0.003, 'beta': 0.0, 'gamma': 0.0}), ('rot_euler', 100, {'alpha': 0.002, 'beta': -0.003, 'gamma': 0.004}),
             ('rot_euler', 60, {'alpha': 2 * math.pi - 0.002, 'beta': 0.001, 'gamma': -4 * math.pi + 0.003}),
             ('rot_euler', 30, {'alpha': 0.3, 'beta': -0.2, 'gamma': 0.5}),
             ('translation', 200, {'vect': [0.004, -0.003, 0.001]}), ('translation', 100, {'vect': [1e-6, 0.0, -2.5]})]

    def small(lo=1e-4, hi=5e-3):
        return rng.choice([-1, 1]) * 10 ** rng.uniform(math.log10(lo), math.log10(hi))

    def step_angle(N):
        r = rng.random()
        if r < 0.5:
            return small()
        if r < 0.7:
            return rng.choice([-1, 1]) * rng.uniform(0.01, 0.3)
        if r < 0.8:
            return rng.choice([-2, -1, 1, 2]) * 2 * math.pi / N          # the history closes: N steps are whole turns
        return special_angle(rng)
    for _ in range(ctx.scale(40, 1200)):
        kind = rng.choice(['rot_axis', 'rot_axis', 'rot_axis', 'rot_euler', 'rot_euler', 'translation'])
        N = rng.choice([20, 50, 100, 200] + ([500] if ctx.thorough else []))
        if kind == 'rot_axis':
            p = {'axis': unit_axis(rng, g), 'angle': step_angle(N)}
        elif kind == 'rot_euler':
            t = [step_angle(N) for _ in range(3)]
            for i in rng.sample(range(3), rng.choice([0, 0, 1, 2])):
                t[i] = 0.0
            p = {'alpha': t[0], 'beta': t[1], 'gamma': t[2]}
        else:
            p = {'vect': [round(rng.uniform(-0.5, 0.5), rng.choice([3, 6, 9])) for _ in range(3)]}
        plans.append((kind, N, p))
    first, count = {}, {}
    for j, (kind, N, p) in enumerate(plans):
        lines = make_lines(rng, rng.choice([3, 5, 8, 13, 30]))
        rows = pdb2sql(lines).get('*')
        sk, kw, mask = selection(rng, rows, rng.choice(wide))
        other = {'every': rng.choice([1, 7, 10]), 'vect': [round(rng.uniform(-2, 2), 3) for _ in range(3)]} if rng.random() < 0.3 else None
        st = dict(p, kind=kind)
        bad = run_history(lines, st, kw, mask, N, other)
        count[kind] = count.get(kind, 0) + 1
        if bad is not None and kind not in first:
            first[kind] = dict(bad, lines=lines, step=st, times=N, kwargs=kw, selkind=sk, complement_translated=other)
    out = []
    for kind, what in (('rot_axis', 'N rotations by delta about one axis are one rotation by N*delta'),
                       ('rot_euler', 'N equal Euler steps are the N-th power of the step (x by alpha, then y by beta, then z by gamma)'),
                       ('translation', 'N translations by v are one translation by N*v')):
        out.append({'name': f'history of many small steps: {what}, to 1e-9 of the coordinate scale, per atom ({count.get(kind, 0)} histories of 20-{ctx.scale(200, 500)} steps)',
                    'ok': kind not in first, 'case': first.get(kind),
                    'detail': (first[kind]['what'] if kind in first else '') + ' -- compared with an independent evaluation (math.cos/sin, vector form of the rotation) of the accumulated transform'})
    return out
