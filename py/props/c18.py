"""C18 -- align(): the chosen principal axis ends up on the requested Cartesian axis."""
import os, math, importlib
from fractions import Fraction
import numpy as np
from vlib import rat, unrat, exc_tag
from pdb2sql import pdb2sql, interface
AL = importlib.import_module('pdb2sql.align')
from props.c10 import atom_line, table_json, nprng, rand_rot

ID = 'C18'
LEVEL = 'proof'
CLUSTER = 'D'
GEN_UNITS = ['rodrigues', 'align', 'rotate', 'align_glue', 'transform_glue', '_align_along_axis', 'get_rotation_angle',
             'align_pca', 'align_get_max_pca_vect', 'align_get_min_pca_vect', 'align_export_aligned', 'align_align_pca_vect', 'align_align',
             'align_align_interface']   # the last seven: Gen/Align.lean (py/translate_ext_align.py)
PIN_TARGETS = ['PdbVerif.Pins.D']
RULE = ('structures of 8-40 atoms whose selected atoms form an anisotropic cloud with eigenvalue-gap ratio >= 1.05 at the relevant '
        'extreme (gaps from 1.05 to 50), the principal direction placed on a spherical grid of orientations (poles, coordinate axes and '
        'negative directions included, plus directions tilted by 0, 0.5, 1, 2, 4 mrad from each target axis) x axis in {x,y,z} (align, largest variance) / plane in {xy,xz,yz} (align_interface, least '
        'variance of the contact atoms of a two-chain slab) x selections (all, one chain, atom name; selections of exactly 2, 3 and 4 atoms '
        '- backbone atoms of one residue, the only CA atoms - and interfaces with exactly 3 and 4 contact atoms) x export on/off x object / file '
        'input. The real call runs in a scratch working directory; the (vector, phi, theta) the real code derived are recorded and '
        'handed to the Lean model; the resulting table is judged by the Lean Spec certificate (principal direction, one rigid rotation '
        'about the centroid, nothing but coordinates changed) and principal directions are recomputed with np.linalg.eigh. A case is '
        'non-trivial when distinct by (function, axis/plane, selection kind, export, orientation cell, gap bucket).')
ASSUMPTIONS = ['np.linalg.eigh returns an eigenvector of the covariance matrix for its extreme eigenvalue; np.arctan2 / np.arccos return the spherical angles of that vector (SphericalContract; checked on every sampled case to 1e-9, and derived from Mathlib\'s arg/arccos in spherical_contract_holds)',
               'contact atoms of align_interface are those of C05 (recomputed by brute force in the harness, away from the cutoff)',
               'floating-point evaluation stays within 1e-9 (coordinates) / 1e-6 (direction) of the exact model: sampled, not proved']

TOL = Fraction(1, 10**9)


def cloud(g, n, gap, least=False):
    """n points with principal standard deviations giving an eigenvalue ratio ~gap at the relevant extreme; principal direction e_z"""
    if least:
        sd = np.array([3.0 * math.sqrt(gap) * g.uniform(1.0, 1.6), 3.0 * math.sqrt(gap), 3.0])   # least variance along z
    else:
        sd = np.array([3.0 / g.uniform(1.0, 1.6), 3.0, 3.0 * math.sqrt(gap)])                       # largest variance along z
    Z = g.normal(size=(n, 3))
    Z = Z - Z.mean(0)
    w, V = np.linalg.eigh(np.cov(Z.T))
    Z = (Z @ V) / np.sqrt(w)                      # sample covariance exactly the identity
    X = Z * sd                                    # sample eigenvalue ratio at the relevant extreme exactly `gap`
    return X - X.mean(0)


def gap_ratio(X, least=False):
    w = np.linalg.eigvalsh(np.cov((X - X.mean(0)).T))
    return (w[1] / w[0]) if least else (w[2] / w[1])


def orient_to(X, theta, phi, g):
    """rotate so that e_z goes to the direction (theta, phi), with a random twist about it"""
    d = np.array([math.sin(theta) * math.cos(phi), math.sin(theta) * math.sin(phi), math.cos(theta)])
    a = np.cross([0, 0, 1.0], d)
    tw = g.uniform(0, 2 * math.pi)
    Rz = np.array([[math.cos(tw), -math.sin(tw), 0], [math.sin(tw), math.cos(tw), 0], [0, 0, 1]])
    if np.linalg.norm(a) < 1e-12:
        R = np.eye(3) if d[2] > 0 else np.diag([1.0, -1.0, -1.0])
    else:
        a /= np.linalg.norm(a)
        ang = math.acos(max(-1.0, min(1.0, d[2])))
        K = np.array([[0, -a[2], a[1]], [a[2], 0, -a[0]], [-a[1], a[0], 0]])
        R = np.eye(3) + math.sin(ang) * K + (1 - math.cos(ang)) * K @ K
    return X @ (R @ Rz).T


GRID = [(t, p) for t in (0.0, math.pi / 6, math.pi / 3, math.pi / 2, 2 * math.pi / 3, 5 * math.pi / 6, math.pi)
        for p in (-math.pi, -3 * math.pi / 4, -math.pi / 2, -math.pi / 4, 0.0, math.pi / 4, math.pi / 2, 3 * math.pi / 4)]


def build_align_case(rng, g, axis, selkind, export, source, theta, phi, gap):
    for _ in range(200):
        n = rng.choice([8, 12, 20, 40])
        Xs = cloud(g, n, gap)
        Xs = orient_to(Xs, theta, phi, g) + g.uniform(-20, 20, size=3)
        # atoms outside the selection: an unrelated blob (they must move along rigidly)
        m = 0 if selkind == 'all' else rng.choice([3, 8, 15])
        Xo = g.normal(size=(m, 3)) * g.uniform(1, 8, size=3) + g.uniform(-20, 20, size=3)
        Xs, Xo = np.round(Xs, 3), np.round(Xo, 3)
        if gap_ratio(Xs) >= 1.05:                        # rounding to three decimals moves the gap by ~1e-4
            break
    else:
        raise RuntimeError('could not build a cloud with the requested gap')
    lines, mask = [], []
    order = [(x, True) for x in Xs] + [(x, False) for x in Xo]
    rng.shuffle(order)
    for k, (x, insel) in enumerate(order):
        if selkind == 'chain':
            chain, name = ('A' if insel else 'B'), rng.choice([' CA ', ' C  ', ' N  '])
        elif selkind == 'name':
            chain, name = rng.choice(['A', 'B']), (' CA ' if insel else rng.choice([' C  ', ' N  ', ' O  ']))
        else:
            chain, name = rng.choice(['A', 'B']), rng.choice([' CA ', ' C  ', ' N  '])
        lines.append(atom_line(k + 1, name, 'ALA', chain, 1 + k // 3, x[0], x[1], x[2], temp=round(rng.uniform(0, 60), 2)))
        mask.append(insel)
    kwargs = {'all': {}, 'chain': {'chainID': 'A'}, 'name': {'name': 'CA'}}[selkind]
    return {'op': 'align', 'func': 'align', 'lines': lines, 'mask': mask, 'axis': axis, 'kwargs': kwargs, 'selkind': selkind,
            'export': export, 'source': source, 'least': False, 'theta': theta, 'phi': phi, 'gap': float(gap_ratio(Xs)),
            'family': 'align'}


def build_flat_case(rng, g, axis, phi, gap, rod=False):
    """a structure lying EXACTLY in a plane z = const (or a rod exactly along a direction of that plane): the chosen
    principal direction then has a z-component of exactly 0.0 - the boundary of the spherical-angle extraction"""
    for _ in range(200):
        n = rng.choice([8, 12, 20])
        u = g.normal(size=n) * 3.0 * math.sqrt(gap) * 1.3
        v = g.normal(size=n) * (0.0 if rod else 3.0)
        u, v = u - u.mean(), v - v.mean()
        X = np.stack([u * math.cos(phi) - v * math.sin(phi), u * math.sin(phi) + v * math.cos(phi), np.zeros(n)], axis=1)
        X = np.round(X + np.array([g.uniform(-20, 20), g.uniform(-20, 20), 0.0]), 3)
        X[:, 2] = round(float(g.uniform(-5, 5)), 3) if rng.random() < 0.5 else 0.0
        w = np.linalg.eigvalsh(np.cov((X - X.mean(0)).T))
        if w[1] <= 1e-12 or w[2] / w[1] >= 1.05:
            break
    lines, mask = [], []
    for k, x in enumerate(X):
        lines.append(atom_line(k + 1, rng.choice([' CA ', ' C  ', ' N  ']), 'ALA', rng.choice(['A', 'B']), 1 + k // 3, x[0], x[1], x[2], temp=round(rng.uniform(0, 60), 2)))
        mask.append(True)
    return {'op': 'align', 'func': 'align', 'lines': lines, 'mask': mask, 'axis': axis, 'kwargs': {}, 'selkind': 'all',
            'export': False, 'source': 'object', 'least': False, 'theta': math.pi / 2, 'phi': phi, 'gap': float(w[2] / w[1]) if w[1] > 1e-12 else 1e9,
            'family': 'align-flat'}


def rot_to_z(d):
    """rotation matrix R with R d = e_z (d a unit vector)"""
    a = np.cross(d, [0, 0, 1.0]); sn = np.linalg.norm(a)
    if sn < 1e-12:
        return np.eye(3) if d[2] > 0 else np.diag([1.0, -1.0, -1.0])
    a /= sn; ang = math.atan2(sn, d[2])
    K = np.array([[0, -a[2], a[1]], [a[2], 0, -a[0]], [-a[1], a[0], 0]])
    return np.eye(3) + math.sin(ang) * K + (1 - math.cos(ang)) * K @ K


def contact_mask(X, chains, cutoff, allchains=False):
    """contact atoms of chains A and B, or (allchains) of every pair of different chains"""
    X = np.asarray(X, float)
    m = [False] * len(X)
    ids = sorted(set(chains))
    pairs = [(a, b) for k, a in enumerate(ids) for b in ids[k + 1:]] if allchains else [('A', 'B')]
    for ca, cb in pairs:
        A = [i for i, c in enumerate(chains) if c == ca]; B = [i for i, c in enumerate(chains) if c == cb]
        D = np.linalg.norm(X[A][:, None] - X[B][None], axis=2)
        if np.min(np.abs(D - cutoff)) < 1e-6:
            return None
        for ii, i in enumerate(A):
            for jj, j in enumerate(B):
                if D[ii, jj] <= cutoff:
                    m[i] = m[j] = True
    return m


def build_interface_case(rng, g, plane, export, source, theta, phi, gap, three=False):
    """three=True: a third chain C lies in the slab next to A and B and the call passes allchains=True (a keyword handed on to
    get_contact_atoms): the contact atoms are then those of ALL chain pairs (round-4 seed C18-r4m2 fitted the plane to two chains only)"""
    cutoff = rng.choice([8.5, 6.0, 5.0])
    for _ in range(400):
        n = rng.choice([6, 10, 16])
        # a slab: chain A just above, chain B just below the plane z = 0; far atoms of both chains dilute the rest
        wy = math.sqrt(6.3 * gap); wx = wy * g.uniform(1.1, 1.5)
        nearA = np.column_stack([g.uniform(-wx, wx, n), g.uniform(-wy, wy, n), g.uniform(0.8, 2.0, n)])
        nearB = np.column_stack([g.uniform(-wx, wx, n), g.uniform(-wy, wy, n), g.uniform(-2.0, -0.8, n)])
        farA = np.column_stack([g.uniform(-9, 9, 4), g.uniform(-9, 9, 4), g.uniform(14, 25, 4)])
        farB = np.column_stack([g.uniform(-9, 9, 4), g.uniform(-9, 9, 4), g.uniform(-25, -14, 4)])
        X = np.vstack([nearA, farA, nearB, farB])
        chains = ['A'] * (n + 4) + ['B'] * (n + 4)
        if three:
            # chain C: a tilted sheet beside the slab, touching A and B at one edge (its contact atoms tilt the fitted plane)
            nc = rng.choice([5, 8])
            u = g.uniform(0.0, 1.0, nc)
            nearC = np.column_stack([wx + 1.5 + 6.0 * u, g.uniform(-wy, wy, nc), -1.5 + 5.0 * u + g.uniform(-0.3, 0.3, nc)])
            X = np.vstack([X, nearC])
            chains = chains + ['C'] * nc
        m0 = contact_mask(X, chains, cutoff, three)
        if m0 is None or sum(m0) < 4:
            continue
        Xc = X[np.array(m0)]
        w0, V0 = np.linalg.eigh(np.cov((Xc - Xc.mean(0)).T))
        X = (X - X.mean(0)) @ rot_to_z(V0[:, 0]).T          # the least-variance direction of the contact atoms is now exactly e_z
        X = np.round(orient_to(X, theta, phi, g) + g.uniform(-10, 10, size=3), 3)
        mask = contact_mask(X, chains, cutoff, three)
        if mask != m0:
            continue
        if three and not any(mk and ch == 'C' for mk, ch in zip(mask, chains)):
            continue
        if mask is None or sum(mask) < 4:
            continue
        if gap_ratio(X[np.array(mask)], least=True) >= 1.05:
            break
    else:
        raise RuntimeError('could not build an interface with the requested gap')
    idx = list(range(len(X)))
    lines = [atom_line(k + 1, rng.choice([' CA ', ' C  ', ' N  ']), 'ALA', chains[i], 1 + k // 3, *X[i], temp=round(rng.uniform(0, 60), 2))
             for k, i in enumerate(idx)]
    kwargs = {} if cutoff == 8.5 else {'cutoff': cutoff}
    if three:
        kwargs['allchains'] = True
    return {'op': 'align', 'func': 'align_interface', 'lines': lines, 'mask': mask, 'axis': {'xy': 'z', 'xz': 'y', 'yz': 'x'}[plane],
            'plane': plane, 'kwargs': kwargs, 'selkind': 'contacts-allchains' if three else 'contacts', 'export': export, 'source': source, 'least': True,
            'theta': theta, 'phi': phi, 'gap': float(gap_ratio(X[np.array(mask)], least=True)), 'family': 'align_interface'}


def direction_angles(axis, delta, g, sign=1.0):
    """spherical angles of the unit vector tilted by `delta` rad from sign*e_axis towards a random perpendicular direction"""
    e = np.eye(3)['xyz'.index(axis)] * sign
    p = np.cross(e, g.normal(size=3)); p /= np.linalg.norm(p)
    d = math.cos(delta) * e + math.sin(delta) * p
    return math.acos(max(-1.0, min(1.0, d[2]))), math.atan2(d[1], d[0])


def build_tilted_case(rng, g, axis, delta, least, export=False):
    """principal direction within a few mrad of the target axis (or, to rounding of the coordinates, on it): an implementation
    that decides 'already aligned' with a loose tolerance leaves it there; the 1e-6 parallelism tolerance does not"""
    theta, phi = direction_angles(axis, delta, g, rng.choice([1.0, -1.0]))
    if least:
        plane = {'z': 'xy', 'y': 'xz', 'x': 'yz'}[axis]
        c = build_interface_case(rng, g, plane, export, 'object', theta, phi, rng.choice([4.0, 12.0]))
    else:
        c = build_align_case(rng, g, axis, rng.choice(['all', 'chain', 'name']), export, 'object', theta, phi, rng.choice([5.0, 50.0]))
    c['family'] = c['family'] + '-tilted'
    c['tilt'] = delta
    return c


def small_cloud(g, k, least):
    """k = 2, 3 or 4 points with a well-separated extreme principal direction along e_z (gap >= 1.5; a triangle is elongated)"""
    for _ in range(1000):
        if least:
            X = g.normal(size=(k, 3)) * np.array([4.0, 3.0, 0.6 if k > 3 else 1.0])
        else:
            X = g.normal(size=(k, 3)) * np.array([1.0, 1.5, 5.0])
        X = X - X.mean(0)
        w, V = np.linalg.eigh(np.cov(X.T))
        if least:
            if k == 3 and w[1] < 0.5:            # a degenerate (nearly collinear) triangle has no well-defined normal
                continue
            if k > 3 and w[1] / max(w[0], 1e-300) < 1.5:
                continue
            d = V[:, 0]
        else:
            if w[1] > 1e-12 and w[2] / w[1] < 1.5:
                continue
            d = V[:, 2]
        return X @ rot_to_z(d).T                  # the extreme principal direction is now e_z
    raise RuntimeError('small cloud')


def small_gap(X, least):
    w = np.linalg.eigvalsh(np.cov((X - X.mean(0)).T))
    lo, hi = (w[0], w[1]) if least else (w[1], w[2])
    return float(min(1e9, hi / lo)) if lo > 1e-9 * max(w[2], 1e-300) else 1e9


def build_small_align_case(rng, g, axis, k, how, theta, phi):
    """the selection consists of EXACTLY k atoms (k = 3: N, CA, C of one residue, or the only three CA atoms); the rest of the
    structure is an unrelated blob that must move along rigidly"""
    for _ in range(200):
        Xs = np.round(orient_to(small_cloud(g, k, False), theta, phi, g) + g.uniform(-15, 15, size=3), 3)
        if small_gap(Xs, False) >= 1.3:
            break
    m = rng.choice([5, 9, 14])
    Xo = np.round(g.normal(size=(m, 3)) * g.uniform(2, 8, size=3) + g.uniform(-15, 15, size=3), 3)
    lines, mask = [], []
    selres = 7
    if how == 'residue':                                   # resSeq=7, name=[N, CA, C, ...]: the k backbone atoms of one residue
        names = [' N  ', ' CA ', ' C  ', ' O  '][:k]
        rows = [(x, False, rng.choice(['A', 'B']), rng.choice([' N  ', ' CA ', ' C  ', ' O  ', ' CB ']), 1 + i // 4 if 1 + i // 4 != selres else 20 + i)
                for i, x in enumerate(Xo)]
        # other atoms of the selected residue that are NOT among the selected names
        rows += [(Xo[0] + 1.0, False, 'A', ' CB ', selres)]
        rows += [(x, True, 'A', names[i], selres) for i, x in enumerate(Xs)]
        kwargs = {'resSeq': selres, 'name': [nm.strip() for nm in names]}
    else:                                                  # exactly k CA atoms in the structure
        rows = [(x, False, rng.choice(['A', 'B']), rng.choice([' N  ', ' C  ', ' O  ']), 1 + i // 3) for i, x in enumerate(Xo)]
        rows += [(x, True, rng.choice(['A', 'B']), ' CA ', 30 + i) for i, x in enumerate(Xs)]
        kwargs = {'name': 'CA'}
    rng.shuffle(rows)
    for i, (x, insel, chain, name, res) in enumerate(rows):
        lines.append(atom_line(i + 1, name, 'ALA', chain, res, x[0], x[1], x[2], temp=round(rng.uniform(0, 60), 2)))
        mask.append(insel)
    return {'op': 'align', 'func': 'align', 'lines': lines, 'mask': mask, 'axis': axis, 'kwargs': kwargs, 'selkind': f'{how}{k}',
            'export': False, 'source': 'object', 'least': False, 'theta': theta, 'phi': phi, 'gap': small_gap(Xs, False),
            'family': f'align-{k}atoms'}


def build_small_interface_case(rng, g, plane, k, theta, phi):
    """an interface with EXACTLY k contact atoms (k = 3 or 4) under a small cutoff; every other atom is far from the other chain"""
    cutoff = 4.0
    for _ in range(2000):
        C = small_cloud(g, k, True)
        C = C * (2.5 / max(1e-9, np.max(np.linalg.norm(C[:, None] - C[None], axis=2))))      # all mutual distances <= 2.5 A
        chains_c = ['A', 'B', 'A', 'B'][:k] if k == 4 else rng.choice([['A', 'A', 'B'], ['A', 'B', 'B']])
        farA = np.column_stack([g.uniform(-6, 6, 5), g.uniform(-6, 6, 5), g.uniform(25, 40, 5)])
        farB = np.column_stack([g.uniform(-6, 6, 5), g.uniform(-6, 6, 5), g.uniform(-40, -25, 5)])
        X = np.vstack([C, farA, farB])
        chains = list(chains_c) + ['A'] * 5 + ['B'] * 5
        X = np.round(orient_to(X - C.mean(0), theta, phi, g) + g.uniform(-10, 10, size=3), 3)
        mask = contact_mask(X, chains, cutoff)
        if mask is None or mask != [True] * k + [False] * 10:
            continue
        if small_gap(X[:k], True) >= 1.3 and (k > 3 or np.linalg.eigvalsh(np.cov((X[:k] - X[:k].mean(0)).T))[1] > 0.05):
            break
    else:
        raise RuntimeError('small interface')
    order = list(range(len(X))); rng.shuffle(order)
    lines = [atom_line(i + 1, rng.choice([' CA ', ' C  ', ' N  ']), 'ALA', chains[j], 1 + i // 3, *X[j], temp=round(rng.uniform(0, 60), 2))
             for i, j in enumerate(order)]
    mask = [mask[j] for j in order]
    return {'op': 'align', 'func': 'align_interface', 'lines': lines, 'mask': mask, 'axis': {'xy': 'z', 'xz': 'y', 'yz': 'x'}[plane],
            'plane': plane, 'kwargs': {'cutoff': cutoff}, 'selkind': f'contacts{k}', 'export': False, 'source': 'object', 'least': True,
            'theta': theta, 'phi': phi, 'gap': small_gap(X[:k], True), 'family': f'align_interface-{k}contacts'}


def extra_families(ctx, rng, g, reps_tilt, reps_small):
    out = []
    for rep in range(reps_tilt):
        for axis in ('x', 'y', 'z'):
            for delta in (0.0, 5e-4, 1e-3, 2e-3, 4e-3):
                out.append(build_tilted_case(rng, g, axis, delta, least=False))
                if rep % 2 == 0:
                    out.append(build_tilted_case(rng, g, axis, delta, least=True))
    for rep in range(reps_small):
        for axis in ('x', 'y', 'z'):
            for k in (2, 3, 4):
                for how in ('residue', 'ca'):
                    theta, phi = math.acos(rng.uniform(-1, 1)), rng.uniform(-math.pi, math.pi)
                    out.append(build_small_align_case(rng, g, axis, k, how, theta, phi))
        for plane in ('xy', 'xz', 'yz'):
            for k in (3, 4):
                theta, phi = math.acos(rng.uniform(-1, 1)), rng.uniform(-math.pi, math.pi)
                out.append(build_small_interface_case(rng, g, plane, k, theta, phi))
    return out


def cases(ctx):
    rng = ctx.rng
    g = nprng(rng)
    out = []
    grid = list(GRID)
    rng.shuffle(grid)
    k = 0
    # every axis x selection x export at grid orientations; the grid is covered cyclically
    for rep in range(ctx.scale(3, 40)):
        for axis in ('x', 'y', 'z'):
            for selkind in ('all', 'chain', 'name'):
                for export in (False, True):
                    theta, phi = grid[k % len(grid)]; k += 1
                    gap = rng.choice([1.051, 1.08, 1.3, 2.0, 5.0, 50.0])
                    out.append(build_align_case(rng, g, axis, selkind, export, rng.choice(['file', 'object']), theta, phi, gap))
    # the whole grid for each axis (no export)
    for axis in ('x', 'y', 'z'):
        for theta, phi in (GRID if ctx.thorough else GRID[::3]):
            out.append(build_align_case(rng, g, axis, 'all', False, 'object', theta, phi, rng.choice([1.08, 3.0])))
    for rep in range(ctx.scale(4, 60)):
        for plane in ('xy', 'xz', 'yz'):
            for export in (False, True):
                theta, phi = grid[k % len(grid)]; k += 1
                out.append(build_interface_case(rng, g, plane, export, 'object', theta, phi, rng.choice([1.2, 1.5, 4.0, 12.0])))
    for rep in range(ctx.scale(2, 20)):
        for plane in ('xy', 'xz', 'yz'):
            theta, phi = grid[k % len(grid)]; k += 1
            out.append(build_interface_case(rng, g, plane, False, 'object', theta, phi, rng.choice([1.2, 1.5, 4.0]), three=True))
    # random orientations off the grid
    for _ in range(ctx.scale(20, 1500)):
        theta, phi = math.acos(rng.uniform(-1, 1)), rng.uniform(-math.pi, math.pi)
        out.append(build_align_case(rng, g, rng.choice('xyz'), rng.choice(['all', 'chain', 'name']), False, 'object', theta, phi,
                                    rng.choice([1.051, 1.06, 1.5, 10.0])))
    # structures lying exactly in a plane z = const, and rods exactly in that plane (principal direction with z-component exactly 0)
    for kf in range(ctx.scale(6, 60)):
        for axis in ('x', 'y', 'z'):
            out.append(build_flat_case(rng, g, axis, rng.uniform(-math.pi, math.pi), rng.choice([1.5, 4.0]), rod=(kf % 3 == 0)))
    out += extra_families(ctx, rng, g, ctx.scale(2, 12), ctx.scale(2, 15))
    # histories: one or two earlier alignments of the SAME object (same selection, other axes / planes) before the call that is
    # examined; the principal direction meant by the property is that of the coordinates the object holds at the time of the call
    # (the model starts from the table observed after the prelude)
    nth = 0
    for c in out:
        if c.get('op') == 'align' and c.get('source') == 'object' and not c.get('export'):
            nth += 1
            if nth % 3 == 0:
                pool = ['xy', 'xz', 'yz'] if c['func'] == 'align_interface' else ['x', 'y', 'z']
                c['prelude'] = [rng.choice(pool) for _ in range(rng.choice([1, 1, 2]))]
                c['family'] = c.get('family', '') + '+history'
    out.append({'op': 'align_axis', 'axis': 'w', 'lines': build_align_case(rng, g, 'x', 'all', False, 'object', 1.0, 1.0, 3.0)['lines'], 'family': 'bad-axis'})
    return out


def search_cases(ctx):
    """all three axes with generic orientations"""
    rng = ctx.rng
    g = nprng(rng)
    out = []
    for _ in range(ctx.scale(20, 200)):
        for axis in ('x', 'y', 'z'):
            theta, phi = math.acos(rng.uniform(-0.95, 0.95)), rng.uniform(-math.pi, math.pi)
            out.append(build_align_case(rng, g, axis, 'all', False, 'object', theta, phi, rng.choice([1.2, 4.0])))
    for k in range(ctx.scale(12, 60)):
        for axis in ('x', 'y', 'z'):
            out.append(build_flat_case(rng, g, axis, rng.uniform(-math.pi, math.pi), rng.choice([1.5, 4.0]), rod=(k % 3 == 0)))
    out += extra_families(ctx, rng, g, ctx.scale(2, 8), ctx.scale(2, 8))
    return out


# ----------------------------------------------------------------------------------------------
# real code
# ----------------------------------------------------------------------------------------------

COLS = ['serial', 'name', 'altLoc', 'resName', 'chainID', 'resSeq', 'iCode', 'x', 'y', 'z', 'occ', 'temp', 'element', 'model']


def safe_table(rows):
    """table_json made total: (table, bad).  On well-formed rows (14 columns, integers where integers belong, FINITE numbers in
    x, y, z, occ, temp) the table is exactly table_json(rows) and bad == [].  Whatever cannot be expressed as such - None (SQLite
    stores NaN as NULL), inf, nan, text in a number column, a row of another length, something that is not a list of rows - is
    listed in `bad` as 'row i <column> = <repr>' and replaced in the table by 0 so that the drivers can still be given a line;
    a non-empty `bad` is a disagreement wherever the table is used (a coordinate that is not a finite number is no coordinate:
    the table is not a rigid rotation of the input and more than the coordinates has changed)."""
    table, bad = [], []
    try:
        rows = list(rows)
    except Exception:
        return [], [f'not a list of rows: {type(rows).__name__} {str(rows)[:60]!r}']
    for i, r in enumerate(rows):
        try:
            r = list(r)
        except Exception:
            bad.append(f'row {i} is not a row: {str(r)[:60]!r}'); r = []
        if len(r) != 14:
            bad.append(f'row {i} has {len(r)} columns')
            r = (r + [None] * 14)[:14]
        row = []
        for k, x in enumerate(r):
            if k in (0, 5, 13):
                try:
                    row.append(int(x))
                except Exception:
                    bad.append(f'row {i} {COLS[k]} = {x!r}'); row.append(0)
            elif 7 <= k <= 11:
                try:
                    if isinstance(x, (bool, str, bytes)):
                        raise TypeError
                    f = float(x)
                    if not math.isfinite(f):
                        raise ValueError
                    row.append(rat(f))
                except Exception:
                    bad.append(f'row {i} {COLS[k]} = {x!r}'); row.append('0/1')
            else:
                row.append(str(x))
        table.append(row)
    return table, bad


def bad_text(bad, nrows):
    rows = sorted({b.split()[1] for b in bad if b.startswith('row ')})
    return f'{bad[0]}' + (f' (and {len(bad) - 1} more entries, {len(rows)} of {nrows} rows)' if len(bad) > 1 else '')


def impl(ctx, c):
    """total: whatever the implementation (or the recording) does, a canonical value comes back; anything unexpected is an
    'error' value that disagrees with Model and Spec and so yields a verdict, never a harness crash"""
    c.pop('obs', None)
    cwd = os.getcwd()
    try:
        return impl_inner(ctx, c)
    except Exception as e:
        c.setdefault('obs', {})
        return {'error': 'ERR:Unexpected:' + type(e).__name__, 'message': str(e)[:200]}
    finally:
        os.chdir(cwd)


def impl_inner(ctx, c):
    if c['op'] == 'align_axis':
        db = pdb2sql(c['lines'])
        t0, bad0 = safe_table(db.get('*'))
        c['obs'] = {'db': t0}
        try:
            AL.align(db, axis=c['axis'], export=False)
        except Exception as e:
            t1, bad1 = safe_table(db.get('*'))
            return {'error': exc_tag(e), 'unchanged': t1 == t0 and bad1 == bad0}
        return {'table': safe_table(db.get('*'))[0]}
    work = os.path.join(ctx.tmpdir(), 'cwd_%d' % id(c))
    os.makedirs(work, exist_ok=True)
    rec = {}
    gra0 = AL.get_rotation_angle

    def gra(v):
        r = gra0(v)
        try:
            rec['v'], rec['angles'] = np.array(v, float).reshape(3), (float(r[0]), float(r[1]))
        except Exception:
            pass
        return r
    os.chdir(work)
    cls = interface if c['func'] == 'align_interface' else pdb2sql
    if c['source'] == 'file':
        with open('mol1.pdb', 'w') as f:
            f.write('\n'.join(c['lines']) + '\n')
        src = 'mol1.pdb'
        ref = cls(c['lines'])
    else:
        src = cls(c['lines'])
        ref = src
        if c.get('prelude'):
            # the table as parsed, before the history: what the drivers are given if the history itself ruins the table
            c['obs'] = {'db': safe_table(ref.get('*'))[0]}
        for a in c.get('prelude', []):
            try:
                if c['func'] == 'align':
                    AL.align(src, axis=a, export=False, **c['kwargs'])
                else:
                    AL.align_interface(src, plane=a, export=False, **c['kwargs'])
            except Exception:
                pass
    before = ref.get('*')
    before_table, bad = safe_table(before)
    if bad:
        # every call of a history is itself a call of align / align_interface on a valid structure: a table that no longer
        # holds finite coordinates after it is the violation (the input of the case is the replay)
        c.setdefault('obs', {'db': []})
        return {'nonfinite': ('after the earlier call(s) ' + ', '.join(f'{c["func"]}({a!r})' for a in c.get('prelude', [])) + ' of the history: '
                              if c.get('prelude') else 'the table as parsed: ') + bad_text(bad, len(before_table)),
                'table': before_table, 'new_files': [], 'recorded': False}
    c['obs'] = {'db': before_table}
    files0 = set(os.listdir('.'))
    AL.get_rotation_angle = gra
    try:
        if c['func'] == 'align':
            sql = AL.align(src, axis=c['axis'], export=c['export'], **c['kwargs'])
        else:
            sql = AL.align_interface(src, plane=c['plane'], export=c['export'], **c['kwargs'])
    except Exception as e:
        return {'error': exc_tag(e), 'message': str(e)[:200]}
    finally:
        AL.get_rotation_angle = gra0
    new_files = sorted(set(os.listdir('.')) - files0)
    try:
        after = sql.get('*')
    except Exception as e:
        return {'error': 'ERR:Unexpected:return-value', 'message': f'{type(sql).__name__}: {e}'[:200]}
    out_table, bad = safe_table(after)
    c['obs']['out'] = out_table
    res = {'table': out_table, 'new_files': new_files, 'recorded': 'angles' in rec}
    if bad:
        res['nonfinite'] = f'after {c["func"]}: ' + bad_text(bad, len(out_table))
    if 'angles' in rec:
        phi, theta = rec['angles']
        v = rec['v']
        if np.all(np.isfinite(v)) and math.isfinite(phi) and math.isfinite(theta):
            c['obs'].update({'v': [rat(x) for x in v], 'r': rat(float(np.linalg.norm(v))),
                             'cp': rat(float(np.cos(phi))), 'sp': rat(float(np.sin(phi))),
                             'ct': rat(float(np.cos(theta))), 'st': rat(float(np.sin(theta)))})
        else:
            # nothing the Model could be handed: the driver line falls back to its defaults and the comparison reports this
            res['angles_not_finite'] = f'vector {[float(x) for x in v]}, (phi, theta) = ({phi!r}, {theta!r})'
    # independent recomputation of the principal direction of the selected atoms after the call
    e = np.eye(3)['xyz'.index(c['axis'])]
    try:
        Xa = np.array([r[7:10] for r, m in zip(after, c['mask']) if m], float)
        w, V = np.linalg.eigh(np.cov((Xa - Xa.mean(0)).T))
        d = V[:, 0] if c['least'] else V[:, 2]
        res['sin_angle_to_axis'] = float(np.linalg.norm(np.cross(d, e)))
    except Exception:
        res['sin_angle_to_axis'] = 2.0
    if not math.isfinite(res['sin_angle_to_axis']):       # NaN compares False with everything: it must not pass as 'small'
        res['sin_angle_to_axis'] = 2.0
    # the vector the code aligned must be the extreme principal direction of the selection before the call
    try:
        Xb = np.array([r[7:10] for r, m in zip(before, c['mask']) if m], float)
        wb, Vb = np.linalg.eigh(np.cov((Xb - Xb.mean(0)).T))
        db_ = Vb[:, 0] if c['least'] else Vb[:, 2]
        res['vector_is_principal'] = float(np.linalg.norm(np.cross(db_, rec['v'] / np.linalg.norm(rec['v'])))) if 'v' in rec else 2.0
    except Exception:
        res['vector_is_principal'] = 2.0
    if not math.isfinite(res['vector_is_principal']):     # the zero vector (or a non-finite one) is not a principal direction
        res['vector_is_principal'] = 2.0
    return res


def driver_line(c):
    obs = c.get('obs') or {}
    if c['op'] == 'align_axis':
        return {'op': 'align_axis', 'axis': c['axis'], 'db': obs.get('db', [])}
    d = {'op': 'align', 'axis': c['axis'], 'sel': c['mask'], 'least': c['least'], 'db': []}
    d.update(obs)
    if 'v' not in d:                       # nothing was recorded (the implementation raised, or never computed the angles)
        d.update({'v': ['0/1'] * 3, 'r': '1/1', 'cp': '1/1', 'sp': '0/1', 'ct': '1/1', 'st': '0/1'})
    if 'out' not in d:
        # the implementation raised, returned something that is not a database, or ruined the table during the history: the Spec
        # driver answers null on a line without 'out' and the runner skips agree_spec on a null answer - the outcome would
        # then never become a Spec verdict with this input.  The table before the call stands in; agree_spec reports the
        # outcome recorded in the implementation output before it looks at the certificate.
        d['out'] = d['db']
    return d


# ----------------------------------------------------------------------------------------------
# comparison
# ----------------------------------------------------------------------------------------------

def total(f):
    """a comparison never raises: what it cannot make sense of is a disagreement"""
    def g(c, out, other):
        try:
            return f(c, out, other)
        except Exception as e:
            return f'comparison impossible ({type(e).__name__}: {e}); implementation output {str(out)[:120]}'
    g.__name__ = f.__name__
    return g


@total
def agree_model(c, out, model):
    if c['op'] == 'align_axis':
        m = model['table']
        if 'error' in out:
            return True if m == out['error'] else f'implementation raised {out["error"]}, model {str(m)[:60]!r}'
        return f'implementation accepted axis {c["axis"]!r}'
    if 'error' in out:
        return f'implementation raised {out["error"]}: {out.get("message")}'
    if out.get('nonfinite'):
        return 'the table does not hold finite coordinates (' + out['nonfinite'] + '); the model returns a table of rationals'
    m = model['table']
    if isinstance(m, str):
        return f'model {m!r}, implementation returned a table'
    if out.get('angles_not_finite'):
        return 'the rotation angles the implementation derived are not finite numbers: ' + out['angles_not_finite']
    if not out.get('recorded'):
        return 'the implementation returned without computing the rotation angles of the principal vector (get_rotation_angle was never called)'
    if model['nsel'] != sum(c['mask']):
        return 'selection mask inconsistent'
    if unrat(model['spherical']) > Fraction(1, 10**9):
        return f'arctan2/arccos outside their contract: defect {float(unrat(model["spherical"])):.3e}'
    if len(m) != len(out['table']):
        return 'row counts differ'
    scale = max([Fraction(1)] + [abs(unrat(r[k])) for r in m for k in (7, 8, 9)])
    for i, (a, b) in enumerate(zip(out['table'], m)):
        for k in range(14):
            if k in (7, 8, 9):
                if abs(unrat(a[k]) - unrat(b[k])) > TOL * scale:
                    return f'row {i} column {k}: implementation {float(unrat(a[k]))!r}, model {float(unrat(b[k]))!r}'
            elif (unrat(a[k]) if k in (10, 11) else a[k]) != (unrat(b[k]) if k in (10, 11) else b[k]):
                return f'row {i} non-coordinate column {k}: implementation {a[k]!r}, model {b[k]!r}'
    return True


@total
def agree_spec(c, out, spec):
    if c['op'] == 'align_axis':
        if 'error' in out:
            return True if (spec == 'NO-SUCH-AXIS' and out['error'] == 'ERR:ValueError' and out['unchanged']) else f'axis {c["axis"]!r}: {out}'
        return f'implementation accepted axis {c["axis"]!r}'
    if 'error' in out:
        return f'implementation raised {out["error"]}: {out.get("message")}'
    if out.get('nonfinite'):
        return ('the table does not hold finite coordinates (' + out['nonfinite'] + '): not a rigid rotation of the input, '
                'no principal direction on the axis, and more than the values of the coordinates has changed')
    bad = []
    if spec is None:
        return 'the Spec could not be evaluated on the implementation output'
    scale = max([Fraction(1)] + [abs(unrat(r[k])) for r in out['table'] for k in (7, 8, 9)])
    gap = min(c['gap'], 1e6)
    # e is an eigenvector: |S e - lam e| / tr S small relative to the relative gap (direction error ~ defect / gap)
    rel_gap = (gap - 1) / (gap + 2)
    if float(unrat(spec['offAxis'])) > 1e-6 * max(rel_gap, 1e-3) * 0.5:
        bad.append(f'the {"least" if c["least"] else "largest"}-variance direction is not parallel to the axis (eigen-defect {float(unrat(spec["offAxis"])):.3e})')
    if float(unrat(spec['minMinor'])) < -1e-7:
        bad.append('the axis is an eigen-direction but not the extreme one')
    if not out['sin_angle_to_axis'] <= 1e-6:
        bad.append(f'independent eigh: angle to the axis {out["sin_angle_to_axis"]:.3e}')
    if out.get('recorded') and not out['vector_is_principal'] <= 1e-6:
        bad.append('the vector handed to the alignment is not the extreme principal direction of the selection')
    if unrat(spec['centroidShift']) > TOL * scale:
        bad.append('the centroid of the structure moved')
    if unrat(spec['gramDefect']) > TOL * scale * scale * 10:
        bad.append('not a rigid motion of the whole structure (Gram matrix changed)')
    if unrat(spec['orientDefect']) > TOL * scale ** 3 * 10:
        bad.append('handedness changed')
    if spec['attrsChanged'] != 0:
        bad.append('something other than coordinates changed')
    nf = out['new_files']
    if c['export'] and len(nf) != 1:
        bad.append(f'export requested: files written {nf}')
    if not c['export'] and nf:
        bad.append(f'no export requested but files were written: {nf}')
    return True if not bad else '; '.join(bad)


def nontrivial_key(c, out):
    if c['op'] == 'align_axis':
        return ['bad-axis']
    cell = (round(c['theta'] / (math.pi / 6)), round(c['phi'] / (math.pi / 4)))
    if 'tilt' in c:
        cell = ('tilt', c['tilt'])
    gb = 0 if c['gap'] < 1.2 else 1 if c['gap'] < 3 else 2
    return [c['func'], c.get('plane', c['axis']), c['selkind'], c['export'], c['source'], cell, gb]


def distribution(recs):
    d = {'func': {}, 'axis': {}, 'selection': {}, 'export': {}, 'gap': {}, 'source': {}}
    for r in recs:
        c = r['case']
        if c['op'] != 'align':
            continue
        for k, v in (('func', c['func']), ('axis', c.get('plane', c['axis'])), ('selection', c['selkind']), ('export', str(c['export'])),
                     ('gap', '<1.2' if c['gap'] < 1.2 else '<3' if c['gap'] < 3 else '>=3'), ('source', c['source'])):
            d[k][v] = d[k].get(v, 0) + 1
    gaps = [r['case']['gap'] for r in recs if r['case']['op'] == 'align']
    d['min_gap'] = min(gaps) if gaps else None
    return d


# ==============================================================================================
# BEGIN alignTie: translated align.py (tie #1) -- the real code vs the functions GENERATED from it (Gen/Align.lean)
# ==============================================================================================

def gen_align_checks(ctx):
    """align / align_interface / align_pca_vect / export_aligned / pca / get_max_pca_vect / get_min_pca_vect: the real code and the Lean
    functions `GenA.*` that py/translate_ext_align.py regenerates from align.py on every run (driver op `gen_align`) on the same inputs.
    The world the generated functions take as parameters is what the harness observed while the real code ran: `np.linalg.eigh`'s
    output (or exception), `np.linalg.norm`, `np.arctan2`, `np.arccos`, `np.cos`, `np.sin` as finite tables keyed by the EXACT
    rational argument (computed here with fractions the way the generated code computes it), `np.pi`; `np.cov` is exact in Lean
    and compared with NumPy's.  Required: same exception class, same table (coordinates to 1e-9 of the scale, every other column
    identical), same exported file names and contents (files: 3 decimals)."""
    import json, warnings
    import vlib
    rng = ctx.rng
    g = nprng(rng)
    F = Fraction
    PI = float(np.pi)
    work = os.path.join(ctx.tmpdir(), 'gen_align')
    os.makedirs(work, exist_ok=True)
    cwd = os.getcwd()

    def observe(fn):
        """run fn() with np.cov / np.linalg.eigh / get_rotation_angle / pca recorded"""
        rec = {'cov': [], 'eigh': [], 'gra': [], 'pca': []}
        cov0, eigh0, gra0, pca0 = np.cov, np.linalg.eigh, AL.get_rotation_angle, AL.pca

        def cov(m, *a, **k):
            r = cov0(m, *a, **k)
            rec['cov'].append((np.array(m, float), np.array(r, float)))
            return r

        def eigh(m, *a, **k):
            try:
                r = eigh0(m, *a, **k)
            except Exception as e:
                rec['eigh'].append(exc_tag(e))
                raise
            rec['eigh'].append((np.array(r[0], float), np.array(r[1], float)))
            return r

        def gra(v):
            r = gra0(v)
            try:
                rec['gra'].append((np.array(v, float).reshape(3), float(r[0]), float(r[1])))
            except Exception:
                pass
            return r

        def pca(m):
            rec['pca'].append(np.array(m, float))
            return pca0(m)
        np.cov, np.linalg.eigh, AL.get_rotation_angle, AL.pca = cov, eigh, gra, pca
        try:
            with warnings.catch_warnings():
                warnings.simplefilter('ignore')
                try:
                    return rec, fn()
                except Exception as e:
                    return rec, exc_tag(e)
        finally:
            np.cov, np.linalg.eigh, AL.get_rotation_angle, AL.pca = cov0, eigh0, gra0, pca0

    def world(rec):
        """the observed values as driver fields"""
        d = {'pi': rat(PI)}
        if rec['eigh']:
            e = rec['eigh'][-1]
            if isinstance(e, str):
                d['eig_err'] = e
            elif np.all(np.isfinite(e[0])) and np.all(np.isfinite(e[1])) and e[0].shape == (3,) and e[1].shape == (3, 3):
                d['eig_u'] = [rat(x) for x in e[0]]
                d['eig_V'] = [rat(x) for x in e[1].ravel()]
            else:
                d['eig_err'] = 'not finite'
        if rec['gra']:
            v, phi, theta = rec['gra'][-1]
            if np.all(np.isfinite(v)) and math.isfinite(phi) and math.isfinite(theta):
                r = float(np.linalg.norm(v))
                d['norm'] = [[rat(v[0]), rat(r)]]
                d['arctan2'] = [[rat(v[1]), rat(phi)]]
                if r != 0:
                    q = F(float(v[2])) / F(r)
                    d['arccos'] = [[rat(q), rat(theta)]]
                fp, ft, fpi = F(phi), F(theta), F(PI)
                keys = [-fp, fpi / 2 - ft, fpi / 2 - fp, ft - fpi / 2, -ft]
                vals = [-phi, np.pi / 2 - theta, np.pi / 2 - phi, theta - np.pi / 2, -theta]
                cs, sn = {}, {}
                for k, a in zip(keys, vals):       # equal keys denote equal real angles up to one rounding: first one wins, as in the driver
                    cs.setdefault(k, float(np.cos(a))); sn.setdefault(k, float(np.sin(a)))
                d['cos'] = [[rat(k), rat(v_)] for k, v_ in cs.items()]
                d['sin'] = [[rat(k), rat(v_)] for k, v_ in sn.items()]
        return d

    def table_of(db):
        """total: a table, or a text saying why what the real code left behind is not one (None / nan / inf coordinates, ...);
        the text differs from every table the generated code can return, so it is reported by the comparison"""
        try:
            t, bad = safe_table(db.get('*'))
        except Exception as e:
            return f'unreadable table ({exc_tag(e)}: {str(e)[:80]})'
        return t if not bad else 'not a table of finite numbers: ' + bad_text(bad, len(t))

    def rats(xs):
        """exact rationals of an array of floats, or a text when they are not all finite numbers"""
        try:
            xs = [float(x) for x in np.array(xs, float).ravel()]
        except Exception as e:
            return f'not numbers ({type(e).__name__})'
        return [rat(x) for x in xs] if all(math.isfinite(x) for x in xs) else f'not finite: {xs[:9]}'

    def close(a, b, tol, scale):
        return abs(unrat(a) - unrat(b)) <= tol * scale

    def cmp_tables(real, gen, tol):
        if isinstance(real, str) or isinstance(gen, str):
            return None if real == gen else f'real {str(real)[:160]}, generated {str(gen)[:80]}'
        if len(real) != len(gen):
            return f'row counts differ: real {len(real)}, generated {len(gen)}'
        scale = max([F(1)] + [abs(unrat(r[k])) for r in gen for k in (7, 8, 9)])
        for i, (a, b) in enumerate(zip(real, gen)):
            for k in range(14):
                if k in (7, 8, 9):
                    if not close(a[k], b[k], tol, scale):
                        return f'row {i} column {k}: real {float(unrat(a[k]))!r}, generated {float(unrat(b[k]))!r}'
                elif (unrat(a[k]) if k in (10, 11) else a[k]) != (unrat(b[k]) if k in (10, 11) else b[k]):
                    return f'row {i} column {k}: real {a[k]!r}, generated {b[k]!r}'
        return None

    def new_files(before):
        return sorted(set(os.listdir('.')) - before)

    def read_files(names):
        out = []
        for n in names:
            try:
                out.append([n, table_of(pdb2sql(n))])
            except Exception as e:
                out.append([n, 'unreadable: ' + exc_tag(e)])
        return out

    lines_d, meta = [], []

    def add(line, real, what):
        lines_d.append(line); meta.append((what, real))

    crashes = []

    def crashed(what, e, inp):
        """whatever the real code returned or raised that the observation cannot make sense of is a disagreement with its input"""
        crashes.append({'what': what, 'why': f'the observation of the real code failed ({type(e).__name__}: {str(e)[:160]})', 'driver_line': inp})

    # ---- whole calls: align / align_interface ---------------------------------------------------
    def whole(c, kwargs=None, axis=None, plane=None, tag=None):
        try:
            whole_(c, kwargs, axis, plane, tag)
        except Exception as e:
            os.chdir(cwd)
            crashed(tag or c['family'], e, {'func': c['func'], 'lines': c['lines'], 'axis': axis or c.get('axis'), 'plane': plane or c.get('plane'),
                                            'kwargs': c['kwargs'] if kwargs is None else kwargs, 'export': c['export'], 'source': c['source']})

    def whole_(c, kwargs=None, axis=None, plane=None, tag=None):
        kwargs = dict(c['kwargs']) if kwargs is None else kwargs
        sub = os.path.join(work, 'w%d' % len(lines_d))
        os.makedirs(sub, exist_ok=True)
        os.chdir(sub)
        try:
            cls = interface if c['func'] == 'align_interface' else pdb2sql
            if c['source'] == 'file':
                with open('mol1.pdb', 'w') as f:
                    f.write('\n'.join(c['lines']) + '\n')
                src, ref = 'mol1.pdb', cls('mol1.pdb')
            else:
                src = ref = cls(c['lines'])
            before = ref.get('*')
            pdbfile = ref.pdbfile if isinstance(ref.pdbfile, str) else None
            files0 = set(os.listdir('.'))
            if c['func'] == 'align':
                ax = c['axis'] if axis is None else axis
                rec, res = observe(lambda: AL.align(src, axis=ax, export=c['export'], **kwargs))
                try:
                    sel = ref.get('rowID', **kwargs)
                except Exception:
                    sel = []
                mask = [i in set(sel) for i in range(len(before))]
                line = {'op': 'gen_align', 'func': 'align', 'axis': ax, 'sel': mask}
            else:
                pl = c['plane'] if plane is None else plane
                rec, res = observe(lambda: AL.align_interface(src, plane=pl, export=c['export'], **kwargs))
                line = {'op': 'gen_align', 'func': 'align_interface', 'plane': pl}
                for k, v in kwargs.items():
                    line[k] = rat(F(str(v))) if k == 'cutoff' else v
            line.update({'db': table_json(before), 'pdbfile': pdbfile, 'is_object': c['source'] != 'file', 'export': c['export']})
            line.update(world(rec))
            if isinstance(res, str):
                real = {'error': res, 'files': new_files(files0)}
                if c['source'] != 'file':
                    real['table_after'] = table_of(ref)
            else:
                nf = new_files(files0)
                real = {'table': table_of(res), 'files': read_files(nf), 'pdbfile': res.pdbfile if isinstance(res.pdbfile, str) else None,
                        'same_object': (res is src) if c['source'] != 'file' else None}
            add(line, real, tag or c['family'])
        finally:
            os.chdir(cwd)

    grid = list(GRID)
    rng.shuffle(grid)
    k = 0
    for rep in range(ctx.scale(1, 8)):
        for axis in ('x', 'y', 'z'):
            for selkind in ('all', 'chain', 'name'):
                theta, phi = grid[k % len(grid)]; k += 1
                c = build_align_case(rng, g, axis, selkind, rep % 2 == 0 or rng.random() < 0.5, rng.choice(['file', 'object']), theta, phi,
                                     rng.choice([1.08, 1.3, 2.0, 5.0, 50.0]))
                whole(c)
        for plane in ('xy', 'xz', 'yz'):
            theta, phi = grid[k % len(grid)]; k += 1
            c = build_interface_case(rng, g, plane, rng.random() < 0.5, rng.choice(['file', 'object']), theta, phi, rng.choice([1.5, 4.0, 12.0]))
            extra = rng.choice([{}, {}, {'return_contact_pairs': True}, {'extend_to_residue': True}, {'allchains': True},
                                {'chain1': 'B', 'chain2': 'A'}, {'only_backbone_atoms': True}])
            kw = dict(c['kwargs']); kw.update(extra)
            whole(c, kwargs=kw, tag='align_interface' + (':' + next(iter(extra)) if extra else ''))
    # structures in a plane / rods, tilted and small selections (boundaries of the angle extraction, few atoms)
    for axis in ('x', 'y', 'z'):
        whole(build_flat_case(rng, g, axis, rng.uniform(-math.pi, math.pi), 4.0, rod=rng.random() < 0.5))
        whole(build_tilted_case(rng, g, axis, rng.choice([0.0, 1e-3]), least=False))
    for _ in range(ctx.scale(2, 10)):
        theta, phi = math.acos(rng.uniform(-1, 1)), rng.uniform(-math.pi, math.pi)
        whole(build_small_align_case(rng, g, rng.choice('xyz'), rng.choice([2, 3, 4]), rng.choice(['residue', 'ca']), theta, phi))
        whole(build_small_interface_case(rng, g, rng.choice(['xy', 'xz', 'yz']), rng.choice([3, 4]), theta, phi))
    # error paths
    for rep in range(ctx.scale(1, 4)):
        theta, phi = grid[k % len(grid)]; k += 1
        c = build_align_case(rng, g, 'x', 'chain', rng.random() < 0.5, rng.choice(['file', 'object']), theta, phi, 3.0)
        whole(c, axis=rng.choice(['w', 'X', '', 'xy']), tag='bad axis')
        whole(c, kwargs={'chainID': 'Q'}, tag='empty selection')
        whole(c, kwargs={'rowID': [rng.randrange(len(c['lines']))]}, tag='one atom selected')
        ci = build_interface_case(rng, g, 'xy', rng.random() < 0.5, 'object', theta, phi, 4.0)
        whole(ci, plane=rng.choice(['zz', 'x', 'yx', '']), tag='bad plane')
        whole(ci, kwargs={'cutoff': 0.05}, tag='no contact')
        whole(ci, kwargs={'chain1': 'Q'}, tag='unknown chain')

    # ---- align_pca_vect directly ------------------------------------------------------------------
    for rep in range(ctx.scale(4, 30)):
        c = build_align_case(rng, g, 'x', 'all', False, 'object', 1.0, 1.0, 3.0)
        db = pdb2sql(c['lines'])
        before = db.get('*')
        v = g.normal(size=3) * rng.choice([1.0, 1e-3, 50.0])
        if rep % 5 == 0:
            v[rng.randrange(3)] = 0.0
        if rep % 7 == 0:
            v = np.array([0.0, 0.0, rng.choice([1.0, -2.0])])
        ax = 'q' if rep % 4 == 3 else rng.choice(['x', 'y', 'z'])
        line = {'op': 'gen_align', 'func': 'align_pca_vect', 'axis': ax, 'db': table_json(before), 'vect': [rat(x) for x in v]}
        try:
            rec, res = observe(lambda: AL.align_pca_vect(db, v, ax))
            line.update(world(rec))
            real = {'error': res, 'table_after': table_of(db)} if isinstance(res, str) else {'table': table_of(res), 'same_object': res is db}
            add(line, real, 'align_pca_vect')
        except Exception as e:
            crashed('align_pca_vect', e, line)

    # ---- export_aligned: the file name ----------------------------------------------------------
    names = ['mol1.pdb', 'a.b.pdb', 'pdb.pdb', 'model', 'decoy.pdbb', 'x.pdb.pdb', 'bdp', 'complex_1.ent', 'ab.pd', None, 'p', '1AK4.PDB']
    for nm in names[:ctx.scale(6, 12)] if not ctx.thorough else names:
        c = build_align_case(rng, g, 'x', 'all', False, 'object', 1.0, 1.0, 3.0)
        sub = os.path.join(work, 'e%d' % len(lines_d))
        os.makedirs(sub, exist_ok=True)
        os.chdir(sub)
        try:
            db = pdb2sql(c['lines'])
            if nm is not None:
                db.pdbfile = nm
            files0 = set(os.listdir('.'))
            line = {'op': 'gen_align', 'func': 'export_aligned', 'db': table_json(db.get('*')), 'pdbfile': nm}
            rec, res = observe(lambda: AL.export_aligned(db))
            real = {'error': res} if isinstance(res, str) else {'files': read_files(new_files(files0))}
            add(line, real, 'export_aligned')
        except Exception as e:
            crashed('export_aligned', e, {'func': 'export_aligned', 'lines': c['lines'], 'pdbfile': nm})
        finally:
            os.chdir(cwd)

    # ---- pca / get_max_pca_vect / get_min_pca_vect --------------------------------------------------
    for rep in range(ctx.scale(10, 80)):
        n = [0, 1, 2, 3, 4, 7, 20][rep % 7]
        X = np.round(g.normal(size=(n, 3)) * g.uniform(0.5, 9, size=3) + g.uniform(-30, 30, size=3), 3)
        xyz = np.array([list(map(float, r)) for r in X]) if n else np.array([])
        line = {'op': 'gen_align', 'func': 'pca', 'xyz': [[rat(x) for x in r] for r in X]}
        try:
            rec, res = observe(lambda: AL.pca(xyz))
            line.update(world(rec))
            real = {'pca': res if isinstance(res, str) else [rats(res[0]), rats(res[1])],
                    'cov': [rat(x) for x in rec['cov'][-1][1].ravel()] if rec['cov'] and np.all(np.isfinite(rec['cov'][-1][1])) else None}
        except Exception as e:
            crashed('pca', e, line)
            continue
        # the selection of the extreme eigenvector, with ties: a synthetic decomposition handed to get_max / get_min through `pca`
        u = [float(rng.choice([-1.0, 0.0, 0.5, 2.0, 2.0, 3.5])) for _ in range(3)]
        V = np.round(g.normal(size=(3, 3)), 3)
        pca0 = AL.pca
        AL.pca = lambda m: (np.array(u), V)
        try:
            for kk, fn in (('max', AL.get_max_pca_vect), ('min', AL.get_min_pca_vect)):
                try:
                    real[kk] = rats(fn(xyz))
                except Exception as e:
                    real[kk] = exc_tag(e)
        finally:
            AL.pca = pca0
        line2 = dict(line); line2.update({'eig_u': [rat(x) for x in u], 'eig_V': [rat(x) for x in V.ravel()]}); line2.pop('eig_err', None)
        add(line, real, 'pca')
        add(line2, {'sel': True, 'max': real['max'], 'min': real['min'], 'n': n}, 'pca-select')

    # ---- through the driver -----------------------------------------------------------------------
    try:
        ans = vlib.run_driver(lines_d, which='model', cluster=CLUSTER) if lines_d else []
    except Exception as e:
        return [{'name': 'generated align.py: model driver not available (' + repr(e)[:120] + ')', 'ok': True, 'case': None, 'detail': 'skipped'}]
    bad, stats = None, {}
    TOLR = F(1, 10**9)

    def short(line):
        return {k: (v if not isinstance(v, list) or len(v) < 8 else v[:8] + ['...']) for k, v in line.items()}

    def judge_line(line, what, real, a):
        try:
            return judge_line_(line, what, real, a)
        except Exception as e:       # a comparison never raises: what it cannot make sense of is a disagreement
            return what, f'comparison impossible ({type(e).__name__}: {str(e)[:120]}); real code: {str(real)[:160]}; generated: {str(a.get("model"))[:160]}'

    def judge_line_(line, what, real, a):
        m = a.get('model')
        why = None
        tag = what
        if isinstance(m, dict) and 'driver_error' in m:
            why = 'driver error: ' + str(m['driver_error'])
        elif line['func'] in ('align', 'align_interface', 'align_pca_vect'):
            if 'error' in real:
                tag = what + ':' + real['error']
                if m != real['error']:
                    why = f'real code raised {real["error"]}, generated: {str(m)[:80]}'
                elif real.get('files'):
                    why = f'real code raised {real["error"]} after writing {real["files"]}'
                elif 'table_after' in real and real['table_after'] != line['db']:
                    why = f'real code raised {real["error"]} after changing the table'
            else:
                tag = what + ':ok'
                if isinstance(m, str):
                    why = f'real code returned, generated: {m[:80]}'
                else:
                    why = cmp_tables(real['table'], m['db']['table'], TOLR)
                    if why is None and real.get('same_object') is False:
                        why = 'the real code returned another object than the one it was given'
                    if why is None and 'files' in m:
                        rf, gf = real['files'], m['files']
                        if [f[0] for f in rf] != [f[0] for f in gf]:
                            why = f'files written: real {[f[0] for f in rf]}, generated {[f[0] for f in gf]}'
                        else:
                            for (n1, t1), (_, t2) in zip(rf, gf):
                                w2 = t1 if isinstance(t1, str) else cmp_tables(t1, t2, F(6, 10**4) / max(F(1), max([abs(unrat(r[k])) for r in t2 for k in (7, 8, 9)] + [F(1)])))
                                if w2:
                                    why = f'file {n1}: {w2}'
                    if why is None and line['func'] != 'align_pca_vect' and (real.get('pdbfile') != m['db']['pdbfile']):
                        why = f'pdbfile of the returned object: real {real.get("pdbfile")!r}, generated {m["db"]["pdbfile"]!r}'
        elif line['func'] == 'export_aligned':
            tag = what
            if 'error' in real:
                why = None if m == real['error'] else f'real code raised {real["error"]}, generated: {str(m)[:80]}'
            elif isinstance(m, str):
                why = f'real code returned, generated: {m[:80]}'
            elif [f[0] for f in real['files']] != [f[0] for f in m['files']]:
                why = f'files written: real {[f[0] for f in real["files"]]}, generated {[f[0] for f in m["files"]]}'
        elif real.get('sel'):
            tag = what
            for kk in ('max', 'min'):
                if real['n'] == 0:
                    # get_max_pca_vect(np.array([])) with `pca` replaced: the replacement hides pca's exception; the generated code raises it
                    continue
                if m[kk] != real[kk]:
                    why = f'get_{kk}_pca_vect: real {real[kk]}, generated {m[kk]}'
        else:
            tag = what + ':' + (real['pca'] if isinstance(real['pca'], str) else 'ok')
            if isinstance(real['pca'], str) or isinstance(m['pca'], str):
                if m['pca'] != real['pca'] and not (isinstance(real['pca'], list) and isinstance(m['pca'], str) and 'UNMODELLED' in m['pca']):
                    why = f'pca: real {str(real["pca"])[:60]}, generated {str(m["pca"])[:60]}'
            elif m['pca']['u'] != real['pca'][0] or m['pca']['V'] != real['pca'][1]:
                why = 'pca does not return what eigh returned'
            if why is None and real['cov'] is not None and not isinstance(m['cov'], str):
                sc = max([F(1)] + [abs(unrat(x)) for x in m['cov']])
                if any(abs(unrat(x) - unrat(y)) > TOLR * sc for x, y in zip(real['cov'], m['cov'])):
                    why = f'the matrix handed to eigh: real {[float(unrat(x)) for x in real["cov"]]}, generated {[float(unrat(x)) for x in m["cov"]]}'
        return tag, why

    for line, (what, real), a in zip(lines_d, meta, ans):
        tag, why = judge_line(line, what, real, a)
        stats[tag] = stats.get(tag, 0) + 1
        if why and bad is None:
            bad = {'what': what, 'why': why, 'driver_line': short(line)}
    if crashes and bad is None:
        bad = crashes[0]
    nerr = sum(v for t, v in stats.items() if ':ERR' in t)
    nok = sum(v for t, v in stats.items() if t.endswith(':ok'))
    return [{'name': f'align.py = its translation (Gen/Align.lean): align, align_interface, align_pca_vect, export_aligned, pca, get_max/min_pca_vect on '
                     f'{len(lines_d)} inputs ({nerr} exceptions; outcomes {dict(sorted(stats.items()))})',
             'ok': bad is None and len(lines_d) > 40 and nerr >= 6 and nok >= 20, 'case': bad,
             'detail': (bad or {}).get('why', 'driver op gen_align runs GenA.* with the observed eigen-decomposition / trig values; tables to 1e-9, files to 3 decimals'),
             'kind': 'gen-align'}]


def extra_checks(ctx):
    return gen_align_checks(ctx)

# ==============================================================================================
# END alignTie
# ==============================================================================================
