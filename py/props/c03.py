"""C03 -- selection: get() returns exactly the rows satisfying AND-of-keys, OR-of-values.

Also hosts the helpers shared by the modules of cluster B (c04, c17, c15, c19): building databases from generated
ATOM lines, JSON transport of values / tables / keyword arguments, canonical form of answers and exceptions."""
import contextlib, copy, io, itertools, sqlite3, sys, warnings
from fractions import Fraction
import numpy as np
import vlib
from vlib import rat, unrat, exc_tag
from pdb2sql import pdb2sql, many2sql, interface

ID = 'C03'
LEVEL = 'proof'
CLUSTER = 'B'
GEN_UNITS = ['Consts', 'sql_runtime', 'sql_get_nokw', 'sql_get_cond', 'sql_get_query', 'sql_format_get_output', 'get_runtime', 'get_get', 'get_get_xyz', 'get_get_residues', 'get_get_chains']
RULE = ('Tables of 0-40 atoms drawn from small value pools (so that conditions hit and miss). Per table: EVERY subset of size <= 4 '
        'of a pool of 6 conditions with distinct keys (bounded-exhaustive), EVERY ordered attribute list of length 1-4 over a pool of 4 '
        'attributes (rowID always among them) plus "*", then seeded random conjunctions of 0-4 positive/negated conditions over every '
        'attribute type (text, int, real, rowID), scalar and list valued, values present and absent, string forms of numbers, numbers '
        'against text attributes; get_xyz / get_residues / get_chains on random selections; a malformed stream (unknown attribute / '
        'condition names, padded names, non-integer rowID values, letter-case variants of names). Every third query carries its condition '
        'values in NumPy scalars (np.int64 rowIDs, np.float64, np.str_), every fourth is issued twice on the same object (answers must '
        'coincide); all queries of a table, well-formed and malformed, share ONE object. '
        'LONG LISTS: per run a few tables are queried with ONE condition listing 951-2200 values in an order that is not '
        'the row order (serial descending with the cut after 950 values inside the table, rowID shuffled, serial shuffled with repeats, '
        'name / resSeq shuffled; positive and negated, alone and with a second condition): once each, in input order. '
        'A case is non-trivial when distinct '
        'by content and its answer is neither empty nor the whole table, or it is an error case. '
        'SQL TEXT TIE (extra checks): the statement text and the bound values the real get() hands to the sqlite3 cursor (recorded by a '
        'proxy around db.c in the harness) are compared with the text / values of the TRANSLATED builder (Gen/Sql.lean, driver op sql_get) for '
        'generated keyword lists (scalars, lists, empty lists, no_ keys, rowID keys incl. floats and strings -> TypeError, several keys, '
        'combined weight > 999 -> the documented error, table names other than ATOM and in other letter case, column strings with blanks, "*"); '
        'every recorded statement is also evaluated by MicroSql (op sql_query) and compared with the rows sqlite3 returns; '
        '_format_get_output is compared with its translation directly (op sql_format).')
ASSUMPTIONS = ['SQLite compares a bound value with a column as Model.sqlEq says (affinity of the column applied to the value; numbers '
               'numerically; text byte-wise): sampled on every case, not proved',
               'text -> number conversion of SQLite equals Tbl.numOfText (nearest double of a decimal literal) on the literals generated '
               '(<= 6 significant digits); number -> text equals Tbl.textOfReal (15 significant digits) on the values generated']
TRUSTED = ['Tbl.numOfText / Tbl.textOfReal / Py.toDouble are executable model code shared by Spec and Model (the "decimal string form" of the property)',
           'Model/MicroSql.lean (tokenizer, parser, evaluator of the emitted statement grammar) is the SQLite contract of Props/C03K: proved equal to the '
           'hand model, sampled against sqlite3 on every recorded statement']

STD = ['serial', 'name', 'altLoc', 'resName', 'chainID', 'resSeq', 'iCode', 'x', 'y', 'z', 'occ', 'temp', 'element', 'model']
KIND = {'serial': 'int', 'resSeq': 'int', 'model': 'int', 'x': 'real', 'y': 'real', 'z': 'real', 'occ': 'real', 'temp': 'real',
        'name': 'text', 'altLoc': 'text', 'resName': 'text', 'chainID': 'text', 'iCode': 'text', 'element': 'text', 'rowID': 'int'}
COLNAMES = ['rowID'] + STD

POOL = {
    'name': ['CA', 'N', 'C', 'O', '1', '12', 'H1', 'CB'],
    'altLoc': ['', '', 'A', 'B'],
    'resName': ['ALA', 'GLY', 'TRP', '5'],
    'chainID': ['A', 'B', '1', 'c'],
    'resSeq': [1, 2, 3, 5, 12, -1, 100],
    'iCode': ['', '', 'B'],
    'x': [0.0, 0.5, 1.0, 1.5, 2.25, -3.0, 100.125, 12.0],
    'y': [0.0, 0.5, 1.25, -2.0, 7.0],
    'z': [0.0, -0.5, 3.0, 1.5],
    'occ': [1.0, 0.5, 0.25],
    'temp': [0.0, 10.0, 2.5, 12.0],
    'element': ['C', 'N', 'O', 'H'],
}


# ---------------------------------------------------------------------------------------------------------
# shared helpers of cluster B
# ---------------------------------------------------------------------------------------------------------

def atom_line(r):
    """ATOM record of a row [serial, name, altLoc, resName, chainID, resSeq, iCode, x, y, z, occ, temp, element, model]"""
    serial, name, alt, resn, chain, resseq, icode, x, y, z, occ, temp, elem, _ = r
    assert len(name) <= 4 and len(alt) <= 1 and len(resn) <= 3 and len(chain) == 1 and len(icode) <= 1 and 1 <= len(elem) <= 2
    return "ATOM  %5d %-4s%1s%3s %1s%4d%1s   %8.3f%8.3f%8.3f%6.2f%6.2f          %2s  " % (
        serial, name, alt or ' ', resn, chain, resseq, icode or ' ', x, y, z, occ, temp, elem)


def pdb_lines(rows):
    """ATOM lines with an ENDMDL after every model (rows must be grouped by model 0,1,2,...); returns (lines, nModel)"""
    lines, cur, nmodel = [], 0, 0
    has_models = any(r[13] != 0 for r in rows)
    for r in rows:
        while r[13] > cur:
            lines.append('ENDMDL'); cur += 1; nmodel += 1
        lines.append(atom_line(r))
    if has_models:
        lines.append('ENDMDL'); nmodel += 1
    return lines, nmodel


def pad_lines(lines):
    """read_pdb accepts a list; a *string* input needs > 3 ATOM lines -- lists are used throughout"""
    return list(lines)


def build(rows, cls=pdb2sql, **kw):
    lines, nmodel = pdb_lines(rows)
    if not lines:
        lines = ['REMARK empty']
    with warnings.catch_warnings():
        warnings.simplefilter('ignore')
        db = cls(lines, **kw)
    return db


def pyval(v):
    if isinstance(v, np.generic):
        v = v.item()
    return v


def jval(v):
    """Python value -> JSON value of the driver protocol (int = number, str = string, float = {"r": "n/d"})"""
    v = pyval(v)
    if isinstance(v, bool):
        raise TypeError('bool value')
    if isinstance(v, int):
        return v
    if isinstance(v, float):
        return {'r': rat(v)}
    if isinstance(v, str):
        return v
    if isinstance(v, bytes):
        return {'bytes': v.hex()}
    if v is None:
        return {'none': True}
    raise TypeError(f'value {v!r}')


def unjval(j):
    if isinstance(j, dict):
        return float(unrat(j['r']))
    return j


def jrow(r):
    return [jval(v) for v in r]


def db_json(tabs, extra=(), nmodel=0):
    """tabs: list of (name, rows) or (name, {'gen': {...}})"""
    out = []
    for name, rows in tabs:
        if isinstance(rows, dict):
            out.append({'name': name, **rows})
        else:
            out.append({'name': name, 'rows': [jrow(r) for r in rows]})
    return {'tabs': out, 'extra': list(extra), 'nModel': nmodel}


def jkw(kws):
    """[(key, value-or-list)] -> protocol form (order = keyword order)"""
    out = []
    for k, v in kws:
        if isinstance(v, list):
            out.append({'k': k, 'l': [jval(x) for x in v]})
        else:
            out.append({'k': k, 'v': jval(v)})
    return out


def kw_py(kws):
    """protocol form -> the kwargs dict handed to the real code"""
    d = {}
    for e in kws:
        d[e['k']] = [unjval(x) for x in e['l']] if 'l' in e else unjval(e['v'])
    return d


def canon(x):
    """answer of get(): nested lists of values -> nested lists of protocol values"""
    if isinstance(x, (list, tuple)):
        return [canon(e) for e in x]
    return jval(x)


def err_tag(e):
    if isinstance(e, RecursionError):
        return 'ERR:RecursionError'
    if isinstance(e, ValueError) and str(e) == 'Too many SQL variables':
        return 'ERR:ValueError:TooManyVars'
    if isinstance(e, sqlite3.OperationalError):
        return 'ERR:Other:OperationalError'
    if isinstance(e, sqlite3.ProgrammingError):
        return 'ERR:Other:ProgrammingError'
    if isinstance(e, SystemExit):
        return 'ERR:Other:SystemExit'
    return exc_tag(e)


def call(f):
    """run f() on the real code; exceptions -> tags; unbounded recursion becomes a reported outcome"""
    old = sys.getrecursionlimit()
    sys.setrecursionlimit(400)
    try:
        with warnings.catch_warnings(), contextlib.redirect_stdout(io.StringIO()):
            warnings.simplefilter('ignore')
            return f()
    except BaseException as e:
        if isinstance(e, KeyboardInterrupt):
            raise
        return err_tag(e)
    finally:
        sys.setrecursionlimit(old)


def is_err(x):
    return isinstance(x, str) and x.startswith('ERR:')


def agree_answer_model(out, model):
    if isinstance(model, str) and model.startswith('ERR:UNMODELLED'):
        return 'discard'
    return True if out == model else f'implementation {short(out)} model {short(model)}'


def agree_answer_spec(out, spec):
    """implementation vs the property: REJECTED = some ValueError/Operational error; TOOMANY = the documented error"""
    if spec == 'REJECTED':
        return True if out in ('ERR:ValueError', 'ERR:Other:OperationalError') else f'implementation {short(out)} where the property demands an error'
    if spec == 'TOOMANY':
        return True if out == 'ERR:ValueError:TooManyVars' else f'implementation {short(out)} where the property allows only the documented too-many-variables error'
    return True if out == spec else f'implementation {short(out)} property {short(spec)}'


def short(x, n=300):
    s = repr(x)
    return s if len(s) <= n else s[:n] + '...'


def rand_row(rng, i, pools=POOL, model=0):
    return [i + 1, rng.choice(pools['name']), rng.choice(pools['altLoc']), rng.choice(pools['resName']), rng.choice(pools['chainID']),
            rng.choice(pools['resSeq']), rng.choice(pools['iCode']), rng.choice(pools['x']), rng.choice(pools['y']), rng.choice(pools['z']),
            rng.choice(pools['occ']), rng.choice(pools['temp']), rng.choice(pools['element']), model]


def rand_table(rng, n, nmodel=0):
    if nmodel <= 1:
        return [rand_row(rng, i) for i in range(n)]
    cuts = sorted(rng.randrange(n + 1) for _ in range(nmodel - 1))
    rows, m = [], 0
    for i in range(n):
        while m < nmodel - 1 and i >= cuts[m]:
            m += 1
        rows.append(rand_row(rng, i, model=m))
    return rows


def check_parse(db, rows, tn='ATOM'):
    """the generated records must come back as intended (parsing is C01's business; this is a sanity gate)"""
    got = canon(db.c.execute(f'select * from {tn}').fetchall())
    want = [jrow(r) for r in rows]
    assert got == want, f'generated table was not parsed as intended: {short(got)} vs {short(want)}'


# ---------------------------------------------------------------------------------------------------------
# C03 generators
# ---------------------------------------------------------------------------------------------------------

def string_form(rng, v):
    """a decimal string form of a number"""
    if isinstance(v, int):
        return rng.choice([str(v), f' {v}', f'{v}.0', f'{v}e0', f'{v} ', f'+{v}' if v >= 0 else str(v), f'0{v}' if v >= 0 else str(v)])
    s = repr(v)
    forms = [s, s + '0', ' ' + s, s + ' ']
    if v == int(v):
        forms.append(str(int(v)))
    if 0 < v < 1:
        forms.append(s[1:])            # '.5'
    forms.append('%se1' % repr(v / 10) if abs(v) in (0.5, 1.5, 12.0) else s)
    return rng.choice(forms)


def rand_value(rng, key, n, rows=None):
    """a value for a condition on attribute `key`: present / absent / string form / other type"""
    u = rng.random()
    if rows and key != 'rowID' and rng.random() < 0.5:
        return rng.choice(rows)[STD.index(key)]           # a value that occurs in the table
    if key == 'rowID':
        if u < 0.85:
            return rng.randrange(-1, n + 2)
        return rng.choice([n + 5, -3, 0])
    kind = KIND[key]
    pool = POOL.get(key) or ([0, 1, 2] if key == 'model' else list(range(1, 42)))
    if kind == 'text':
        if u < 0.7:
            return rng.choice(pool)
        if u < 0.8:
            return rng.choice(['ZZ', 'ca', ' CA', 'CA ', '', 'Q'])
        if u < 0.9:
            return rng.choice([1, 5, 12, 7])              # a number against a text attribute
        return rng.choice([1.0, 12.0, 0.5])
    if kind == 'int':
        if u < 0.6:
            return rng.choice(pool)
        if u < 0.7:
            return rng.choice([0, 4, 77, -5])
        if u < 0.8:
            return float(rng.choice(pool))                  # 5.0 for 5
        if u < 0.9:
            return string_form(rng, rng.choice(pool))
        return rng.choice(['abc', '1x', '', '1.5', 2.5])
    if u < 0.6:
        return rng.choice(pool)
    if u < 0.7:
        return rng.choice([0.75, 3.125, -7.5, 9.0])
    if u < 0.8:
        v = rng.choice(pool)
        return int(v) if v == int(v) else v
    if u < 0.92:
        return string_form(rng, rng.choice(pool))
    return rng.choice(['abc', '1.5.', '', '1,5'])


def rand_cond(rng, key, n, force_list=None, rows=None):
    neg = rng.random() < 0.35
    as_list = force_list if force_list is not None else rng.random() < 0.6
    if as_list:
        k = rng.choice([0, 1, 1, 2, 2, 3, 5])
        v = [rand_value(rng, key, n, rows) for _ in range(k)]
        if v and rng.random() < 0.2:
            v.append(v[0])
    else:
        v = rand_value(rng, key, n, rows)
    return (('no_' if neg else '') + key, v)


def cond_kind(k, v):
    key = k[3:] if k.startswith('no_') else k
    vals = v if isinstance(v, list) else [v]
    t = set()
    for x in vals:
        want = KIND.get(key, '?')
        got = 'text' if isinstance(x, str) else 'int' if isinstance(x, int) else 'real'
        t.add(got if (got == want or (want == 'real' and got == 'real')) else f'{got}-vs-{want}')
    return ('neg' if k.startswith('no_') else 'pos') + ':' + KIND.get(key, 'unknown') + (':list%d' % min(len(v), 3) if isinstance(v, list) else ':scalar') + ':' + '+'.join(sorted(t))


def in_spec_domain(columns, kws, names=None):
    """is the call inside the domain the theorems speak about (see Props/C03: ColsOK, KeysOK, RowIDInts)"""
    COLS = names or COLNAMES
    parts = columns.split(',')
    if columns != '*':
        if parts.count('rowID') > 1 or any(p.strip() == 'rowID' and p != 'rowID' for p in parts):
            return False
    for k, v in kws:
        key = k[3:] if k.startswith('no_') else k
        exact = key in COLS
        ci = key.lower() in [c.lower() for c in COLS] or key.lower() in ('oid', '_rowid_')
        if ci and not exact:
            return False                                    # letter-case variants / rowid aliases: accepted by SQLite
        if key == 'rowID':
            for x in (v if isinstance(v, list) else [v]):
                if not isinstance(x, int):
                    return False
    return True


_MK = [0]


def mk_get(tid, rows, columns, kws, family, op='get', tn='ATOM', nmodel=0):
    _MK[0] += 1
    c = {'op': op, 'tid': tid, 'db': db_json([('ATOM', rows)], nmodel=nmodel), 'tn': tn, 'kw': jkw(kws), 'family': family,
         'domain': in_spec_domain(columns if op == 'get' else 'x', kws),
         # container / dtype of the condition values (where the library accepts them) and repeated calls on the same object
         'carrier': 'np' if _MK[0] % 3 == 0 else 'py', 'twice': _MK[0] % 4 == 0}
    if op == 'get':
        c['columns'] = columns
    return c


def cases(ctx):
    rng = ctx.rng
    out = []
    ntab = ctx.scale(20, 80)
    nrand = ctx.scale(150, 600)
    sizes = [0, 1, 2, 3, 5, 8, 13, 21, 30, 40, 6, 10, 16, 24, 27, 33, 36, 38, 12, 19]
    for t in range(ntab):
        n = sizes[t % len(sizes)] if t < 2 * len(sizes) else rng.randrange(0, 41)
        rows = rand_table(rng, n)
        tid = f'T{t}'
        # --- a pool of 6 conditions with distinct keys; every subset of size <= 4
        keys = ['rowID'] + rng.sample(['name', 'resName', 'chainID', 'element'], 2) + rng.sample(['resSeq', 'serial'], 1) + rng.sample(['x', 'y', 'z', 'temp', 'occ'], 2)
        pool = [rand_cond(rng, k, n, rows=rows) for k in keys]
        colpool = ['rowID'] + rng.sample(STD, 3)
        collists = ['*'] + [','.join(p) for r in range(1, 5) for p in itertools.permutations(colpool, r)]
        subsets = [s for r in range(0, 5) for s in itertools.combinations(range(6), r)]
        for i, s in enumerate(subsets):
            kws = [pool[j] for j in s]
            if rng.random() < 0.3:
                rng.shuffle(kws)
            out.append(mk_get(tid, rows, collists[(i * 7 + t) % len(collists)], kws, 'subset-of-pool'))
        for i, cl in enumerate(collists):
            s = subsets[(i * 5 + t) % len(subsets)]
            out.append(mk_get(tid, rows, cl, [pool[j] for j in s], 'every-column-list'))
        # --- random conjunctions over every attribute
        for _ in range(nrand):
            nc = rng.choice([0, 1, 1, 2, 2, 3, 4])
            ks = rng.sample(COLNAMES, nc)
            kws = [rand_cond(rng, k, n, rows=rows) for k in ks]
            # a key may occur positively and negated at once
            if kws and rng.random() < 0.15:
                k0 = kws[0][0]
                other = k0[3:] if k0.startswith('no_') else 'no_' + k0
                kws.append((other, rand_cond(rng, other[3:] if other.startswith('no_') else other, n)[1]))
            cl = rng.choice(collists) if rng.random() < 0.5 else ','.join(rng.choice(COLNAMES) for _ in range(rng.randrange(1, 5)))
            out.append(mk_get(tid, rows, cl, kws, 'random'))
        # --- derived views
        for _ in range(ctx.scale(6, 30)):
            ks = rng.sample(COLNAMES, rng.choice([0, 1, 2]))
            kws = [rand_cond(rng, k, n) for k in ks]
            out.append(mk_get(tid, rows, None, kws, 'views', op=rng.choice(['get_xyz', 'get_residues', 'get_chains']), tn='atom'))
        # --- malformed stream
        bad_cols = ['foo', 'x,foo', 'X', 'rowid', '', 'x,', ',x', 'x,,y', 'x y', ' ', 'name;', 'no_x', '*,x', 'x,*', 'x, y', ' x ,y ', 'x, rowID', ' rowID',
                    'rowID,rowID', 'x,rowID,rowID', 'rowID ,x']
        for bc in bad_cols:
            out.append(mk_get(tid, rows, bc, [pool[1]] if rng.random() < 0.5 else [], 'malformed-columns'))
        bad_keys = ['foo', 'no_foo', 'no_', 'no_no_x', 'nox', 'X', 'Name', 'resname', 'no_RESNAME', 'rowid', 'oid', 'ROWID', 'rowId', 'xx', 'x_', 'models', 'no']
        for bk in bad_keys:
            kws = [(bk, rng.choice([1, [1, 2], 'CA', ['ALA'], 0.5]))]
            if rng.random() < 0.5:
                kws.insert(rng.randrange(2), pool[rng.randrange(6)])
            out.append(mk_get(tid, rows, rng.choice(['x', 'rowID', 'name,x', '*']), kws, 'malformed-keys'))
        for v in ['1', [0, '1'], 1.0, 0.5, [1.5, 2], -0.5, 2.0 ** 0.5]:
            out.append(mk_get(tid, rows, 'rowID,name', [(rng.choice(['rowID', 'no_rowID']), v)], 'rowID-not-int'))
    # multi-model files (the answer is one list per model)
    for t in range(ctx.scale(4, 20)):
        n = rng.randrange(2, 30)
        nm = rng.choice([2, 3])
        rows = rand_table(rng, n, nmodel=nm)
        real_nm = max(r[13] for r in rows) + 1 if any(r[13] for r in rows) else 0
        for _ in range(ctx.scale(12, 60)):
            ks = rng.sample(COLNAMES, rng.choice([0, 1, 2]))
            kws = [rand_cond(rng, k, n) for k in ks]
            cl = ','.join(rng.choice(COLNAMES) for _ in range(rng.randrange(1, 4)))
            out.append(mk_get(f'M{t}', rows, cl, kws, 'multi-model', nmodel=real_nm))
    out += long_list_cases(ctx)
    return out


def long_list_cases(ctx):
    """'each matching atom once, in input order' when the listed values are MANY (beyond the 950 values one statement carries) and
    are listed in an order that is NOT the order of the rows: descending, shuffled, with repeats; the matching rows are spread over
    the whole list (so over every piece the list may be cut into); positive and negated; alone and with a second condition"""
    rng = ctx.rng
    out = []
    for t in range(ctx.scale(3, 12)):
        n = rng.choice([12, 20, 27, 33, 40])
        rows = rand_table(rng, n)
        tid = f'L{t}'
        cols = lambda: rng.choice(['rowID', 'serial', 'rowID,serial', 'serial,name,x', '*', 'name'])
        second = lambda: [rand_cond(rng, rng.choice(['name', 'chainID', 'resName', 'element']), n, rows=rows)] if rng.random() < 0.4 else []
        # serial descending; the table's serials 1..n sit at the END of the list, a cut after 950 values falls inside them
        L = 950 + rng.randrange(1, n)
        out.append(mk_get(tid, rows, cols(), [('serial', list(range(L, 0, -1)))] + second(), 'long-list-order'))
        L = rng.randrange(1000, 2200)
        out.append(mk_get(tid, rows, cols(), [('serial', list(range(L, 0, -1)))] + second(), 'long-list-order'))
        # rowID shuffled (values present and absent), positive and negated
        L = rng.randrange(951, 2000)
        vals = list(range(-3, L - 3))
        rng.shuffle(vals)
        out.append(mk_get(tid, rows, cols(), [('rowID', vals)] + second(), 'long-list-order'))
        cut = rng.randrange(5, n)
        vals2 = [v for v in vals if not (cut <= v < cut + 4)]
        out.append(mk_get(tid, rows, cols(), [('no_rowID', vals2)] + second(), 'long-list-order'))
        # serial shuffled with repeated values (a row is returned once however often its value is listed)
        L = rng.randrange(951, 1500)
        vals = [rng.randrange(1, L) for _ in range(L)] + list(range(1, n + 1, 2))
        rng.shuffle(vals)
        out.append(mk_get(tid, rows, cols(), [('serial', vals)] + second(), 'long-list-order'))
        # a text / an integer attribute with few distinct values in the table: the listed values that occur are far apart in the list
        names = POOL['name'] + ['X%d' % i for i in range(rng.randrange(960, 1400))]
        rng.shuffle(names)
        out.append(mk_get(tid, rows, cols(), [(rng.choice(['name', 'no_name']), names)], 'long-list-order'))
        seqs = list(range(-20, rng.randrange(960, 1400)))
        rng.shuffle(seqs)
        out.append(mk_get(tid, rows, cols(), [('resSeq', seqs)] + second(), 'long-list-order'))
    return out


def search_cases(ctx):
    """targeted families against the Spec: per attribute x (scalar, list, negated) x (present, absent, string form)"""
    rng = ctx.rng
    out = []
    for t in range(6):
        n = [3, 7, 12, 20, 33, 40][t]
        rows = rand_table(rng, n)
        for key in COLNAMES:
            for neg in ('', 'no_'):
                for force_list in (True, False):
                    for _ in range(6):
                        k, v = rand_cond(rng, key, n, force_list=force_list)
                        k = neg + (k[3:] if k.startswith('no_') else k)
                        for cl in ('rowID', 'rowID,' + key if key != 'rowID' else 'serial,rowID', '*'):
                            out.append(mk_get(f'S{t}', rows, cl, [(k, v)], 'search-per-attribute'))
    return out


def driver_line(c):
    return {k: v for k, v in c.items() if k not in ('family', 'tid', 'domain', 'carrier', 'twice')}


def np_carry(kw):
    """the same condition values carried by NumPy scalars where sqlite3 / the library accept them: rowID values as
    np.int64 (they go through int(v + 1)), floats as np.float64, strings as np.str_"""
    def cv(k, x):
        key = k[3:] if k.startswith('no_') else k
        if isinstance(x, bool):
            return x
        if isinstance(x, int):
            return np.int64(x) if key == 'rowID' else x
        if isinstance(x, float):
            return np.float64(x)
        if isinstance(x, str):
            return np.str_(x)
        return x
    return {k: ([cv(k, x) for x in v] if isinstance(v, list) else cv(k, v)) for k, v in kw.items()}


_DB = {}


def db_of(c):
    """the real object for the case's table (cached per table id)"""
    key = (c.get('tid'), c['db']['nModel'], len(c['db']['tabs'][0].get('rows', [])))
    if key not in _DB or _DB[key][0] is not c['db']['tabs'][0].get('rows'):
        rows = [[unjval(v) for v in r] for r in c['db']['tabs'][0]['rows']]
        db = build(rows)
        check_parse(db, rows)
        if len(_DB) > 8:
            _DB.clear()
        _DB[key] = (c['db']['tabs'][0].get('rows'), db, rows)
    return _DB[key][1]


def impl(ctx, c):
    db = db_of(c)
    kw = kw_py(c['kw'])
    if c.get('carrier') == 'np':
        kw = np_carry(kw)
    nm = c['db']['nModel']
    if c['op'] == 'get':
        r = call(lambda: db.get(c['columns'], tablename=c['tn'], **dict(kw)))
        if c.get('twice'):
            r2 = call(lambda: db.get(c['columns'], tablename=c['tn'], **dict(kw)))
            if (r2 if is_err(r2) else canon(r2)) != (r if is_err(r) else canon(r)):
                return {'second_call_differs': [short(r), short(r2)]}
    elif c['op'] == 'get_xyz':
        r = call(lambda: db.get_xyz(tablename=c['tn'], **kw))
    elif c['op'] == 'get_residues':
        r = call(lambda: [list(x) for x in db.get_residues(tablename=c['tn'], **kw)])
    else:
        r = call(lambda: db.get_chains(tablename=c['tn'], **kw))
    if is_err(r):
        return r
    if c['op'] in ('get', 'get_xyz') and nm > 0 and 'model' not in kw:
        return {'models': canon(r)}
    return canon(r)


def agree_model(c, out, model):
    return agree_answer_model(out, model)


def agree_spec(c, out, spec):
    if not c.get('domain', True):
        return True                       # outside the domain of the theorems (model-only comparison); counted in the distribution
    return agree_answer_spec(out, spec)


def nontrivial_key(c, out):
    if is_err(out):
        return ['err', c['op'], c.get('columns'), c['kw'], out]
    n = len(c['db']['tabs'][0].get('rows', []))
    k = len(out['models']) if isinstance(out, dict) else len(out)
    if not isinstance(out, dict) and (k == 0 or (k == n and c['kw'])) and c['family'] in ('random', 'subset-of-pool'):
        return None if k == 0 and not c['kw'] else ['edge', c.get('tid'), c['op'], c.get('columns'), c['kw']]
    return [c.get('tid'), c['op'], c.get('columns'), c['kw']]


def distribution(recs):
    fam, sizes, kinds, nconds, outcomes, dom, hits = {}, {}, {}, {}, {}, {'inside': 0, 'outside(model only)': 0}, {'empty': 0, 'some': 0, 'all': 0}
    for r in recs:
        c, o = r['case'], r['impl']
        fam[c['family']] = fam.get(c['family'], 0) + 1
        n = len(c['db']['tabs'][0].get('rows', []))
        b = '0' if n == 0 else '1-5' if n <= 5 else '6-20' if n <= 20 else '21-40'
        sizes[b] = sizes.get(b, 0) + 1
        nconds[len(c['kw'])] = nconds.get(len(c['kw']), 0) + 1
        for e in c['kw']:
            kk = cond_kind(e['k'], [unjval(x) for x in e['l']] if 'l' in e else unjval(e['v']))
            kinds[kk] = kinds.get(kk, 0) + 1
        tag = o if is_err(o) else 'ok'
        outcomes[tag] = outcomes.get(tag, 0) + 1
        dom['inside' if c.get('domain', True) else 'outside(model only)'] += 1
        if not is_err(o) and not isinstance(o, dict):
            hits['empty' if len(o) == 0 else 'all' if len(o) == n else 'some'] += 1
    return {'families': fam, 'table_sizes': sizes, 'conditions_per_query': nconds, 'condition_kinds': dict(sorted(kinds.items())),
            'outcomes': outcomes, 'theorem_domain': dom, 'selection_size': hits}


# ---------------------------------------------------------------------------------------------------------
# the SQL text tie: what the real code sends to SQLite vs what the translated builder produces
# ---------------------------------------------------------------------------------------------------------

class Recorder:
    """a recording proxy around the sqlite3 cursor of a pdb2sql object (in the harness; /repo is not touched)"""

    def __init__(self, cur):
        self._cur = cur
        self.log = []

    def execute(self, sql, params=()):
        self.log.append(('execute', sql, list(params)))
        return self._cur.execute(sql, params)

    def executemany(self, sql, rows):
        rows = [list(r) for r in rows]
        self.log.append(('executemany', sql, [list(r) for r in rows]))
        return self._cur.executemany(sql, rows)

    def __iter__(self):
        return iter(self._cur)

    def __getattr__(self, name):
        return getattr(self._cur, name)


def recorded(db, f):
    """run f() with db.c replaced by a recording proxy -> (outcome, log)"""
    real = db.c
    rec = Recorder(real)
    db.c = rec
    try:
        out = call(f)
    finally:
        db.c = real
    return out, rec.log


def main_statements(log):
    """the statements other than the `SELECT EXISTS(...)` probes of the key validation"""
    return [e for e in log if not e[1].startswith('SELECT EXISTS')]


def jstmt(e):
    return {'text': e[1], 'vals': [jval(x) for x in e[2]]}


def sql_columns(rng):
    u = rng.random()
    if u < 0.15:
        return '*'
    names = [rng.choice(COLNAMES) for _ in range(rng.choice([1, 1, 2, 3, 4]))]
    if u < 0.55:
        return ','.join(names)
    pad = lambda n: rng.choice(['', ' ', '  ', '\t']) + n + rng.choice(['', ' ', '  '])
    return ','.join(pad(n) for n in names)


def sql_text_checks(ctx):
    rng = ctx.rng
    res = []
    # ---- get(): text + values, and MicroSql's evaluation of every recorded statement
    lines, meta = [], []
    qlines, qmeta = [], []
    skipped = {'validation': 0, 'chunked': 0}
    tables = []
    for t in range(ctx.scale(6, 20)):
        n = rng.choice([0, 1, 3, 7, 12, 25])
        rows = rand_table(rng, n)
        real_tn = rng.choice(['atom', 'atom', 'ATOM', 'mol_1', 'Chain_A'])
        db = build(rows, tablename=real_tn)
        check_parse(db, rows, tn=real_tn)
        tables.append((db, rows, real_tn, n))
    for k in range(ctx.scale(900, 6000)):
        db, rows, real_tn, n = tables[k % len(tables)]
        u = rng.random()
        if u < 0.08:
            kws = []
        else:
            ks = rng.sample(COLNAMES, rng.choice([1, 1, 2, 2, 3, 4]))
            kws = [rand_cond(rng, key, n, rows=rows) for key in ks]
            if rng.random() < 0.1:
                kws.append(('rowID' if rng.random() < 0.5 else 'no_rowID', rng.choice([[0, 1, 2], 1, [], [2, 2], 1.5, [0.0, 1.0], '1', ['0', 1]])))
            if rng.random() < 0.04:                           # combined weight beyond the limit of bound variables
                a, b = rng.sample(['serial', 'resSeq', 'no_serial', 'x', 'name'], 2)
                kws = [(a, list(range(rng.choice([500, 949, 950])))), (b, list(range(rng.choice([50, 499, 500, 600]))))] + kws[:1]
            seen, uniq = set(), []
            for kk, vv in kws:
                if kk not in seen:
                    seen.add(kk); uniq.append((kk, vv))
            kws = uniq
        tn = rng.choice([real_tn, real_tn, real_tn.upper(), real_tn.lower()])
        if real_tn.lower() == 'atom' and rng.random() < 0.3:
            tn = 'ATOM'
        columns = sql_columns(rng)
        out, log = recorded(db, lambda: db.get(columns, tablename=tn, **dict(kws)))
        stm = main_statements(log)
        case = {'op': 'sql_get', 'columns': columns, 'tn': tn, 'kw': jkw(kws)}
        if any(isinstance(v, list) and len(v) > 950 for _, v in kws):
            skipped['chunked'] += 1
            continue
        if len(stm) == 1 and stm[0][0] == 'execute':
            got = jstmt(stm[0])
        elif not stm and out in ('ERR:TypeError', 'ERR:ValueError:TooManyVars'):
            got = out                                       # raised while the query was being built
        elif not stm and is_err(out):
            skipped['validation'] += 1                      # rejected before the query is built (column / key validation)
            continue
        else:
            got = {'unexpected': [short(stm), short(out)]}
        lines.append(case); meta.append((case, got))
        for e in stm:
            raw = call(lambda: canon(db.c.execute(e[1], e[2]).fetchall()))
            dbj = db_json([(real_tn, rows)])
            qlines.append({'op': 'sql_query', 'db': dbj, 'text': e[1], 'params': [jval(x) for x in e[2]]})
            qmeta.append((e, raw))
    ans = vlib.run_driver(lines + qlines, which='model', cluster=CLUSTER) if lines or qlines else []
    bad, kinds = None, {}
    for (case, got), a in zip(meta, ans[:len(lines)]):
        m = a.get('model')
        kk = 'error' if isinstance(got, str) else 'statement'
        kinds[kk] = kinds.get(kk, 0) + 1
        if m != got and bad is None:
            bad = {'case': case, 'real code sends': got, 'translated builder': m}
    res.append({'name': f'SQL text and bound values of get(): real code = translated builder ({len(meta)} calls: {kinds}; skipped {skipped})',
                'ok': bad is None and len(meta) > 50, 'case': bad, 'detail': 'Gen/Sql.lean get_query / get_nokw vs the statement recorded at the sqlite3 cursor',
                'kind': 'sql-text'})
    bad, nq, disc = None, 0, 0
    for (e, raw), a in zip(qmeta, ans[len(lines):]):
        m = a.get('model')
        if isinstance(m, str) and m.startswith('ERR:UNMODELLED'):
            disc += 1
            continue
        nq += 1
        if m != raw and bad is None:
            bad = {'statement': e[1], 'values': [jval(x) for x in e[2]], 'sqlite3': short(raw), 'MicroSql': short(m)}
    res.append({'name': f'MicroSql = sqlite3 on every recorded SELECT ({nq} statements, {disc} outside the grammar)', 'ok': bad is None and nq > 50,
                'case': bad, 'detail': 'Model/MicroSql.lean is the SQLite contract of Props/C03K', 'kind': 'microsql'})
    # ---- _format_get_output against its translation
    flines, fmeta = [], []
    for k in range(ctx.scale(600, 4000)):
        ncol = rng.choice([1, 1, 2, 3, 4])
        names = [rng.choice(['rowID', 'x', 'name', 'serial', 'rowID']) for _ in range(ncol)]
        columns = rng.choice([','.join(names), ','.join(names), '*', ', '.join(names), ' ' + ','.join(names), 'no_rowID', 'rowID ', 'x,rowID,rowID'])
        nrow = rng.choice([0, 1, 2, 5])
        width = rng.choice([ncol, ncol, ncol, 1, ncol + 1])
        cell = lambda: rng.choice([rng.randrange(-2, 40), rng.randrange(1, 9), float(rng.choice([0.5, 2.0, -1.25])), rng.choice(['CA', '7', ''])])
        data = [[cell() if rng.random() < 0.25 else rng.randrange(1, 50) for _ in range(width)] for _ in range(nrow)]
        out = call(lambda: canon(pdb2sql._format_get_output(copy.deepcopy(data), columns)))
        flines.append({'op': 'sql_format', 'data': [[jval(x) for x in r] for r in data], 'columns': columns})
        fmeta.append(out)
    fans = vlib.run_driver(flines, which='model', cluster=CLUSTER) if flines else []
    bad, outcomes = None, {}
    for c, out, a in zip(flines, fmeta, fans):
        tag = out if is_err(out) else 'ok'
        outcomes[tag] = outcomes.get(tag, 0) + 1
        if a.get('model') != out and bad is None:
            bad = {'case': c, '_format_get_output': short(out), 'translation': short(a.get('model'))}
    res.append({'name': f'_format_get_output = its translation ({len(flines)} inputs: {outcomes})', 'ok': bad is None, 'case': bad,
                'detail': 'Gen/Sql.lean format_get_output', 'kind': 'sql-text'})
    return res


# ---- getTie: begin -----------------------------------------------------------------------------------------------------
GEN_VIEWS = ('get_xyz', 'get_residues', 'get_chains')          # wrappers with a translated counterpart in the driver


def gen_get_checks(ctx):
    """the WHOLE translated `get` (Gen/Get.lean `GenG.get`: validation, per-model dispatch, key probes, the keyword loop, the
    query, MicroSql as the engine) and the translated wrappers against the real code, on a sample of the property's own cases
    (every family: pools, column lists, malformed columns / keys, rowID values that are not ints, multi-model files)"""
    rng = ctx.rng
    pool = cases(ctx)
    gets = [c for c in pool if c['op'] == 'get']
    views = [c for c in pool if c['op'] != 'get' and c['op'] in GEN_VIEWS]
    fams = {}
    for c in gets:
        fams.setdefault(c['family'], []).append(c)
    per = ctx.scale(80, 700)
    sample = []
    for f in sorted(fams):
        sample += rng.sample(fams[f], min(per, len(fams[f])))
    sample += rng.sample(views, min(ctx.scale(30, 300), len(views)))
    lines, outs = [], []
    for c in sample:
        outs.append(impl(ctx, c))
        lines.append(dict(driver_line(c), op={'get': 'g_get', 'get_xyz': 'g_get_xyz', 'get_residues': 'g_get_residues',
                                               'get_chains': 'g_get_chains'}[c['op']]))
    ans = vlib.run_driver(lines, which='model', cluster=CLUSTER) if lines else []
    bad, n, disc, kinds = None, 0, 0, {}
    for c, out, a in zip(sample, outs, ans):
        m = a.get('model')
        if not isinstance(m, dict) or 'gen' not in m:
            bad = bad or {'case': short(driver_line(c)), 'driver': short(m)}
            continue
        v = agree_answer_model(out, m['gen'])
        if v == 'discard':
            disc += 1
            continue
        n += 1
        kk = c['family'] + (':err' if is_err(out) else '')
        kinds[kk] = kinds.get(kk, 0) + 1
        if v is not True and bad is None:
            bad = {'case': short(driver_line(c), 900), 'real code': short(out), 'translated get': short(m['gen']), 'hand model': short(m.get('hand'))}
    return [{'name': f'whole get(): real code = GENERATED GenG.get / wrappers ({n} calls: {kinds}; {disc} outside MicroSql)', 'ok': bad is None and n > 100,
             'case': bad, 'detail': 'Gen/Get.lean (py/translate_ext_get.py): the function translated whole, MicroSql as the engine', 'kind': 'gen-get'}]
# ---- getTie: end -------------------------------------------------------------------------------------------------------


# candidate findings (reported, not failing): see the cluster report
def extra_checks(ctx):
    res = sql_text_checks(ctx)
    rows = rand_table(ctx.rng, 6)
    db = build(rows)
    # rowID means the same thing as attribute, as condition and as update address
    bad = None
    for i in range(len(rows)):
        a = call(lambda: db.get('rowID', rowID=[i]))
        b = call(lambda: db.get('serial', rowID=i))
        if a != [i] or b != [rows[i][0]]:
            bad = {'i': i, 'get rowID': a, 'serial': b}
    res.append({'name': 'rowID as attribute = rowID as condition = position', 'ok': bad is None, 'case': bad, 'detail': ''})
    # a scalar acts as a one-element list (every attribute type, positive and negated), also after an exception
    rng = ctx.rng
    bad = None
    for _ in range(ctx.scale(300, 3000)):
        key = rng.choice(COLNAMES)
        v = rand_value(rng, key, len(rows), rows)
        k = rng.choice(['', 'no_']) + key
        if rng.random() < 0.2:
            call(lambda: db.get('x', foo=1))                 # an exception on the same object in between
        a = call(lambda: db.get('rowID', **{k: v}))
        b = call(lambda: db.get('rowID', **{k: [v]}))
        if a != b:
            bad = {'key': k, 'value': jval(v), 'scalar': short(a), 'one-element list': short(b)}
            break
    res.append({'name': 'scalar condition = one-element list condition (also after an exception on the object)', 'ok': bad is None, 'case': bad, 'detail': ''})
    db2 = build(rows)
    call(lambda: db2.update('temp', [[77.0]], rowID=[3]))
    t = call(lambda: db2.get('temp'))
    ok = isinstance(t, list) and t[3] == 77.0 and all(t[j] == rows[j][11] for j in range(6) if j != 3)
    res.append({'name': 'rowID addresses the same row in update', 'ok': ok, 'case': {'temp': short(t)}, 'detail': ''})
    res += gen_get_checks(ctx)                               # getTie
    return res
