"""C01 -- parsing: one row per ATOM record, each field from its fixed PDB columns."""
import os, numpy as np
from pathlib import Path
from fractions import Fraction
from vlib import rat, unrat, exc_tag
from pdb2sql import pdb2sql

ID = 'C01'
LEVEL = 'proof'
CLUSTER = 'A'
GEN_UNITS = ['_format_pdb_linelength', '_get_chainID', '_get_element', 'record_loop', 'parse_runtime', 'parse_read_pdb', 'parse_create_table']
RULE = ('ATOM lines built field by field: every field independently widest / narrowest / typical / blank-if-optional; atom names of 1-4 '
        'characters in every alignment; non-blank altLoc and iCode; negative numbers; lines truncated at every column >= 54; other record '
        'types interleaved (HETATM/TER/ANISOU/REMARK/END/ENDMDL); trailing newline or not; x the 7 container forms; a separate malformed '
        'stream (81+ columns, letters in each numeric field, blank chain with blank segID, missing coordinates) and per-column probes. '
        'Non-trivial = distinct (container form, text) whose text contains at least one ATOM record.')
ASSUMPTIONS = ["CPython int()/float() on the decimal grammar [+-]?d+(.d*)?([eE][+-]?d+)? = Py.parseInt/Py.parseFloat (nan/inf spellings are outside the model and the generator)",
               'SQLite stores and returns int, float and str values unchanged']

FORMS = ['pathstr', 'path', 'str', 'bytes', 'listStr', 'listStrNL', 'listBytes', 'ndarrayStr']
NAMES = ['C   ', ' C  ', '  C ', '   C', 'CA  ', ' CA ', '  CA', 'N   ', ' N  ', ' O  ', '1HG ', ' 1HG', 'HD21', 'HE2 ', ' HE2', 'H   ', ' H  ',
         'FE  ', 'ZN  ', ' CB ', ' OXT', '2HB ', 'HG  ', " C5'", 'OP1 ', ' P  ', 'HH11', 'CL  ', ' SE ', ' N1 ', '3HD1']


def fmt_line(f):
    """assemble an ATOM record from a dict of raw column texts (already at their full width)"""
    return ('ATOM  ' + f['serial'] + ' ' + f['name'] + f['altLoc'] + f['resName'] + ' ' + f['chainID'] + f['resSeq'] + f['iCode'] + '   ' +
            f['x'] + f['y'] + f['z'] + f['occ'] + f['temp'] + '      ' + f['segID'] + f['element'] + f['charge'])


def num_field(rng, width, decimals, lo, hi, kinds=('typ',)):
    kind = rng.choice(kinds)
    if decimals == 0:
        if kind == 'wide':
            v = rng.choice([hi, lo])
        elif kind == 'narrow':
            v = rng.choice([0, 1, -1, 7])
        else:
            v = rng.randint(max(lo, -99), min(hi, 9999))
        s = str(v)
        if kind == 'left':
            return s.ljust(width)[:width]
        if kind == 'plus' and v >= 0 and len(s) < width:
            s = '+' + s
        return s.rjust(width)[:width] if len(s) <= width else str(rng.randint(0, 9)).rjust(width)
    if kind == 'wide':
        v = rng.choice([hi, lo])
    elif kind == 'narrow':
        v = rng.choice([0.0, 1.0, -1.0, 0.5])
    elif kind == 'int':
        return str(rng.randint(-99, 999)).rjust(width)
    elif kind == 'dot':
        return (str(rng.randint(-99, 999)) + '.').rjust(width)
    elif kind == 'left':
        return ('%.*f' % (decimals, rng.uniform(-9, 99))).ljust(width)
    elif kind == 'fewer':
        return ('%.*f' % (max(0, decimals - 1), rng.uniform(-99, 999))).rjust(width)
    elif kind == 'exp':
        return ('%de%d' % (rng.randint(-9, 99), rng.randint(0, 2))).rjust(width)
    else:
        v = rng.uniform(lo / 10, hi / 10)
    s = '%.*f' % (decimals, v)
    return s.rjust(width) if len(s) <= width else ('%.*f' % (decimals, rng.uniform(-9, 9))).rjust(width)


def gen_atom(rng, malformed=None):
    f = {}
    f['serial'] = num_field(rng, 5, 0, -9999, 99999, ('typ', 'typ', 'wide', 'narrow', 'left', 'plus'))
    f['name'] = rng.choice(NAMES)
    f['altLoc'] = rng.choice([' ', ' ', 'A', 'B', '1'])
    f['resName'] = rng.choice(['ALA', 'GLY', ' DA', 'A  ', '  U', 'HOH', 'MSE', 'TRP'])
    f['chainID'] = rng.choice(['A', 'B', 'C', 'a', '1', ' '])
    f['resSeq'] = num_field(rng, 4, 0, -999, 9999, ('typ', 'typ', 'wide', 'narrow', 'left'))
    # one-column text fields also take DIGITS (legal: insertion code '1', altLoc '2', chain '7'): a digit next to a full-width
    # number is where a reader that decides field boundaries from the characters, not from the columns, goes wrong
    # (round-6 seed C01-r6m1: `line[22:27].isdigit()` -> a five-column resSeq when the insertion code is a digit)
    f['iCode'] = rng.choice([' ', ' ', 'A', 'C', '1', '0', '9'])
    for c in 'xyz':
        f[c] = num_field(rng, 8, 3, -999.999, 9999.999, ('typ', 'typ', 'typ', 'wide', 'narrow', 'int', 'dot', 'left', 'fewer', 'exp'))
    f['occ'] = rng.choice([num_field(rng, 6, 2, -99.99, 999.99, ('typ', 'wide', 'narrow', 'int')), '      ', '  1.00'])
    f['temp'] = rng.choice([num_field(rng, 6, 2, -99.99, 999.99, ('typ', 'wide', 'narrow', 'int')), '      ', ' 25.30'])
    f['segID'] = rng.choice(['    ', '    ', 'SEGA', 'B   ', '  X '])
    if f['chainID'] == ' ' and f['segID'] == '    ' and malformed != 'nochain':
        f['segID'] = 'SG1 '
    f['element'] = rng.choice([' C', ' N', 'FE', 'C ', '  ', '  ', ' H'])
    f['charge'] = rng.choice(['  ', '  ', '1+', '2-'])
    if malformed == 'nochain':
        f['chainID'], f['segID'] = ' ', '    '
    elif malformed in ('serial', 'resSeq', 'x', 'y', 'z', 'occ', 'temp'):
        w = len(f[malformed])
        f[malformed] = rng.choice(['abc', 'x', '1.2.3', '--1', '1-', '1 2'] if malformed not in ('serial', 'resSeq') else ['abc', '1.5', '1 2', '--1', 'x'])[:w].rjust(w)
    line = fmt_line(f)
    if malformed == 'long':
        line = line + rng.choice(['X', '  extra', ' ' * 3])
    elif malformed == 'blankxyz':
        line = line[:30] + ' ' * 8 + line[38:]
    return line


OTHER = ['HETATM 1300  O   HOH A 201      10.000  10.000  10.000  1.00 20.00           O  ',
         'TER    1301      ALA A 130', 'ANISOU    1  N   ALA A   1     2406   1892   1614    198    519   -328       N  ',
         'REMARK   2 RESOLUTION.    2.00 ANGSTROMS.', 'END', 'ENDMDL', 'MODEL        1', 'CONECT 1179  746 1184',
         'HEADER    TEST', '', 'SIGATM    1  N   ALA A   1       0.010   0.010   0.010  0.01  0.01           N  ']


def gen_text(rng, n_atoms, malformed=None, others=True):
    recs = []
    bad_at = rng.randrange(n_atoms) if malformed else -1
    for k in range(n_atoms):
        line = gen_atom(rng, malformed if k == bad_at else None)
        r = rng.random()
        if r < 0.25 and line[21] != ' ':
            line = line.rstrip(' ')                      # short line (trailing blanks dropped)
        elif r < 0.40:
            cut = rng.randint(76 if line[21] == ' ' else 54, 80)      # keep the segID when the chain is blank
            line = line[:cut]
        recs.append(line)
        if others and rng.random() < 0.35:
            recs.append(rng.choice(OTHER))
    if others and rng.random() < 0.5:
        recs.insert(0, rng.choice(OTHER))
    return recs


def column_probe(col):
    """a record that is blank except the minimum needed to parse, with a distinctive character in column `col` (1-based)"""
    base = list('ATOM      1  CA  ALA A   1       1.000   2.000   3.000  1.00  0.00           C  ')
    ch = '7'
    i = col - 1
    if i >= 6:
        base[i] = ch
    return ''.join(base)


def make_case(recs, form, trailing_newline, family):
    return {'op': 'parse', 'records': recs, 'form': form, 'nl': trailing_newline, 'family': family}


def cases(ctx):
    rng = ctx.rng
    out = []
    n = ctx.scale(1200, 20000)
    for k in range(n):
        form = FORMS[k % len(FORMS)]
        recs = gen_text(rng, rng.choice([5, 6, 9] if form in ('str', 'bytes') and rng.random() < 0.8 else [1, 2, 4, 5, 6, 9]))
        out.append(make_case(recs, form, rng.random() < 0.5, 'wellformed'))
    # same text through all container forms
    for k in range(ctx.scale(40, 400)):
        recs = gen_text(rng, rng.choice([5, 6, 8]))
        nl = rng.random() < 0.5
        for form in FORMS:
            out.append(make_case(recs, form, nl, 'all-forms'))
    # malformed stream
    for k in range(ctx.scale(200, 3000)):
        m = rng.choice(['long', 'nochain', 'serial', 'resSeq', 'x', 'y', 'z', 'occ', 'temp', 'blankxyz'])
        recs = gen_text(rng, rng.choice([1, 5, 6]), malformed=m)
        out.append(make_case(recs, rng.choice(FORMS), rng.random() < 0.5, 'malformed:' + m))
    # adjacent fields both full and both of the same character class: 5-digit serial next to a name starting with a digit,
    # digit altLoc after a 4-character name, digit chain before a 4-digit (or minus + 3-digit) resSeq followed by a digit iCode
    for k in range(ctx.scale(24, 200)):
        f = {'serial': str(rng.randint(10000, 99999)), 'name': rng.choice(['1HB ', '2HG1', 'HD21', '1HD2']),
             'altLoc': rng.choice(['1', '2', 'A']), 'resName': rng.choice(['ALA', 'TRP', ' DA']), 'chainID': rng.choice(['1', '7', 'A']),
             'resSeq': rng.choice([str(rng.randint(1000, 9999)), str(rng.randint(-999, -100)), '9999', '1000']),
             'iCode': rng.choice(['1', '0', '9', '5']),
             'x': rng.choice(['9999.999', '-999.999', '1234.567']), 'y': rng.choice(['9999.999', '-999.999', '7654.321']),
             'z': rng.choice(['9999.999', '-999.999', '   0.000']), 'occ': rng.choice(['999.99', '  1.00']), 'temp': rng.choice(['999.99', ' 25.30']),
             'segID': rng.choice(['    ', 'SEGA']), 'element': rng.choice([' H', '  ']), 'charge': '  '}
        out.append(make_case([fmt_line(f)], FORMS[k % len(FORMS)], k % 2 == 0, 'adjacent-full-fields'))
    # per-column probes (list form: the cheapest)
    for col in range(7, 81):
        out.append(make_case([column_probe(col)], 'listStr', False, 'column-probe'))
    # name alignment x blank element
    for nm in NAMES:
        l = 'ATOM      1 ' + nm + ' ALA A   1       1.000   2.000   3.000  1.00  0.00            '
        out.append(make_case([l], 'listStr', False, 'name-alignment'))
    # degenerate containers
    out.append(make_case([], 'listStr', False, 'empty'))
    out.append(make_case(['REMARK only'], 'listStr', False, 'no-atoms'))
    out.append(make_case(gen_text(rng, 3, others=False), 'str', False, 'short-whole-text'))
    # bundled files (thorough)
    if ctx.thorough:
        root = '/repo/test/pdb'
        for fn in sorted(os.listdir(root)):
            p = os.path.join(root, fn)
            if fn.endswith('.pdb'):
                recs = open(p).read().split('\n')
                if recs and recs[-1] == '':
                    recs = recs[:-1]
                out.append(make_case(recs, 'pathstr', True, 'bundled:' + fn))
    return out


def search_cases(ctx):
    rng = ctx.rng
    out = []
    for col in range(7, 81):
        for ch in 'A7-. ':
            base = list(column_probe(1))
            base[col - 1] = ch
            out.append(make_case([''.join(base)], 'listStr', False, 'search-column'))
    for nm in NAMES:
        for el in ('  ', ' C', 'FE'):
            l = 'ATOM      1 ' + nm + ' ALA A   1       1.000   2.000   3.000  1.00  0.00          ' + el + '  '
            out.append(make_case([l], 'listStr', False, 'search-name'))
    for k in range(300):
        out.append(make_case(gen_text(rng, 5), FORMS[k % len(FORMS)], k % 2 == 0, 'search-random'))
    return out


def text_of(c):
    t = '\n'.join(c['records'])
    if c['nl'] and c['records']:
        t += '\n'
    return t


def container(ctx, c):
    form, recs = c['form'], c['records']
    text = text_of(c)
    if form in ('pathstr', 'path'):
        d = ctx.tmpdir()
        # the SAME two file names are rewritten with each case's text: a path names whatever the file holds NOW, so a
        # parse that remembers what an earlier file of that name held (a content cache keyed by path) shows up as a difference
        p = os.path.join(d, 'input_%d.pdb' % (len(text) % 2))
        with open(p, 'w') as f:
            f.write(text)
        return (p if form == 'pathstr' else Path(p)), p
    if form == 'str':
        return text, None
    if form == 'bytes':
        return text.encode(), None
    if form == 'listStr':
        return list(recs), None
    if form == 'listStrNL':
        return [r + '\n' for r in recs], None
    if form == 'listBytes':
        return [r.encode() for r in recs], None
    if form == 'ndarrayStr':
        return np.array(recs) if recs else np.array([], dtype=str), None
    raise ValueError(form)


def canon_rows(rows):
    out = []
    for r in rows:
        cr = []
        for v in r:
            if isinstance(v, bool):
                cr.append(['?', repr(v)])
            elif isinstance(v, int):
                cr.append(['i', v])
            elif isinstance(v, float):
                cr.append(['r', rat(v)])
            elif isinstance(v, str):
                cr.append(['t', v])
            else:
                cr.append(['?', repr(v)])
        out.append(cr)
    return out


def impl(ctx, c):
    arg, path = container(ctx, c)
    try:
        db = pdb2sql(arg)
        rows = [list(r) for r in db.conn.execute('SELECT * FROM ATOM')]
        db._close()
        return canon_rows(rows)
    except Exception as e:
        return exc_tag(e)
    finally:
        if path and os.path.exists(path):
            os.remove(path)


def driver_line(c):
    form, recs = c['form'], c['records']
    text = text_of(c)
    d = {'op': 'parse', 'records': recs}
    if form in ('pathstr', 'path'):
        d.update(form='str' if form == 'pathstr' else 'path', arg='/the/file.pdb', fs={'path': '/the/file.pdb', 'kind': 'file', 'content': text})
        d['accepted'] = True
    elif form in ('str', 'bytes'):
        d.update(form=form, arg=text)
        d['accepted'] = text.count('\nATOM ') > 3
    elif form == 'listStr':
        d.update(form='listStr', arg=list(recs)); d['accepted'] = True
    elif form == 'listStrNL':
        d.update(form='listStr', arg=[r + '\n' for r in recs]); d['accepted'] = True
    elif form == 'listBytes':
        d.update(form='listBytes', arg=list(recs)); d['accepted'] = True
    elif form == 'ndarrayStr':
        d.update(form='ndarrayStr', arg=list(recs)); d['accepted'] = True
    if not recs and form in ('listStr', 'listStrNL', 'listBytes', 'ndarrayStr'):
        d['accepted'] = 'empty'
    return d


def same_rows(a, b):
    if isinstance(a, str) or isinstance(b, str):
        return a == b
    if len(a) != len(b):
        return False
    for ra, rb in zip(a, b):
        if len(ra) != len(rb):
            return False
        for (ta, va), (tb, vb) in zip(ra, rb):
            if ta != tb:
                return False
            if ta == 'r':
                # the model/spec value is the decimal value of the text; the implementation holds the nearest double
                if float(unrat(vb)) != float(unrat(va)):
                    return False
            elif va != vb:
                return False
    return True


def agree_model(c, out, model):
    if isinstance(model, str) and model.startswith('ERR:UNMODELLED'):
        return 'discard'
    return True if same_rows(out, model) else f'implementation {str(out)[:300]} model {str(model)[:300]}'


def agree_spec(c, out, spec):
    if isinstance(spec, str) and spec.startswith('ERR:UNMODELLED'):
        return 'discard'
    if c['records'] == [] and c['form'] != 'str':
        return True        # an empty container carries no text; what happens is a container matter (model only)
    return True if same_rows(out, spec) else f'implementation {str(out)[:300]} property {str(spec)[:300]}'


def nontrivial_key(c, out):
    if not any(r.startswith('ATOM') for r in c['records']):
        return None
    return [c['form'], c['nl'], c['records']]


def distribution(recs):
    fam, forms, outcomes, nrows = {}, {}, {}, {}
    for r in recs:
        c = r['case']
        k = c['family'].split(':')[0]
        fam[k] = fam.get(k, 0) + 1
        forms[c['form']] = forms.get(c['form'], 0) + 1
        o = r['impl'] if isinstance(r['impl'], str) else 'rows'
        o = k + ' -> ' + o
        outcomes[o] = outcomes.get(o, 0) + 1
        if not isinstance(r['impl'], str):
            b = min(len(r['impl']), 10)
            nrows[b] = nrows.get(b, 0) + 1
    return {'families': fam, 'forms': forms, 'outcomes': outcomes, 'rows_per_table(capped at 10)': nrows}


# ---- parseTie: translated `_create_table` / `read_pdb` (Gen/ParseLoop.lean) against the real code ----------------------------------
def gen_parse_tie_checks(ctx):
    """implementation = generated: the statements `_create_table` REALLY hands to the cursor (recorded through a proxy around
    `self.c`), `_nModel` and the exception class, against `GenP._create_table`; `pdb2sql.read_pdb` against `GenP.read_pdb` on every
    input form incl. directories, missing files, empty containers and non-str elements"""
    import vlib
    rng = ctx.rng
    out = []

    def record_real(arg, tablename):
        log = []

        class Proxy:
            def __init__(self, real):
                self._real = real

            def execute(self, q, *a):
                log.append(['execute', q])
                return self._real.execute(q, *a)

            def executemany(self, q, data):
                data = [tuple(r) for r in data]
                log.append(['executemany', q, canon_rows(data)])
                return self._real.executemany(q, data)

            def __getattr__(self, k):
                return getattr(self._real, k)

        class Rec(pdb2sql):
            def _create_sql(self, *a, **k):
                pdb2sql._create_sql(self, *a, **k)
                self.c = Proxy(self.c)
        try:
            db = Rec(arg, tablename=tablename) if tablename is not None else Rec(arg)
            n = db._nModel
            db._close()
            return {'fx': log, 'nModel': n}
        except Exception as e:
            return exc_tag(e)

    def same_fx(real, gen):
        if isinstance(real, str) or isinstance(gen, str):
            return real == gen
        if real['nModel'] != gen['nModel'] or len(real['fx']) != len(gen['fx']):
            return False
        for a, b in zip(real['fx'], gen['fx']):
            if a[0] == 'execute':
                if b.get('execute') != a[1]:
                    return False
            elif b.get('executemany') != a[1] or not same_rows(a[2], b['rows']):
                return False
        return True

    TABLENAMES = [None, 'atom', 'ATOM', 'at-om', 'a.b', 't(1)', 'x+y=z', 'T_1', 'my/table:2', 'a\\b|c`d~e']
    # ---- _create_table: every container form, well-formed and malformed text
    cs = []
    for k in range(ctx.scale(260, 2500)):
        form = FORMS[k % len(FORMS)]
        r = rng.random()
        mal = rng.choice(['long', 'nochain', 'serial', 'resSeq', 'x', 'occ', 'blankxyz']) if r < 0.15 else None
        recs = gen_text(rng, rng.choice([5, 6, 9] if form in ('str', 'bytes') and rng.random() < 0.8 else [1, 2, 4, 5]), malformed=mal)
        cs.append((make_case(recs, form, rng.random() < 0.5, 'gen-tie'), rng.choice(TABLENAMES)))
    cs.append((make_case([], 'listStr', False, 'gen-tie-empty'), None))
    cs.append((make_case([], 'ndarrayStr', False, 'gen-tie-empty'), None))
    cs.append((make_case(['REMARK only'], 'listStr', False, 'gen-tie'), 'atom'))
    cs.append((make_case(gen_text(rng, 3, others=False), 'str', False, 'gen-tie-short-text'), None))
    lines, reals = [], []
    for c, tn in cs:
        arg, path = container(ctx, c)
        try:
            reals.append(record_real(arg, tn))
        finally:
            if path and os.path.exists(path):
                os.remove(path)
        d = driver_line(c)
        d['op'] = 'gen_create_table'
        # `pdb2sql(x)` passes the default of `__init__` on to `_create_table`
        import inspect
        d['tablename'] = tn if tn is not None else inspect.signature(pdb2sql.__init__).parameters['tablename'].default
        lines.append(d)
    ans = vlib.run_driver(lines, which='model', cluster=CLUSTER) if lines else []
    bad = None
    for (c, tn), real, a in zip(cs, reals, ans):
        g = a.get('model')
        if isinstance(g, str) and g.startswith('ERR:UNMODELLED'):
            continue
        if a.get('driver_error') or not same_fx(real, g):
            bad = bad or {'case': c, 'tablename': tn, 'real': str(real)[:600], 'generated': str(g if not a.get('driver_error') else a)[:600]}
    out.append({'name': f'gen:_create_table statements, rows, _nModel = implementation ({len(cs)} inputs)', 'ok': bad is None,
                'case': bad, 'detail': 'GenP._create_table (translated on this run) against the statements recorded from the real cursor'})

    # ---- read_pdb: every isinstance branch, the file system included
    d0 = ctx.tmpdir()
    fpath, dpath, npath = os.path.join(d0, 'rp_file.pdb'), os.path.join(d0, 'rp_dir'), os.path.join(d0, 'rp_missing.pdb')
    os.makedirs(dpath, exist_ok=True)
    rp = []

    def add(arg, line):
        rp.append((arg, dict(line, op='gen_read_pdb')))
    for k in range(ctx.scale(60, 600)):
        recs = gen_text(rng, rng.choice([1, 3, 4, 5, 6]))
        text = '\n'.join(recs) + ('\n' if rng.random() < 0.5 else '')
        with open(fpath, 'w') as f:
            f.write(text)
        fsj = {'path': fpath, 'kind': 'file', 'content': text}
        which = k % 10
        if which == 0:
            add(fpath, {'form': 'str', 'arg': fpath, 'fs': fsj})
        elif which == 1:
            add(Path(fpath), {'form': 'path', 'arg': fpath, 'fs': fsj})
        elif which == 2:
            add(text, {'form': 'str', 'arg': text})
        elif which == 3:
            add(text.encode(), {'form': 'bytes', 'arg': text})
        elif which == 4:
            add(list(recs), {'form': 'listStr', 'arg': list(recs)})
        elif which == 5:
            add([r.encode() for r in recs], {'form': 'listBytes', 'arg': list(recs)})
        elif which == 6:
            add(np.array(recs), {'form': 'ndarrayStr', 'arg': list(recs)})
        elif which == 7:
            add(np.array([r.encode() for r in recs]), {'form': 'ndarrayBytes', 'arg': list(recs)})
        elif which == 8:
            add(fpath.encode(), {'form': 'bytes', 'arg': fpath, 'fs': fsj})
        else:
            add([r + '\n' for r in recs], {'form': 'listStr', 'arg': [r + '\n' for r in recs]})
        # evaluate now: the file is rewritten by the next turn
        rp[-1] = (None, rp[-1][1], real_read(rp[-1][0]))
    fixed = [
        (dpath, {'form': 'str', 'arg': dpath, 'fs': {'path': dpath, 'kind': 'dir'}}),
        (Path(dpath), {'form': 'path', 'arg': dpath, 'fs': {'path': dpath, 'kind': 'dir'}}),
        (npath, {'form': 'str', 'arg': npath, 'fs': {'path': npath, 'kind': 'none'}}),
        (Path(npath), {'form': 'path', 'arg': npath, 'fs': {'path': npath, 'kind': 'none'}}),
        ('', {'form': 'str', 'arg': ''}), (b'', {'form': 'bytes', 'arg': ''}),
        ('\nATOM a\nATOM b\nATOM c', {'form': 'str', 'arg': '\nATOM a\nATOM b\nATOM c'}),
        ('\nATOM a\nATOM b\nATOM c\nATOM d', {'form': 'str', 'arg': '\nATOM a\nATOM b\nATOM c\nATOM d'}),
        ('ATOM a\nATOM b\nATOM c\nATOM d', {'form': 'str', 'arg': 'ATOM a\nATOM b\nATOM c\nATOM d'}),
        ('\nATOM \nATOM \nATOM \nATOM', {'form': 'str', 'arg': '\nATOM \nATOM \nATOM \nATOM'}),
        ([], {'form': 'listStr', 'arg': []}), (np.array([], dtype=str), {'form': 'ndarrayStr', 'arg': []}),
        ([1, 2, 3], {'form': 'listOther', 'arg': 3}), ([None], {'form': 'listOther', 'arg': 1}),
        (np.array([1.5, 2.5]), {'form': 'ndarrayOther', 'arg': 2}), (np.array([], dtype=float), {'form': 'ndarrayOther', 'arg': 0}),
        (5, {'form': 'other'}), (None, {'form': 'other'}), ({'a': 1}, {'form': 'other'}), (('ATOM',), {'form': 'other'}),
        (['ATOM x', ''], {'form': 'listStr', 'arg': ['ATOM x', '']}), ([b''], {'form': 'listBytes', 'arg': ['']}),
    ]
    for arg, line in fixed:
        rp.append((None, dict(line, op='gen_read_pdb'), real_read(arg)))
    ans = vlib.run_driver([l for _, l, _ in rp], which='model', cluster=CLUSTER)
    bad = None
    for (_, line, real), a in zip(rp, ans):
        g = a.get('model')
        if a.get('driver_error') or real != g:
            bad = bad or {'line': str(line)[:400], 'real': str(real)[:400], 'generated': str(g if not a.get('driver_error') else a)[:400]}
    out.append({'name': f'gen:read_pdb = implementation ({len(rp)} inputs, every isinstance branch, files / directories / missing paths)',
                'ok': bad is None, 'case': bad, 'detail': 'GenP.read_pdb (translated on this run), file system as a parameter'})

    # ---- the table-name clean-up loop alone, on names that SQLite would not accept as they are
    punct = "!@#$%^&*()[]{};:,./<>?\\|`~-=_+"
    names = ['atom', '', 'a b', '"q"', "it's", 'é-1', punct, 'x' + punct + 'y', '--', 'a\\|b']
    for k in range(ctx.scale(30, 300)):
        names.append(''.join(rng.choice('abAB01 _' + punct) for _ in range(rng.randint(0, 12))))
    real = []
    for n in names:
        t = n
        for ch in punct:
            t = t.replace(ch, '_')
        real.append(t)
    # what the source does, read off the recorded CREATE TABLE text where SQLite accepts the cleaned name
    probe = record_real(['ATOM      1  CA  ALA A   1       1.000   2.000   3.000  1.00  0.00           C  '], 'p-q.r')
    okp = not isinstance(probe, str) and probe['fx'][0][1].startswith('CREATE TABLE p_q_r (')
    ans = vlib.run_driver([{'op': 'gen_clean', 'tablename': n, 'chars': punct_of_source()} for n in names], which='model', cluster=CLUSTER)
    bad = None if okp else {'probe': str(probe)[:300]}
    for n, r, a in zip(names, real, ans):
        if a.get('model') != r:
            bad = bad or {'name': n, 'python': r, 'generated': a}
    out.append({'name': f'gen:table-name clean-up loop = str.replace chain ({len(names)} names)', 'ok': bad is None, 'case': bad,
                'detail': 'GenP._create_table_for_c over the punctuation literal of the source'})
    return out


def punct_of_source():
    """the punctuation literal of `_create_table`, read from the source the check runs against"""
    import ast, inspect, textwrap
    src = textwrap.dedent(inspect.getsource(pdb2sql._create_table))
    for n in ast.walk(ast.parse(src)):
        if isinstance(n, ast.For) and isinstance(n.iter, ast.Constant) and isinstance(n.iter.value, str):
            return n.iter.value
    return ''


def real_read(arg):
    try:
        r = pdb2sql.read_pdb(arg)
        return [x if isinstance(x, str) else repr(x) for x in r]
    except Exception as e:
        return exc_tag(e)


def extra_checks(ctx):
    return gen_parse_tie_checks(ctx)
