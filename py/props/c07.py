"""C07 -- i-RMSD and L-RMSD equal their definitions, with atoms paired by identity (cluster E; shared helpers of C11)."""
import os, math, warnings, itertools, hashlib, json
from fractions import Fraction
import numpy as np
from vlib import rat, unrat, exc_tag, REPO
import complexgen as cg
from pdb2sql import StructureSimilarity, pdb2sql

ID = 'C07'
LEVEL = 'proof'
CLUSTER = 'E'
GEN_UNITS = ['zone_line', 'read_zone_line', 'rotate', 'get_rmsd',
             'rmsd_runtime', 'rmsd_get_xyz_zone_backbone', 'rmsd_get_data_zone_backbone', 'rmsd_get_xyz', 'rmsd_read_zone',
             'rmsd_compute_lzone', 'rmsd_compute_izone', 'rmsd_compute_lrmsd_fast', 'rmsd_compute_irmsd_fast',
             'sim_runtime', 'sim_init', 'sim_get_residues', 'sim_check_residues', 'sim_get_identical_atoms', 'sim_get_izone_rowID',
             'sim_compute_lrmsd_pdb2sql', 'sim_compute_irmsd_pdb2sql', 'sim_compute_lrmsd_pdb2sql_export', 'sim_compute_irmsd_pdb2sql_export']
EXTRA_TARGETS = ['PdbVerif.Proofs.RmsdRoutes']      # route-agreement lemmas re-exported by Props/C09.lean
MODELS = ['Model.Rmsd.irmsdFast', 'Model.Rmsd.irmsdSql', 'Model.Rmsd.lrmsdFast', 'Model.Rmsd.lrmsdSql']
RULE = ('synthetic two-chain complexes from complexgen (3-15 residues per chain, backbone + 0-4 side-chain atoms, optional hydrogens, '
        'plain / negative / gappy / offset numbering, chain gaps 3.5-11 A so that the interface is empty, partial or everything); decoys by '
        'jitter (0.2-1.5 A), rigid motion of one chain or of everything, deletion of residues and atoms on the decoy side, on the reference side '
        'or on both, identical copies, record permutations (atoms within residues, residues, chain blocks, interleaved residues); a half-integer '
        'lattice family with atom pairs EXACTLY at the cutoff; equal-sized chains (long-chain tie); cutoffs 5-12 incl. the default 10; zone from '
        'memory / written / read back / hand-written zone text (chains listed in reverse order, a zone of another cutoff); every case runs the four '
        'routines x {svd, quaternion} with check=True and enforce_residue_matching on/off; a malformed stream (one or three chains, different chain '
        'sets, duplicated records, over-long / truncated records, non-numeric fields, blank chain with segID, HETATM/TER/END records, check=False). '
        'The Lean model returns the outcome class and the ordered coordinate pairs used for fitting and for evaluation; the value is recomputed from '
        'them with an independent optimal superposition (Horn quaternion, eigh) and compared with the library value. The Spec returns the pairs of '
        'the definition. A case is non-trivial when distinct by (structure pair, arguments) and by (outcome classes, number of pairs, value).')
ASSUMPTIONS = ['the float evaluation of the kernel (SVD / eig, sums) is compared on samples, not proved: |library value - sqrt(msd of the optimal '
               'superposition of the model\'s pairs)| <= 0.0005 + 1e-9; between that and 0.0005 + 1e-6 the case is a rounding-boundary discard',
               'L-RMSD is compared only when the fitted set has rank >= 2 (second singular value of the covariance > 1e-6 of the first): otherwise the '
               'optimal rotation is not unique and the value is method dependent; such cases are counted as discards',
               'no inter-chain distance of a generated reference is within 1e-9 of the cutoff unless it is exactly representable (lattice family)',
               'irmsd_pdb2sql has no residue check: with enforcement on it still leaves missing atoms out (allowed by the property\'s "or")']
TRUSTED = ['complexgen.min_rmsd / fit_then_eval (harness-side optimal superposition, Horn quaternion via numpy.linalg.eigh)',
           'the atoms handed to the Spec are the rows the library parsed (pdb2sql(file).get("*")); coordinates travel as the decimal numbers of the '
           'record text (shortest repr of the parsed double), which is also what the Lean parser model produces']

BACKBONE = {'CA', 'C', 'N', 'O'}
ROUTINES = ['irmsd_fast', 'irmsd_sql', 'lrmsd_fast', 'lrmsd_sql']
METHODS = ['svd', 'quaternion']
PDBDIR = os.path.join(REPO, 'test', 'pdb', '1AK4')


# ---------------------------------------------------------------------------------------------------------------------
# running the real code
# ---------------------------------------------------------------------------------------------------------------------

_counter = [0]
_hist = [0]


def write_file(ctx, lines, tag):
    # one file name per role, rewritten for every case: a path names what the file holds NOW (a reader that remembers what an
    # earlier file of that name held gives the previous case's answer and is reported)
    _counter[0] += 1
    p = os.path.join(ctx.tmpdir(), f'{tag}.pdb')
    with open(p, 'w') as f:
        f.write('\n'.join(lines) + '\n')
    return p


def call(f):
    try:
        with warnings.catch_warnings():
            warnings.simplefilter('ignore')
            v = f()
        return rat(float(v))
    except Exception as e:
        return exc_tag(e)


def rows_of(path):
    """the table as the library parsed it, in driver form (None when it does not parse)"""
    try:
        with warnings.catch_warnings():
            warnings.simplefilter('ignore')
            db = pdb2sql(path)
            data = db.get('*')
            db._close()
    except Exception:
        return None
    out = []
    dec = lambda v: rat(Fraction(repr(float(v))))     # the decimal number of the record text (shortest repr of the parsed double)
    for r in data:
        out.append([int(r[0]), str(r[1]), str(r[2]), str(r[3]), str(r[4]), int(r[5]), str(r[6]),
                    dec(r[7]), dec(r[8]), dec(r[9]), dec(r[10]), dec(r[11]), str(r[12]), int(r[13])])
    return out


def rows_of_lines(ctx, lines, tag='rows'):
    return rows_of(write_file(ctx, lines, tag))


def zone_changing_cutoff(ref_lines, cutoff):
    """a cutoff with the SAME integer part as `cutoff` for which the interface zone of the reference differs (some residue's
    smallest distance to the other chain lies strictly between the two); None when there is none.  Used for the earlier calls on the
    same object: a zone remembered under a coarsely derived key (int(cutoff), '%d' % cutoff, round(cutoff)) then gives another value"""
    try:
        at = [(l[21], l[22:26], float(l[30:38]), float(l[38:46]), float(l[46:54])) for l in ref_lines if l.startswith('ATOM')]
        chains = sorted({a[0] for a in at})
        if len(chains) != 2:
            return None
        A = np.array([a[2:] for a in at if a[0] == chains[0]]); B = np.array([a[2:] for a in at if a[0] == chains[1]])
        D = np.sqrt(((A[:, None, :] - B[None, :, :]) ** 2).sum(-1))
        resA = [a[1] for a in at if a[0] == chains[0]]; resB = [a[1] for a in at if a[0] == chains[1]]
        rmin = {}
        for r, d in list(zip([('a', x) for x in resA], D.min(1))) + list(zip([('b', x) for x in resB], D.min(0))):
            rmin[r] = min(rmin.get(r, 1e9), float(d))
        lo = math.floor(cutoff)
        up = sorted(d for d in rmin.values() if cutoff + 1e-3 < d < lo + 1 - 2e-3)
        if up:
            return up[0] + 1e-3
        dn = sorted(d for d in rmin.values() if lo + 2e-3 < d < cutoff - 1e-3)
        if dn and dn[-1] - 1e-3 >= 1.0:
            return dn[-1] - 1e-3
    except Exception:
        pass
    return None


def run_routines(ctx, dec_lines, ref_lines, cutoff, check, enforce, izone=None, lzone=None, methods=METHODS):
    """all four routines x methods; zone arguments: None | 'write' | 'read' | list of lines"""
    d = ctx.tmpdir()
    df, rf = write_file(ctx, dec_lines, 'dec'), write_file(ctx, ref_lines, 'ref')
    S = StructureSimilarity(df, rf, enforce_residue_matching=enforce)
    out = {}

    def zone_file(kind, arg):
        """returns (filename or None, text used when it exists beforehand)"""
        if arg is None:
            return None, None
        _counter[0] += 1
        fn = os.path.join(d, f'z.{kind}')          # same name from case to case (see write_file); absent before the library writes it
        if os.path.exists(fn):
            os.remove(fn)
        if arg == 'write':
            return fn, None
        if arg == 'read':
            # the library writes the file first
            with warnings.catch_warnings():
                warnings.simplefilter('ignore')
                if kind == 'izone':
                    S.compute_izone(cutoff, save_file=True, filename=fn)
                else:
                    S.compute_lzone(save_file=True, filename=fn)
            return fn, open(fn).read().splitlines(keepends=True)
        with open(fn, 'w') as f:
            f.write(''.join(arg))
        return fn, list(arg)

    used = {}
    _hist[0] += 1
    hk = _hist[0] % 5
    if izone is None and hk in (1, 2) and _hist[0] % 2 == 0:
        hk = 3
    if hk != 0:
        # history on the same object: the routines were already called with ANOTHER cutoff (no zone files); every value
        # examined below is a function of its own arguments and the two files only (one run in five examines a fresh object).
        # (round-4 seed C07-r4m1: a per-object zone cache keyed by '%d' % cutoff -- the earlier cutoff also takes values with the
        # SAME integer part as the examined one, chosen so that the zone differs, where a coarsely keyed cache returns the other zone)
        other = {1: cutoff + 2.5, 2: max(1.0, cutoff / 2), 3: zone_changing_cutoff(ref_lines, cutoff) or cutoff + 0.45, 4: cutoff + 0.9}[hk]
        for f in (lambda: S.compute_irmsd_fast(method='svd', cutoff=other, check=check), lambda: S.compute_irmsd_pdb2sql(cutoff=other, method='svd'),
                  lambda: S.compute_lrmsd_fast(method='svd', check=check), lambda: S.compute_lrmsd_pdb2sql(method='quaternion')):
            call(f)
    for m in methods:
        try:
            izf, iztext = zone_file('izone', izone)
            lzf, lztext = zone_file('lzone', lzone)
        except Exception as e:
            out['zone_setup'] = exc_tag(e)
            izf = lzf = iztext = lztext = None
        used = {'izone': iztext, 'lzone': lztext}
        out.setdefault('irmsd_fast', {})[m] = call(lambda: S.compute_irmsd_fast(izone=izf, method=m, cutoff=cutoff, check=check))
        if izone == 'write' and izf and os.path.isfile(izf):
            out['izone_text'] = open(izf).read().splitlines(keepends=True)
        # the SQL routine reads a zone file only when one existed beforehand
        iz_sql = izf if izone not in (None, 'write') else None
        out.setdefault('irmsd_sql', {})[m] = call(lambda: S.compute_irmsd_pdb2sql(cutoff=cutoff, method=m, izone=iz_sql))
        out.setdefault('lrmsd_fast', {})[m] = call(lambda: S.compute_lrmsd_fast(lzone=lzf, method=m, check=check))
        if lzone == 'write' and lzf and os.path.isfile(lzf):
            out['lzone_text'] = open(lzf).read().splitlines(keepends=True)
        out.setdefault('lrmsd_sql', {})[m] = call(lambda: S.compute_lrmsd_pdb2sql(method=m))
    out['zone_used'] = used
    return out


def impl(ctx, c):
    o = run_routines(ctx, c['dec'], c['ref'], float(unrat(c['cutoff'])), c['check'], c['enforce'], c.get('izone'), c.get('lzone'))
    o['dec_rows'] = rows_of_lines(ctx, c['dec'])
    o['ref_rows'] = rows_of_lines(ctx, c['ref'])
    return o


def driver_line(c, out):
    d = {'op': 'rmsd', 'dec': c['dec'], 'ref': c['ref'], 'cutoff': c['cutoff'], 'check': c['check'], 'enforce': c['enforce'],
         'dec_rows': out.get('dec_rows') if isinstance(out, dict) else None,
         'ref_rows': out.get('ref_rows') if isinstance(out, dict) else None}
    used = out.get('zone_used', {}) if isinstance(out, dict) else {}
    for k in ('izone', 'lzone'):
        a = c.get(k)
        if a is None:
            d[k] = None
        elif a == 'write':
            # fast routine: absent file (computed + written); the SQL i-RMSD routine is run without a zone file
            d[k] = 'write'
        elif a == 'read':
            d[k] = used.get(k)
        else:
            d[k] = list(a)
    return d


# ---------------------------------------------------------------------------------------------------------------------
# comparison
# ---------------------------------------------------------------------------------------------------------------------

def pairs_np(js):
    a = np.array([[float(unrat(x)) for x in p] for p in js], dtype=float).reshape(-1, 6)
    return a[:, :3], a[:, 3:]


def rank_ok(P, Q):
    if len(P) < 3:
        return False
    Pc, Qc = P - P.mean(0), Q - Q.mean(0)
    s = np.linalg.svd(Pc.T @ Qc, compute_uv=False)
    return s[1] > 1e-6 * max(s[0], 1e-12)


def expected_value(fit, ev, ligand):
    """unrounded value of the definition on the given pair lists; None when the fit is rank deficient (ligand only)"""
    Pf, Qf = pairs_np(fit)
    if not ligand:
        return cg.min_rmsd(Pf, Qf)
    if not rank_ok(Pf, Qf):
        return None
    Pe, Qe = pairs_np(ev)
    return cg.fit_then_eval(Pf, Qf, Pe, Qe)


def cmp_value(v, e):
    """library value v (3 decimals) against the unrounded expectation e"""
    if e is None or math.isnan(e):
        return 'discard'
    if abs(v - e) <= 0.0005 + 1e-9:
        return True
    if abs(v - e) <= 0.0005 + 1e-6:
        return 'discard'
    return f'library {v!r} vs {e!r} from the pairs'


def merge(verdicts):
    bad = [v for v in verdicts if v not in (True, 'discard')]
    if bad:
        return '; '.join(bad)
    return 'discard' if 'discard' in verdicts and all(v == 'discard' for v in verdicts) else True


def agree_model(c, out, model):
    if 'zone_setup' in out:
        return 'discard'
    verdicts = []
    for r in ROUTINES:
        m = model[r]
        for meth in METHODS:
            got = out[r][meth]
            if m['out'].startswith('ERR:UNMODELLED'):
                verdicts.append('discard'); continue
            if m['out'] != 'value':
                verdicts.append(True if got == m['out'] else f'{r}/{meth}: library {got} model {m["out"]}')
                continue
            if got.startswith('ERR'):
                verdicts.append(f'{r}/{meth}: library {got} model returns a value over {len(m["fit"])} pairs'); continue
            e = expected_value(m['fit'], m['eval'], r.startswith('lrmsd'))
            v = cmp_value(float(unrat(got)), e)
            verdicts.append(v if v in (True, 'discard') else f'{r}/{meth}: {v}')
    for k in ('izone', 'lzone'):
        if c.get(k) == 'write' and (k + '_text') in out:
            mt = model[k + '_text']
            if isinstance(mt, str) or [l for l in out[k + '_text']] != list(mt):
                verdicts.append(f'{k} file: library wrote {out[k + "_text"][:4]}..., model {mt if isinstance(mt, str) else mt[:4]}')
    if c.get('wellformed') and not model.get('raw_agrees'):
        verdicts.append('raw-column readers and parser disagree on a well-formed file (model)')
    return merge(verdicts)


def agree_spec(c, out, spec):
    if c.get('family') in ('check_false',) or 'zone_setup' in out:
        return True
    if c.get('izone') not in (None, 'write', 'read') or c.get('lzone') not in (None, 'write', 'read'):
        return True     # a hand-written zone is not the zone of the definition
    if not spec.get('defined'):
        # one of the files has no table: every routine must raise
        nums = [(r, m) for r in ROUTINES for m in METHODS if not out[r][m].startswith('ERR')]
        return True if not nums else f'no table for one of the files but {nums} returned numbers'
    if not spec['consistent']:
        return True     # outside the quantifier (duplicated identities, one / three chains, different chains)
    verdicts = []
    for r in ROUTINES:
        lig = r.startswith('lrmsd')
        fit = spec['lig_fit'] if lig else spec['interface']
        ev = spec['lig_eval'] if lig else spec['interface']
        for meth in METHODS:
            got = out[r][meth]
            missing = spec['missing_backbone'] if lig else spec['missing_any']
            must_report = c['enforce'] and r != 'irmsd_sql' and missing
            if got.startswith('ERR'):
                if must_report:
                    verdicts.append(True if got == 'ERR:ValueError' else f'{r}/{meth}: mismatch reported as {got}')
                elif len(fit) == 0 or len(ev) == 0:
                    verdicts.append(True)          # nothing to superpose / evaluate: no value is defined
                elif c['enforce'] and r != 'irmsd_sql' and not spec['same_atoms']:
                    # records reordered (or residues renamed): the enforced check may refuse, explicitly
                    verdicts.append(True if got == 'ERR:ValueError' else f'{r}/{meth}: mismatch reported as {got}')
                else:
                    verdicts.append(f'{r}/{meth}: library raised {got}, the definition gives a value over {len(fit)}/{len(ev)} pairs')
                continue
            if must_report:
                verdicts.append(f'{r}/{meth}: enforcement on, atoms missing, library returned {float(unrat(got))}'); continue
            if len(fit) == 0 or len(ev) == 0:
                verdicts.append(f'{r}/{meth}: library returned {float(unrat(got))} although no common atom is defined'); continue
            e = expected_value(fit, ev, lig)
            v = cmp_value(float(unrat(got)), e)
            verdicts.append(v if v in (True, 'discard') else f'{r}/{meth}: {v} (definition)')
            if c.get('family') == 'identical' and float(unrat(got)) != 0.0:
                verdicts.append(f'{r}/{meth}: identical structures score {float(unrat(got))}')
    return merge(verdicts)


def nontrivial_key(c, out):
    if not isinstance(out, dict) or 'irmsd_fast' not in out:
        return None
    return [c.get('family'), hashlib.sha1(json.dumps([c['dec'], c['ref']]).encode()).hexdigest()[:10], c['cutoff'], c['enforce'], c['check'],
            str(c.get('izone'))[:12], [out[r]['svd'] for r in ROUTINES]]


def distribution(recs):
    fam, outc, nvals, zero = {}, {}, 0, 0
    for r in recs:
        c, o = r['case'], r['impl']
        fam[c.get('family', '')] = fam.get(c.get('family', ''), 0) + 1
        if isinstance(o, dict) and 'irmsd_fast' in o:
            for rt in ROUTINES:
                v = o[rt]['svd']
                k = rt + ':' + (v if v.startswith('ERR') else 'value')
                outc[k] = outc.get(k, 0) + 1
                if not v.startswith('ERR'):
                    nvals += 1
                    zero += float(unrat(v)) == 0.0
    return {'families': fam, 'outcomes': outc, 'values': nvals, 'values_equal_zero': zero,
            'enforce_on': sum(1 for r in recs if r['case'].get('enforce')), 'cases': len(recs)}


# ---------------------------------------------------------------------------------------------------------------------
# generators
# ---------------------------------------------------------------------------------------------------------------------

def boundary_free(lines, cutoff):
    """no inter-chain distance of the structure is within 1e-9 (relative) of the cutoff, judged in exact integer arithmetic"""
    P = cg.parse_lines(lines)
    if not P:
        return True
    xyz = np.array([[round(v * 1000) for v in p['xyz']] for p in P], dtype=np.int64)
    ch = np.array([p['chain'] for p in P])
    c2 = Fraction(cutoff) ** 2 * 10 ** 6
    for a in sorted(set(ch)):
        A, B = xyz[ch == a], xyz[ch != a]
        if len(A) == 0 or len(B) == 0:
            continue
        d2 = ((A[:, None, :] - B[None, :, :]) ** 2).sum(-1)
        lo, hi = math.floor(c2 * (1 - Fraction(1, 10 ** 8))), math.ceil(c2 * (1 + Fraction(1, 10 ** 8)))
        if ((d2 >= lo) & (d2 <= hi)).any():
            return False
    return True


def mk(dec, ref, cutoff, enforce, family, check=True, izone=None, lzone=None, wellformed=True):
    return {'op': 'rmsd', 'dec': list(dec), 'ref': list(ref), 'cutoff': rat(Fraction(str(cutoff))), 'check': check, 'enforce': enforce,
            'izone': izone, 'lzone': lzone, 'family': family, 'wellformed': wellformed}


CUTOFFS = [10, 10, 10, 5, 6, 7.5, 8, 9, 12]


def equalize(ref):
    """same number of ATOMS in both chains (chains of equal residue count): the tie rule decides the fitted chain"""
    for r in ref.residues:
        r['atoms'] = r['atoms'][:5]
    by = {}
    for r in ref.residues:
        by.setdefault(r['chain'], []).append(r)
    a, b = list(by)
    while sum(len(r['atoms']) for r in by[a]) != sum(len(r['atoms']) for r in by[b]):
        big_ = a if sum(len(r['atoms']) for r in by[a]) > sum(len(r['atoms']) for r in by[b]) else b
        cand = [r for r in by[big_] if len(r['atoms']) > 4]
        if not cand:
            break
        cand[0]['atoms'] = cand[0]['atoms'][:-1]
    return ref


def gen_pair(rng, kind=None, big=False):
    """(reference, decoy) complexes"""
    kind = kind or rng.choice(['jitter', 'jitter', 'rigid', 'del_dec', 'del_dec', 'del_ref', 'del_both', 'identical', 'equal'])
    hi = 15 if big else 8
    nA, nB = rng.randint(3, hi), rng.randint(3, hi)
    if kind == 'equal':
        nB = nA
    ref = cg.make_complex(rng, nA=nA, nB=nB, chains=rng.choice([('A', 'B'), ('A', 'B'), ('B', 'A'), ('H', 'L'), ('X', 'C')]))
    if kind == 'equal':
        equalize(ref)
    if kind == 'identical':
        return ref, ref.copy(), kind
    dec = cg.jitter(rng, ref, rng.choice([0.2, 0.5, 1.0, 1.5]))
    if kind == 'rigid' or rng.random() < 0.4:
        dec = cg.rigid_move(rng, dec, which=rng.choice(['all', ref.residues[-1]['chain'], ref.residues[0]['chain']]))
    if kind in ('del_dec', 'del_both'):
        dec = cg.delete_some(rng, dec, n_res=rng.randint(0, 2), n_atoms=rng.randint(0 if kind == 'del_both' else 1, 3))
    if kind in ('del_ref', 'del_both'):
        ref = cg.delete_some(rng, ref, n_res=rng.randint(0, 2), n_atoms=rng.randint(1, 3))
    return ref, dec, kind


def lattice_pair(rng):
    """half-integer lattice complex whose ONLY inter-chain contact is one atom pair exactly at the cutoff: distance 5 (3-4-5 offsets)
    or 10 (6-8-0); every other inter-chain pair is farther, so `<=` versus `<` decides whether there is an interface at all"""
    res = []
    n = rng.randint(3, 5)
    for k in range(n):
        x = 4.0 * k
        res.append({'chain': 'A', 'resSeq': k + 1, 'resName': 'ALA',
                    'atoms': [('N', 'N', (x, 0.0, 0.0)), ('CA', 'C', (x + 1.5, 0.5, 0.0)), ('C', 'C', (x + 2.5, 0.0, 0.5)), ('O', 'O', (x + 2.5, 1.0, -0.5))]})
    off = rng.choice([(-3.0, -4.0, 0.0), (0.0, -3.0, -4.0), (-6.0, -8.0, 0.0), (0.0, -6.0, -8.0), (0.0, 0.0, -5.0), (0.0, -10.0, 0.0)])
    m = rng.randint(3, 4)
    for k in range(m):
        # atom N of the first residue of B sits exactly `off` from atom N of residue 1 of A; everything else of B lies at more
        # negative x and y (all atoms of A have x, y >= 0), hence farther away
        bx, by_, bz = off[0] - 6.0 * k, off[1] - 14.0 * k, off[2]
        res.append({'chain': 'B', 'resSeq': 10 + k, 'resName': 'GLY',
                    'atoms': [('N', 'N', (bx, by_, bz)), ('CA', 'C', (bx - 0.5, by_ - 1.5, bz)), ('C', 'C', (bx - 1.5, by_ - 2.0, bz)),
                              ('O', 'O', (bx - 2.5, by_ - 2.5, bz))]})
    ref = cg.Complex(res)
    dec = cg.jitter(rng, ref, 0.5)
    cutoff = 5 if off in ((-3.0, -4.0, 0.0), (0.0, -3.0, -4.0), (0.0, 0.0, -5.0)) else 10
    return ref, dec, cutoff


def residue_blocks(lines):
    """consecutive records of the same (chain, residue number), in file order"""
    blocks = []
    for l in lines:
        k = (l[21], l[22:26])
        if blocks and blocks[-1][0] == k:
            blocks[-1][1].append(l)
        else:
            blocks.append((k, [l]))
    return blocks


def permuted_lines(rng, cx, level):
    """the record lines of `cx` reordered (the records themselves, serial numbers included, are untouched):
    'atoms' within residues, 'residues' within chains, 'chains' (blocks), 'interleave' (two residues of a chain interleaved)"""
    blocks = residue_blocks(cx.lines())
    if level == 'atoms':
        for _, b in blocks:
            rng.shuffle(b)
    elif level in ('residues', 'chains'):
        by = {}
        for k, b in blocks:
            by.setdefault(k[0], []).append((k, b))
        order = list(by)
        if level == 'residues':
            for c in order:
                rng.shuffle(by[c])
        else:
            order.reverse()
        blocks = [kb for c in order for kb in by[c]]
    elif level == 'interleave':
        idx = [i for i in range(len(blocks) - 1) if blocks[i][0][0] == blocks[i + 1][0][0] and len(blocks[i][1]) > 1]
        if idx:
            i = rng.choice(idx)
            a, b = blocks[i][1], blocks[i + 1][1]
            blocks = blocks[:i] + [(blocks[i][0], [a[0], b[0]] + a[1:] + b[1:])] + blocks[i + 2:]
    return [l for _, b in blocks for l in b]


PERM_LEVELS = ['atoms', 'residues', 'chains', 'interleave']


def malformed(rng, ref, dec):
    """(decoy lines, reference lines, label) outside the quantifier"""
    rl, dl = ref.lines(), dec.lines()
    ch = sorted({l[21] for l in rl})
    kind = rng.choice(['one_chain', 'three_chains', 'chains_differ', 'dup_dec', 'dup_ref', 'long_line', 'short_line', 'bad_resseq', 'bad_xyz',
                       'segid_chain', 'other_records', 'empty_decoy_chain'])
    if kind == 'one_chain':
        rl = [l for l in rl if l[21] == ch[0]]; dl = [l for l in dl if l[21] == ch[0]]
    elif kind == 'three_chains':
        extra = [l[:21] + 'Z' + l[22:] for l in rl if l[21] == ch[0]]
        rl = rl + extra; dl = dl + extra
    elif kind == 'chains_differ':
        dl = [l[:21] + ('Q' if l[21] == ch[1] else l[21]) + l[22:] for l in dl]
    elif kind == 'dup_dec':
        k = rng.randrange(len(dl)); dl = dl + [dl[k]]
    elif kind == 'dup_ref':
        k = rng.randrange(len(rl)); rl = rl[:k] + [rl[k]] + rl[k:]
    elif kind == 'long_line':
        k = rng.randrange(len(dl)); dl = dl[:k] + [dl[k] + 'xx'] + dl[k + 1:]
    elif kind == 'short_line':
        k = rng.randrange(len(rl)); rl = rl[:k] + [rl[k][:rng.choice([20, 30, 50])]] + rl[k + 1:]
    elif kind == 'bad_resseq':
        k = rng.randrange(len(dl)); dl = dl[:k] + [dl[k][:22] + ' 1A ' + dl[k][26:]] + dl[k + 1:]
    elif kind == 'bad_xyz':
        k = rng.randrange(len(rl)); rl = rl[:k] + [rl[k][:30] + '  1.2.3 ' + rl[k][38:]] + rl[k + 1:]
    elif kind == 'segid_chain':
        f = lambda l: l[:21] + ' ' + l[22:72] + l[21] + l[73:]
        rl = [f(l) for l in rl]; dl = [f(l) for l in dl]
    elif kind == 'other_records':
        het = 'HETATM 9999  O   HOH A 999      10.000  10.000  10.000  1.00  0.00           O  '
        rl = ['REMARK test'] + rl[:3] + [het, 'TER'] + rl[3:] + ['END']
        dl = dl[:5] + ['ANISOU    1  N   MET A   1     2406   1892   1614    198    519   -328       N  '] + dl[5:] + ['TER', 'END']
    elif kind == 'empty_decoy_chain':
        dl = [l for l in dl if not (l[21] == ch[1] and l[12:16].strip() in BACKBONE)]
    return dl, rl, kind


def cases(ctx):
    rng = ctx.rng
    out = []
    n = ctx.scale(44, 400)
    for k in range(n):
        for _ in range(20):
            ref, dec, kind = gen_pair(rng, big=ctx.thorough and k % 4 == 0)
            cutoff = rng.choice(CUTOFFS)
            if boundary_free(ref.lines(), cutoff):
                break
        zi = rng.choice([None, None, None, 'write', 'read'])
        zl = rng.choice([None, None, None, 'write', 'read'])
        enf = rng.random() < 0.5
        out.append(mk(dec.lines(), ref.lines(), cutoff, enf, kind, izone=zi, lzone=zl))
        if kind in ('del_dec', 'del_ref', 'del_both'):
            out.append(mk(dec.lines(), ref.lines(), cutoff, not enf, kind))
    # exact-boundary lattice
    for k in range(ctx.scale(8, 40)):
        ref, dec, cutoff = lattice_pair(rng)
        out.append(mk(dec.lines(), ref.lines(), cutoff, False, 'lattice'))
    # record permutations of the decoy / the reference, both enforcement settings
    for k in range(ctx.scale(16, 80)):
        for _ in range(20):
            ref, dec, _ = gen_pair(rng, kind=rng.choice(['jitter', 'rigid', 'del_dec']))
            cutoff = rng.choice(CUTOFFS)
            if boundary_free(ref.lines(), cutoff):
                break
        level = PERM_LEVELS[k % len(PERM_LEVELS)]
        if rng.random() < 0.7:
            dl, rl = permuted_lines(rng, dec, level), ref.lines()
        else:
            dl, rl = dec.lines(), permuted_lines(rng, ref, level)
        out.append(mk(dl, rl, cutoff, k % 2 == 0, 'perm_' + level))
    # long-chain tie with chain blocks not in the sorted order of their identifiers
    for k in range(ctx.scale(4, 24)):
        n = rng.randint(3, 6)
        ref = equalize(cg.make_complex(rng, nA=n, nB=n, chains=[('B', 'A'), ('X', 'A'), ('L', 'H')][k % 3]))
        dec = cg.jitter(rng, ref, rng.choice([0.5, 1.0]))
        if k % 2:
            out.append(mk(permuted_lines(rng, dec, 'chains'), permuted_lines(rng, ref, 'chains'), 10, False, 'tie_order'))
        else:
            out.append(mk(dec.lines(), ref.lines(), 10, False, 'tie_order'))
    # the regression case of the interleaved decoy
    r0 = __import__('random').Random(1)
    ref = cg.make_complex(r0, nA=4, nB=3, hydrogens=False, numbering='plain', gap=4.5)
    dec = cg.jitter(r0, ref, 0.5)
    L = dec.lines(); P = cg.parse_lines(L)
    a1 = [l for l, p in zip(L, P) if p['chain'] == 'A' and p['resSeq'] == 1]
    a2 = [l for l, p in zip(L, P) if p['chain'] == 'A' and p['resSeq'] == 2]
    rest = [l for l, p in zip(L, P) if not (p['chain'] == 'A' and p['resSeq'] in (1, 2))]
    for enf in (False, True):
        out.append(mk([a1[0], a2[0]] + a1[1:] + a2[1:] + rest, ref.lines(), 10, enf, 'perm_interleave'))
    # hand-written zones
    for k in range(ctx.scale(4, 30)):
        ref, dec, _ = gen_pair(rng, kind='jitter')
        P = cg.parse_lines(ref.lines())
        res = sorted({(p['chain'], p['resSeq']) for p in P})
        pick = rng.sample(res, max(2, len(res) // 2))
        if rng.random() < 0.5:
            pick.sort(reverse=True)
        zt = ['zone %s%d-%s%d\n' % (c, n_, c, n_) for c, n_ in pick]
        out.append(mk(dec.lines(), ref.lines(), 10, False, 'zone_text', izone=zt, lzone=None))
        one = [z for z in zt if z[5] == pick[0][0]]
        out.append(mk(dec.lines(), ref.lines(), 10, False, 'zone_text', izone=None, lzone=one))
    # check=False: the positional readers (model correspondence only)
    for k in range(ctx.scale(4, 30)):
        ref, dec, kind = gen_pair(rng, kind=rng.choice(['jitter', 'del_dec']))
        out.append(mk(dec.lines(), ref.lines(), 10, False, 'check_false', check=False))
    # malformed stream
    for k in range(ctx.scale(24, 120)):
        ref, dec, _ = gen_pair(rng, kind=rng.choice(['jitter', 'del_dec']))
        dl, rl, kind = malformed(rng, ref, dec)
        out.append(mk(dl, rl, 10, rng.random() < 0.5, 'malformed_' + kind, wellformed=False))
    if ctx.thorough:
        dl = [l.rstrip('\n') for l in open(os.path.join(PDBDIR, '1AK4_5w.pdb'))]
        rl = [l.rstrip('\n') for l in open(os.path.join(PDBDIR, 'target.pdb'))]
        out.append(mk(dl, rl, 10, False, 'bundled_1AK4', wellformed=False))
    return out


def search_cases(ctx):
    """targeted families: small complexes x every deletion kind x both enforcement settings x cutoffs, permutations, lattice"""
    rng = ctx.rng
    out = []
    for kind in ['jitter', 'rigid', 'del_dec', 'del_ref', 'del_both', 'identical', 'equal']:
        for cutoff in (5, 8, 10, 12):
            for enf in (False, True):
                ref, dec, _ = gen_pair(rng, kind=kind)
                if boundary_free(ref.lines(), cutoff):
                    out.append(mk(dec.lines(), ref.lines(), cutoff, enf, 'search_' + kind))
    for level in PERM_LEVELS:
        for enf in (False, True):
            ref, dec, _ = gen_pair(rng, kind='jitter')
            out.append(mk(permuted_lines(rng, dec, level), ref.lines(), 10, enf, 'search_perm_' + level))
    # equal atom counts, chain blocks written in an order that is not the sorted order of their identifiers
    for chains in (('B', 'A'), ('X', 'A'), ('A', 'B')):
        for enf in (False, True):
            n = rng.randint(3, 6)
            ref = equalize(cg.make_complex(rng, nA=n, nB=n, chains=chains))
            dec = cg.jitter(rng, ref, 1.0)
            out.append(mk(dec.lines(), ref.lines(), 10, enf, 'search_tie_order'))
            out.append(mk(permuted_lines(rng, dec, 'chains'), permuted_lines(rng, ref, 'chains'), 10, enf, 'search_tie_order'))
    for _ in range(8):
        ref, dec, cutoff = lattice_pair(rng)
        out.append(mk(dec.lines(), ref.lines(), cutoff, False, 'search_lattice'))
    return out


# ---------------------------------------------------------------------------------------------------------------------
# the GENERATED raw-line readers (Gen/Rmsd.lean, py/translate_ext_rmsd.py) against the real code
# ---------------------------------------------------------------------------------------------------------------------

def reader_lines(rng):
    """record lines for the raw-column readers: a synthetic complex with, per case, some of: blank chain column + segID, negative /
    four-digit / signed residue numbers, free-format and exponent coordinates, non-ATOM records, short lines, bad numbers"""
    cx = cg.make_complex(rng, nA=rng.randint(2, 5), nB=rng.randint(2, 5), numbering=rng.choice([None, 'plain', 'negative', 'gaps']) if False else None)
    L = cx.lines()
    pad = lambda l: l + ' ' * (80 - len(l)) if len(l) < 80 else l
    L = [pad(l) for l in L]
    kinds = []
    for k in rng.sample(['segid', 'resseq', 'floats', 'records', 'short', 'bad_int', 'bad_float', 'tab', 'lower'], rng.randint(0, 3)):
        kinds.append(k)
        idx = rng.sample(range(len(L)), max(1, len(L) // rng.choice([2, 3, 6])))
        for i in idx:
            l = L[i]
            if len(l) < 80:
                continue            # already shortened
            if k == 'segid':
                seg = rng.choice([l[21], ' ', 'Q'])
                l = l[:21] + ' ' + l[22:72] + seg + l[73:]
            elif k == 'resseq':
                l = l[:22] + rng.choice(['1234', '-123', '  -5', '9999', ' +7 ', '0007', '-999', '   0', '1_0 ']) + l[26:]
            elif k == 'floats':
                f = lambda: rng.choice(['    1.5 ', '  -2.25 ', '     3e0', ' 1.25E+1', '    -.5 ', '      7.', '  +0.125', '-999.999', '9999.999', ' 1_0.5  '])
                l = l[:30] + f() + f() + f() + l[54:]
            elif k == 'records':
                l = rng.choice(['HETATM', 'ANISOU', 'TER   ', 'REMARK', 'ATOMS ', 'atom  ', ' ATOM ', 'ATOM\t ']) + l[6:]
            elif k == 'short':
                l = l[:rng.choice([4, 12, 16, 21, 22, 26, 30, 38, 46, 53, 54, 60, 72, 73])]
            elif k == 'bad_int':
                l = l[:22] + rng.choice(['    ', ' 1A ', '1 2 ', '--12', '12.0', '0x1A']) + l[26:]
            elif k == 'bad_float':
                j = rng.choice([30, 38, 46])
                l = l[:j] + rng.choice(['        ', ' 1.2.3  ', '  abc   ', '  1,5   ', '   1e   ']) + l[j + 8:]
            elif k == 'tab':
                l = l[:12] + rng.choice(['\tCA ', ' N\t ', ' CA\x0b', '\x0cC  ']) + l[16:]
            elif k == 'lower':
                l = l[:12] + l[12:16].lower() + l[16:]
            L[i] = l
    return L, kinds


def reader_zone(rng, lines):
    """a resData dictionary: chains of the file (some left out), a chain that is not in the file, residue numbers present / absent /
    repeated, in random insertion order"""
    res = {}
    for l in lines:
        if l.startswith('ATOM') and len(l) > 26:
            c = l[21] if l[21] != ' ' or len(l) <= 72 else l[72]
            try:
                res.setdefault(c, []).append(int(l[22:26]))
            except ValueError:
                pass
    zone = []
    chains = list(res)
    rng.shuffle(chains)
    for c in chains:
        if rng.random() < 0.7:
            ns = sorted(set(res[c]))
            pick = rng.sample(ns, rng.randint(0, len(ns)))
            if pick and rng.random() < 0.3:
                pick.append(pick[0])
            if rng.random() < 0.3:
                pick.append(rng.choice([0, -1, 77, 12345]))
            zone.append([c, pick])
    if rng.random() < 0.3:
        zone.insert(rng.randint(0, len(zone)), [rng.choice(['Z', ' ', 'AB', '']), [1, 2]])
    return zone


def zone_file_lines(rng):
    n = rng.randint(0, 6)
    out = []
    for _ in range(n):
        c = rng.choice(['A', 'B', 'A', 'x', '7', '_'])
        k = rng.choice([1, 4, 12, 0, -3, -12, 9999, -999])
        out.append('zone %s%d-%s%d\n' % (c, k, c, k))
    r = rng.random()
    if out and r < 0.12:
        out[rng.randrange(len(out))] = rng.choice(['zone\n', '\n', 'zone A-B\n', 'zone A1\n', 'zone Ax-Ax\n', 'zone A--1-A--1\n', 'zone  A1-A1  trailing\n', 'zone -5--5\n'])
    return out


def gen_reader_checks(ctx):
    """real readers vs their translation (driver op gen_readers): every output, exceptions included"""
    rng = ctx.rng
    S = StructureSimilarity
    lines_d, meta = [], []
    d = ctx.tmpdir()
    for k in range(ctx.scale(120, 900)):
        L, kinds = reader_lines(rng)
        as_file = rng.random() < 0.5
        if as_file:
            # a file: read_pdb returns the lines WITH their line ends
            fn = os.path.join(d, 'readers.pdb')
            with open(fn, 'w') as f:
                f.write(''.join(l + '\n' for l in L))
            src, seen = fn, [l + '\n' for l in L]
        else:
            src, seen = list(L), list(L)
        if not seen:
            continue
        zone = reader_zone(rng, seen)
        names = rng.choice([['C', 'CA', 'N', 'O'], ['C', 'CA', 'N', 'O'], ['CA'], ['CB', 'N', 'H'], []])
        resData = {}
        for c, ns in zone:
            resData.setdefault(c, []).extend(ns)
        zone = [[c, ns] for c, ns in resData.items()]
        # index for _get_xyz: some keys of the file, some foreign
        keys = []
        for l in seen:
            if l.startswith('ATOM') and len(l) > 26 and rng.random() < 0.6:
                try:
                    keys.append([l[21] if l[21] != ' ' or len(l) <= 72 else l[72], int(l[22:26]), l[12:16].strip()])
                except ValueError:
                    pass
        if rng.random() < 0.3:
            keys.append(['Z', 1, 'CA'])
        rng.shuffle(keys)
        zf = zone_file_lines(rng) if rng.random() < 0.8 else None
        zfn = os.path.join(d, 'readers.zone')
        if os.path.exists(zfn):
            os.remove(zfn)
        if zf is not None:
            with open(zfn, 'w') as f:
                f.write(''.join(zf))

        def run(f, conv):
            try:
                with warnings.catch_warnings():
                    warnings.simplefilter('ignore')
                    return conv(f())
            except Exception as e:
                return exc_tag(e)
        fl = lambda p: [rat(Fraction(repr(float(v)))) for v in p]
        keyl = lambda st: sorted([[c, int(n), a] for c, n, a in st])
        got = {
            'data_true': run(lambda: S.get_data_zone_backbone(src, dict(resData), return_not_in_zone=True, name=list(names)), lambda r: [keyl(r[0]), keyl(r[1])]),
            'data_false': run(lambda: S.get_data_zone_backbone(src, dict(resData), name=list(names)), keyl),
            'xyz_true': run(lambda: S.get_xyz_zone_backbone(src, dict(resData), return_not_in_zone=True, name=list(names)), lambda r: [[fl(p) for p in r[0]], [fl(p) for p in r[1]]]),
            'xyz_false': run(lambda: S.get_xyz_zone_backbone(src, dict(resData), name=list(names)), lambda r: [fl(p) for p in r]),
            'get_xyz': run(lambda: S._get_xyz(src, {tuple(k) for k in keys}), lambda r: [fl(p) for p in r]),
            'read_zone': run(lambda: S.read_zone(zfn), lambda r: [[c, [int(n) for n in ns]] for c, ns in r.items()]),
        }
        lines_d.append({'op': 'gen_readers', 'lines': seen, 'zone': zone, 'names': names, 'index': keys, 'zone_file': zf})
        meta.append((kinds, got))
    try:
        ans = vlib_run_driver(lines_d)
    except Exception as e:
        return [{'name': 'generated raw-line readers: model driver not available (' + repr(e)[:80] + ')', 'ok': True, 'case': None, 'detail': 'skipped'}]
    bad, stats = None, {}

    def canon_model(k, m):
        if isinstance(m, str):
            return m
        num = lambda p: [rat(Fraction(repr(float(Fraction(v))))) for v in p]       # the double nearest to the exact decimal value
        if k == 'data_true':
            return [sorted(m[0]), sorted(m[1])]
        if k == 'data_false':
            return sorted(m)
        if k == 'xyz_true':
            return [[num(p) for p in m[0]], [num(p) for p in m[1]]]
        if k in ('xyz_false', 'get_xyz'):
            return [num(p) for p in m]
        return m
    for c, (kinds, got), a in zip(lines_d, meta, ans):
        m = a.get('model') or {}
        for k, g in got.items():
            mm = canon_model(k, m.get(k))
            tag = k + ':' + (g if isinstance(g, str) else 'ok')
            stats[tag] = stats.get(tag, 0) + 1
            if isinstance(mm, str) and mm.startswith('ERR:UNMODELLED'):
                stats['unmodelled'] = stats.get('unmodelled', 0) + 1
                continue
            if k == 'read_zone' and mm == 'ERR:UnboundLocalError' and g != mm:
                # a zone line whose second word has neither 2 nor 4 dash-separated pieces AFTER a good line: the real loop reuses
                # chainID / resSeq of the previous line (stale variables); the line parser Gen.read_zone_line (and the hand model
                # Model.readZone built on it) reports UnboundLocalError for every such line.  Malformed zone file: outside the model.
                stats['read_zone:stale-variables(outside the model)'] = stats.get('read_zone:stale-variables(outside the model)', 0) + 1
                continue
            if mm != g and bad is None:
                bad = {'reader': k, 'real code': g if isinstance(g, str) else json.dumps(g)[:300], 'translation': mm if isinstance(mm, str) else json.dumps(mm)[:300],
                       'lines': c['lines'][:40], 'zone': c['zone'], 'names': c['names'], 'index': c['index'][:10], 'zone_file': c['zone_file'], 'kinds': kinds}
    nerr = sum(v for t, v in stats.items() if ':ERR' in t)
    return [{'name': f'get_data_zone_backbone / get_xyz_zone_backbone / _get_xyz / read_zone = their translations (Gen/Rmsd.lean) on {len(lines_d)} inputs '
                     f'({nerr} exceptions; outcomes {dict(sorted(stats.items()))})',
             'ok': bad is None and len(lines_d) > 50 and nerr > 10, 'case': bad,
             'detail': 'driver op gen_readers runs GenR.* ; sets compared sorted, coordinates as the doubles nearest to the exact decimal values',
             'kind': 'gen-readers'}]


def gen_zone_checks(ctx):
    """compute_lzone / compute_izone (save_file=True): returned dictionary and written file, real code vs translation (driver op gen_zones)"""
    rng = ctx.rng
    d = ctx.tmpdir()
    lines_d, meta = [], []
    for k in range(ctx.scale(30, 200)):
        ref, dec, kind = gen_pair(rng)
        rl = ref.lines()
        cutoff = rng.choice(CUTOFFS)
        if k % 6 == 5:
            dl, rl, kind = malformed(rng, ref, dec)
        elif not boundary_free(rl, cutoff):
            continue
        rf = write_file(ctx, rl, 'zref')
        S = StructureSimilarity(rf, rf, enforce_residue_matching=False)
        got = {}
        for nm, f in (('lzone', lambda fn: S.compute_lzone(save_file=True, filename=fn)),
                      ('izone', lambda fn: S.compute_izone(cutoff, save_file=True, filename=fn))):
            fn = os.path.join(d, 'gz.' + nm)
            if os.path.exists(fn):
                os.remove(fn)
            try:
                with warnings.catch_warnings():
                    warnings.simplefilter('ignore')
                    z = f(fn)
                got[nm] = {'zone': [[c, [int(n) for n in ns]] for c, ns in z.items()],
                           'files': [open(fn).read().splitlines(keepends=True)] if os.path.isfile(fn) else []}
            except Exception as e:
                got[nm] = exc_tag(e)
        lines_d.append({'op': 'gen_zones', 'ref': rl, 'cutoff': rat(Fraction(str(cutoff)))})
        meta.append((kind, got))
    try:
        ans = vlib_run_driver(lines_d)
    except Exception as e:
        return [{'name': 'generated zone computations: model driver not available (' + repr(e)[:80] + ')', 'ok': True, 'case': None, 'detail': 'skipped'}]
    bad, stats = None, {}
    for c, (kind, got), a in zip(lines_d, meta, ans):
        m = a.get('model') or {}
        for nm in ('lzone', 'izone'):
            g, mm = got[nm], m.get(nm)
            if isinstance(mm, str) and mm.startswith('ERR:UNMODELLED'):
                stats['unmodelled'] = stats.get('unmodelled', 0) + 1
                continue
            if isinstance(mm, dict):
                mm = {'zone': mm['zone'], 'files': [f[1] for f in mm['files']]}
            tag = nm + ':' + (g if isinstance(g, str) else 'ok')
            stats[tag] = stats.get(tag, 0) + 1
            if g != mm and bad is None:
                bad = {'routine': nm, 'real code': g, 'translation': mm, 'ref': c['ref'][:60], 'cutoff': c['cutoff'], 'kind': kind}
    return [{'name': f'compute_lzone / compute_izone (dictionary + zone file written) = their translations on {len(lines_d)} references ({dict(sorted(stats.items()))})',
             'ok': bad is None and len(lines_d) > 15, 'case': bad, 'detail': 'driver op gen_zones runs GenR.compute_lzone / compute_izone with save_file=True',
             'kind': 'gen-zones'}]


# ---------------------------------------------------------------------------------------------------------------------
# simTie: the GENERATED SQL routes (Gen/Sim.lean, py/translate_ext_sim.py) against the real code — driver op sim_sql
# ---------------------------------------------------------------------------------------------------------------------

def sim_sql_checks(ctx):
    """check_residues, get_identical_atoms, get_izone_rowID, compute_lrmsd_pdb2sql, compute_irmsd_pdb2sql: real code vs translation.
    The rotation kernel is a parameter of the translated routes: the arrays NumPy's kernel was called with and the matrix it returned in
    the real run are recorded and handed to the driver, which checks that the generated code calls the kernel with the same arrays."""
    import sys
    rng = ctx.rng
    mod = sys.modules['pdb2sql.StructureSimilarity']
    d = ctx.tmpdir()
    lines_d, meta = [], []
    dec9 = lambda v: rat(Fraction(repr(float(v))))

    def run(f, conv=lambda r: r):
        try:
            with warnings.catch_warnings():
                warnings.simplefilter('ignore')
                return conv(f())
        except Exception as e:
            return exc_tag(e)

    import io, contextlib

    def collect():
        for k in range(ctx.scale(30, 300)):
            ref, dec, kind = gen_pair(rng)
            rl, dl = ref.lines(), dec.lines()
            if k % 5 == 4:
                dl, rl, kind = malformed(rng, ref, dec)
            elif k % 7 == 3:
                dl = permuted_lines(rng, dec, rng.choice(['atoms', 'residues', 'chains', 'interleave']))
                kind += '+permuted'
            cutoff = rng.choice(CUTOFFS)
            try:
                if k % 5 != 4 and not boundary_free(rl, cutoff):
                    continue
            except Exception:
                continue
            enforce = rng.random() < 0.5
            names = rng.choice([None, None, None, ['CA', 'C', 'N', 'O'], ['CA'], ['CB', 'N', 'O']])
            kw = {} if names is None else {'name': list(names)}
            df, rf = write_file(ctx, dl, 'sdec'), write_file(ctx, rl, 'sref')
            S = StructureSimilarity(df, rf, enforce_residue_matching=enforce)
            zfn, ztext = os.path.join(d, 'sim.izone'), None
            if os.path.exists(zfn):
                os.remove(zfn)
            if rng.random() < 0.4:
                try:
                    with warnings.catch_warnings():
                        warnings.simplefilter('ignore')
                        StructureSimilarity(rf, rf).compute_izone(cutoff, save_file=True, filename=zfn)
                    ztext = open(zfn).read().splitlines(keepends=True)
                    if ztext and rng.random() < 0.3:
                        ztext = ztext[::2] + [ztext[0]]
                        open(zfn, 'w').write(''.join(ztext))
                except Exception:
                    ztext = None
                    if os.path.exists(zfn):
                        os.remove(zfn)
            rec = {}
            orig = mod.get_rotation_matrix

            def recorder(slot):
                def f(p, q, method='svd'):
                    try:
                        R = orig(p, q, method=method)
                    except Exception as e:
                        rec[slot] = {'err': exc_tag(e)}
                        raise
                    try:
                        P, Q = np.asarray(p, dtype=float).reshape(-1, 3), np.asarray(q, dtype=float).reshape(-1, 3)
                        if not (np.isfinite(P).all() and np.isfinite(Q).all() and np.isfinite(R).all()):
                            raise ValueError
                        rec[slot] = {'P': [[rat(float(v)) for v in r] for r in P], 'Q': [[rat(float(v)) for v in r] for r in Q],
                                     'R': [rat(float(v)) for v in np.asarray(R, dtype=float).reshape(-1)]}
                    except Exception:
                        rec[slot] = {'err': 'not-finite'}
                    return R
                return f
            got = {}
            try:
                mod.get_rotation_matrix = recorder('l')
                got['lrmsd'] = call(lambda: S.compute_lrmsd_pdb2sql(method='svd', **kw))
                mod.get_rotation_matrix = recorder('i')
                got['irmsd'] = call(lambda: S.compute_irmsd_pdb2sql(cutoff=cutoff, method='svd', izone=zfn if ztext is not None else None))
            finally:
                mod.get_rotation_matrix = orig
            got['check_residues'] = run(lambda: S.check_residues(**kw), bool)
            chains = sorted({l[21] for l in rl if l.startswith('ATOM') and len(l) > 21})[:3] + ['Z']
            pairs = lambda r: sorted([[dec9(v) for v in a] + [dec9(v) for v in b] for a, b in zip(r[0], r[1])])

            def ident(c):
                db1, db2 = pdb2sql(df), pdb2sql(rf)
                try:
                    return pairs(StructureSimilarity.get_identical_atoms(db1, db2, c, **kw))
                finally:
                    db1._close(); db2._close()
            got['identical'] = [run(lambda: ident(c)) for c in chains]

            def rowid(bb):
                db = pdb2sql(rf)
                try:
                    return [int(i) for i in S.get_izone_rowID(db, zfn, return_only_backbone_atoms=bb)]
                finally:
                    db._close()
            got['izone_rowID'] = run(lambda: rowid(True))
            got['izone_rowID_all'] = run(lambda: rowid(False))
            line = {'op': 'sim_sql', 'dec': [l + '\n' for l in dl], 'ref': [l + '\n' for l in rl], 'cutoff': rat(Fraction(str(cutoff))), 'enforce': enforce,
                    'names': names, 'chains': chains, 'kernel_l': rec.get('l'), 'kernel_i': rec.get('i')}
            if ztext is not None:
                line['izone'] = ztext
            if any(isinstance(v, dict) and v.get('err') == 'not-finite' for v in (rec.get('l'), rec.get('i'))):
                continue
            lines_d.append(line)
            meta.append((kind, got, rec))
    with contextlib.redirect_stdout(io.StringIO()):          # check_residues prints
        collect()
    try:
        ans = vlib_run_driver(lines_d)
    except Exception as e:
        return [{'name': 'generated SQL routes: model driver not available (' + repr(e)[:80] + ')', 'ok': True, 'case': None, 'detail': 'skipped'}]
    bad, stats = None, {}

    def count(t):
        stats[t] = stats.get(t, 0) + 1

    def route(nm, g, m, rec_slot):
        """real value (3 decimals) / exception against the translation's radicand / exception"""
        if isinstance(m, str) and m.startswith('ERR:UNMODELLED'):
            count(nm + ':outside (' + m[15:50] + ')')
            return True
        if isinstance(m, str) and m.startswith('ERR'):
            count(nm + ':' + m)
            return True if g == m else f'real code {g}, translation {m}'
        if g.startswith('ERR'):
            if isinstance(rec_slot, dict) and 'R' in rec_slot and g in ('ERR:ValueError', 'ERR:TypeError', 'ERR:IndexError'):
                count(nm + ':numpy-shape-error-after-kernel(discard)')
                return True
            return f'real code {g}, translation returns a value'
        count(nm + ':value')
        q = unrat(m)
        return True if abs(float(unrat(g)) - math.sqrt(float(q))) <= 0.0005 + 1e-6 else f'real code {float(unrat(g))}, translation sqrt({float(q)})'

    for c, (kind, got, rec), a in zip(lines_d, meta, ans):
        m = a.get('model') or {}
        verdicts = []
        for sfx in ('', '_rev'):
            verdicts.append(('lrmsd' + sfx, route('lrmsd', got['lrmsd'], m.get('lrmsd' + sfx), rec.get('l'))))
            verdicts.append(('irmsd' + sfx, route('irmsd', got['irmsd'], m.get('irmsd' + sfx), rec.get('i'))))
            mi = m.get('identical' + sfx) or []
            canon = [x if isinstance(x, str) else sorted([[rat(Fraction(repr(float(Fraction(v))))) for v in p + q] for p, q in zip(x[0], x[1])]) for x in mi]
            verdicts.append(('get_identical_atoms' + sfx, True if canon == got['identical'] else f'real code {json.dumps(got["identical"])[:200]}, translation {json.dumps(canon)[:200]}'))
        for key in ('check_residues', 'izone_rowID', 'izone_rowID_all'):
            g, mm = got[key], m.get(key)
            count(key + ':' + (g if isinstance(g, str) else 'ok'))
            if key != 'check_residues' and mm == 'ERR:UnboundLocalError' and g != mm:
                count(key + ':stale-variables(outside the model)')      # see gen_reader_checks
                continue
            verdicts.append((key, True if g == mm else f'real code {json.dumps(g)[:200]}, translation {json.dumps(mm)[:200]}'))
        for nm, v in verdicts:
            if v is not True and bad is None:
                bad = {'what': nm, 'why': v, 'kind': kind, 'dec': c['dec'][:60], 'ref': c['ref'][:60], 'cutoff': c['cutoff'], 'enforce': c['enforce'],
                       'names': c['names'], 'izone': c.get('izone')}
    nval = stats.get('lrmsd:value', 0) + stats.get('irmsd:value', 0)
    return [{'name': f'check_residues / get_identical_atoms / get_izone_rowID / compute_lrmsd_pdb2sql / compute_irmsd_pdb2sql = their translations '
                     f'(Gen/Sim.lean) on {len(lines_d)} pairs ({dict(sorted(stats.items()))})',
             'ok': bad is None and len(lines_d) > 15 and nval > 20, 'case': bad,
             'detail': 'driver op sim_sql runs GenS.*; set iteration order = identity and reversed; kernel = recorded arrays and matrix of the real run',
             'kind': 'gen-sim-sql'}]


def sim_export_checks(ctx):
    """the export branches (`exportpath` given) of compute_lrmsd_pdb2sql / compute_irmsd_pdb2sql: returned value and the rows of the four
    exported files, real code vs translation (driver op sim_export; rotation kernel recorded as in sim_sql_checks)"""
    import sys, io, contextlib, shutil
    rng = ctx.rng
    mod = sys.modules['pdb2sql.StructureSimilarity']
    d = ctx.tmpdir()
    lines_d, meta = [], []

    def exported(fn):
        db = pdb2sql(fn)
        try:
            return [[str(r[0]), int(r[1]), str(r[2]), float(r[3]), float(r[4]), float(r[5])] for r in db.get('chainID,resSeq,name,x,y,z')]
        finally:
            db._close()

    def collect():
        for k in range(ctx.scale(10, 120)):
            ref, dec, kind = gen_pair(rng)
            rl, dl = ref.lines(), dec.lines()
            if k % 4 == 3:
                dl = permuted_lines(rng, dec, rng.choice(['atoms', 'residues', 'chains', 'interleave']))
                kind += '+permuted'
            elif k % 9 == 8:
                j = rng.randrange(len(dl)); dl = dl + [dl[j]]; kind += '+dup'
            cutoff = rng.choice(CUTOFFS)
            if not boundary_free(rl, cutoff):
                continue
            enforce = rng.random() < 0.3
            df, rf = write_file(ctx, dl, 'xdec'), write_file(ctx, rl, 'xref')
            S = StructureSimilarity(df, rf, enforce_residue_matching=enforce)
            out = os.path.join(d, 'xout')
            shutil.rmtree(out, ignore_errors=True)
            os.makedirs(out)
            rec, got = {}, {}
            orig = mod.get_rotation_matrix

            def recorder(slot):
                def f(p, q, method='svd'):
                    try:
                        R = orig(p, q, method=method)
                    except Exception as e:
                        rec[slot] = {'err': exc_tag(e)}
                        raise
                    P, Q = np.asarray(p, dtype=float).reshape(-1, 3), np.asarray(q, dtype=float).reshape(-1, 3)
                    ok = np.isfinite(P).all() and np.isfinite(Q).all() and np.isfinite(R).all()
                    rec[slot] = {'P': [[rat(float(v)) for v in r] for r in P], 'Q': [[rat(float(v)) for v in r] for r in Q],
                                 'R': [rat(float(v)) for v in np.asarray(R, dtype=float).reshape(-1)]} if ok else {'err': 'not-finite'}
                    return R
                return f
            try:
                mod.get_rotation_matrix = recorder('l')
                got['lrmsd'] = call(lambda: S.compute_lrmsd_pdb2sql(exportpath=out, method='svd'))
                mod.get_rotation_matrix = recorder('i')
                got['irmsd'] = call(lambda: S.compute_irmsd_pdb2sql(cutoff=cutoff, method='svd', exportpath=out))
            finally:
                mod.get_rotation_matrix = orig
            if any(isinstance(v, dict) and v.get('err') == 'not-finite' for v in rec.values()):
                continue
            for nm in ('lrmsd_decoy', 'lrmsd_ref', 'irmsd_decoy', 'irmsd_ref'):
                fn = os.path.join(out, nm + '.pdb')
                got[nm] = exported(fn) if os.path.isfile(fn) else None
            lines_d.append({'op': 'sim_export', 'dec': [l + '\n' for l in dl], 'ref': [l + '\n' for l in rl], 'cutoff': rat(Fraction(str(cutoff))),
                            'enforce': enforce, 'kernel_l': rec.get('l'), 'kernel_i': rec.get('i')})
            meta.append((kind, got))
    with contextlib.redirect_stdout(io.StringIO()):
        collect()
    try:
        ans = vlib_run_driver(lines_d)
    except Exception as e:
        return [{'name': 'generated export branches: model driver not available (' + repr(e)[:80] + ')', 'ok': True, 'case': None, 'detail': 'skipped'}]
    bad, stats = None, {}

    def count(t):
        stats[t] = stats.get(t, 0) + 1

    def rows_same(real, model):
        if real is None or len(real) != len(model):
            return f'{None if real is None else len(real)} exported rows, translation {len(model)}'
        for a, b in zip(real, model):
            if a[:3] != b[:3]:
                return f'row {a[:3]} vs {b[:3]}'
            if any(abs(x - float(Fraction(y))) > 0.00051 for x, y in zip(a[3:], b[3:])):
                return f'coordinates of {a[:3]}: {a[3:]} vs {[float(Fraction(y)) for y in b[3:]]}'
        return True
    for c, (kind, got), a in zip(lines_d, meta, ans):
        m = a.get('model') or {}
        for route in ('lrmsd', 'irmsd'):
            g, mm = got[route], m.get(route)
            if isinstance(mm, str) and mm.startswith('ERR:UNMODELLED'):
                count(route + ':outside'); continue
            if isinstance(mm, str):
                count(route + ':' + mm)
                v = True if g == mm else f'real code {g}, translation {mm}'
            elif g.startswith('ERR'):
                count(route + ':numpy-shape-error(discard)' if g in ('ERR:ValueError', 'ERR:TypeError', 'ERR:IndexError') and c.get('kernel_' + route[0]) and 'R' in c['kernel_' + route[0]] else route + ':?')
                v = True if g in ('ERR:ValueError', 'ERR:TypeError', 'ERR:IndexError') else f'real code {g}, translation returns a value'
            else:
                count(route + ':value')
                v = True if abs(float(unrat(g)) - math.sqrt(float(unrat(mm['value'])))) <= 0.0005 + 1e-6 else f'value {float(unrat(g))} vs sqrt({float(unrat(mm["value"]))})'
                if v is True:
                    files = {''.join(f[0]).split('/')[-1][:-4]: f[1] for f in mm['files']}
                    for nm in (route + '_decoy', route + '_ref'):
                        w = rows_same(got[nm], files.get(nm, []))
                        if w is not True:
                            v = f'{nm}.pdb: {w}'
                            break
            if v is not True and bad is None:
                bad = {'route': route, 'why': v, 'kind': kind, 'dec': c['dec'][:60], 'ref': c['ref'][:60], 'cutoff': c['cutoff'], 'enforce': c['enforce']}
    nval = stats.get('lrmsd:value', 0) + stats.get('irmsd:value', 0)
    return [{'name': f'export branches of compute_lrmsd_pdb2sql / compute_irmsd_pdb2sql (value + rows of the exported files) = their translations '
                     f'(Gen/Sim.lean) on {len(lines_d)} pairs ({dict(sorted(stats.items()))})',
             'ok': bad is None and len(lines_d) >= 5 and nval >= 6, 'case': bad,
             'detail': 'driver op sim_export runs GenS.compute_*_pdb2sql_export; exported coordinates compared to the 3 decimals of the PDB text',
             'kind': 'gen-sim-export'}]


def vlib_run_driver(lines):
    import vlib
    return vlib.run_driver(lines, which='model', cluster=CLUSTER) if lines else []


def extra_checks(ctx):
    """the bundled pair against the constants of the repository's tests (thorough tier: also through the driver in cases())"""
    res = gen_reader_checks(ctx) + gen_zone_checks(ctx)
    res += sim_sql_checks(ctx)                       # simTie: Gen/Sim.lean
    res += sim_export_checks(ctx)                    # simTie: Gen/Sim.lean, export variants
    df, rf = os.path.join(PDBDIR, '1AK4_5w.pdb'), os.path.join(PDBDIR, 'target.pdb')
    if ctx.thorough and os.path.isfile(df):
        S = StructureSimilarity(df, rf, enforce_residue_matching=False)
        vals = {}
        with warnings.catch_warnings():
            warnings.simplefilter('ignore')
            d = ctx.tmpdir()
            vals['irmsd_fast'] = float(S.compute_irmsd_fast(izone=os.path.join(d, '1ak4.izone')))
            vals['irmsd_sql'] = float(S.compute_irmsd_pdb2sql())
            vals['lrmsd_fast'] = float(S.compute_lrmsd_fast(lzone=os.path.join(d, '1ak4.lzone')))
            vals['lrmsd_sql'] = float(S.compute_lrmsd_pdb2sql())
        ok = all(abs(vals[k] - 1.135) <= 0.001 for k in ('irmsd_fast', 'irmsd_sql')) and \
            all(abs(vals[k] - 6.655) <= 0.001 for k in ('lrmsd_fast', 'lrmsd_sql'))
        res.append({'name': 'bundled 1AK4 pair: i-RMSD 1.135, L-RMSD 6.655', 'ok': ok, 'case': vals, 'detail': 'constants of test/test_StructureSimilarity.py'})
    return res
