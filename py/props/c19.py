"""C19 -- many2sql: the intersection is exactly the common atoms, row-aligned per structure."""
import itertools, json
from props import c03 as B
from props.c03 import (STD, KIND, COLNAMES, build, jval, unjval, jrow, db_json, canon, call, is_err, short)
from pdb2sql import many2sql

ID = 'C19'
LEVEL = 'proof'
CLUSTER = 'B'
GEN_UNITS = ['Consts', 'sql_runtime', 'sql_intersection_query', 'sql_intersection_ncol', 'sql_intersection_split']
RULE = ('2-4 structures derived from a common parent (3-10 residues x 1-4 atoms, keys name/resName/resSeq/chainID unique) by '
        'independent deletions of atoms, coordinate / temperature / serial changes and record permutations; x every non-empty subset '
        'independent POINT MUTATIONS (a whole residue renamed in one structure); x every non-empty subset of the match attributes '
        '{name, resname, resSeq, chainID} (+ element, serial, and keys with a coordinate / temperature: x, y, temp) -- those that keep '
        'keys unique within every structure are compared with the property (Spec.intersection), the others with the model only; EACH '
        'subset goes through get_intersection(column, match) AND through intersect(match) (every table of the new database read back); '
        'x requested attribute lists ("*", single attributes, lists with own values such as x,y,z / serial). Outputs are compared as '
        'SORTED lists of aligned tuples (one row per structure): SQL row order without ORDER BY is unspecified and never relied upon. '
        'Point mutants and moved atoms make keys without resName / with a coordinate select a different atom set than the default key, '
        'so intersect(match=...) is distinguished from intersect(). Non-trivial: the intersection is a proper non-empty subset of some '
        'structure. '
        'SQL TEXT TIE (extra checks): the statement text get_intersection() / intersect() hand to self.conn.execute (recorded by a proxy '
        'around db.conn in the harness) is compared with the text of the TRANSLATED builder (Gen/Sql.lean intersection_query; driver op '
        'sql_intersection) for 1-4 structures under default and user-chosen table names, every column list incl. "*", match lists incl. the '
        'empty one and unknown names; the recorded statement is evaluated by MicroSql (op sql_query) and compared with sqlite3 as SORTED rows; '
        'the rows sqlite3 returns are cut by the TRANSLATED post-processing (intersection_split with intersection_ncol) and compared with '
        'what get_intersection() returns.')
ASSUMPTIONS = ['SQLite INNER JOIN ... ON = nested-loop join filtered by the ON clause (order unspecified)']
TRUSTED = ['intersect(): the Model driver runs Model.intersect with the concrete round trip Model.textRoundtrip; the Spec driver uses the '
           'round trip on representable values (model number reset)']

NAMES = ['N', 'CA', 'C', 'O', 'CB']
RESN = ['ALA', 'GLY', 'TRP']
MATCHABLE = ['name', 'resname', 'resSeq', 'chainID']


def parent(rng):
    rows, serial = [], 1
    nres = rng.randrange(3, 11)
    for i in range(nres):
        chain = 'AB'[i * 2 // nres]
        resn = rng.choice(RESN)
        for nm in NAMES[:rng.randrange(1, 5)]:
            rows.append([serial, nm, '', resn, chain, i + 1, '', rng.randrange(-40, 40) / 8, rng.randrange(-40, 40) / 8, rng.randrange(0, 80) / 8,
                         1.0, rng.randrange(0, 40) / 4, nm[0], 0])
            serial += 1
    return rows


def child(rng, prows):
    rows = [list(r) for r in prows if rng.random() > 0.25]
    if not rows:
        rows = [list(prows[0])]
    for r in rows:
        if rng.random() < 0.7:
            r[7] += rng.randrange(-8, 9) / 8
            r[8] += rng.randrange(-8, 9) / 8
            r[11] = rng.randrange(0, 40) / 4
    if rng.random() < 0.6:
        # point mutation: one whole residue gets another residue name (its atoms keep name / number / chain)
        res = rng.choice(sorted({(r[5], r[4]) for r in rows}))
        old = next(r[3] for r in rows if (r[5], r[4]) == res)
        new = rng.choice([x for x in RESN if x != old])
        for r in rows:
            if (r[5], r[4]) == res:
                r[3] = new
    mode = rng.random()
    if mode < 0.4:
        rng.shuffle(rows)
    elif mode < 0.6:
        rows.reverse()
    if rng.random() < 0.7:
        for i, r in enumerate(rows):
            r[0] = i + 1
    return rows


def unique_keys(tables, match):
    idx = [STD.index({'resname': 'resName'}.get(m, m)) for m in match]
    for t in tables:
        keys = [tuple(r[i] for i in idx) for r in t]
        if len(set(keys)) != len(keys):
            return False
    return True


def cases(ctx):
    rng = ctx.rng
    out = []
    subsets = [list(s) for r in range(1, 5) for s in itertools.combinations(MATCHABLE, r)]
    extra_matches = [['name', 'resname', 'resSeq', 'chainID', 'element'], ['serial'], ['resSeq', 'name'],
                     ['name', 'resSeq', 'chainID', 'x'], ['name', 'resname', 'resSeq', 'chainID', 'x', 'y'], ['name', 'resSeq', 'chainID', 'temp']]
    columns = ['*', 'x,y,z', 'serial', 'name,resSeq,chainID', 'serial,x', 'temp,name', 'chainID']
    for f in range(ctx.scale(30, 300)):
        p = parent(rng)
        ns = rng.choice([2, 2, 3, 4])
        tables = [child(rng, p) for _ in range(ns)]
        if rng.random() < 0.15:
            tables[rng.randrange(ns)] = [list(r) for r in p]           # one structure complete
        # quick tier: the Model driver enumerates the nested loops of the join (product of the structure sizes: 40^4 for four full
        # structures took 40 of the 60 s of a quick run); three / four structures are cut to 14 / 8 records there, two structures and the
        # whole thorough tier are untouched (no family is dropped, the random stream is the same)
        cap = ctx.scale({3: 14, 4: 8}, {}).get(ns)
        if cap:
            tables = [t[:cap] for t in tables]
        names = ['ATOM'] + ['ATOM%d' % i for i in range(1, ns)]
        if f % 2 == 1:
            # user-chosen table names, in an order that is neither alphabetical nor reverse alphabetical: the structures
            # are the i-th input, whatever their tables are called
            names = rng.sample(['wildtype', 'mutant', 'apo', 'Zeta', 'b2', 'ATOM9', 'model_10', 'holo'], ns)
            while ns > 2 and (names == sorted(names) or names == sorted(names, reverse=True)):
                rng.shuffle(names)
            if ns == 2 and names == sorted(names):
                names.reverse()
        dbj = db_json(list(zip(names, tables)))
        # every match-key subset through BOTH get_intersection() and intersect(match=...)
        for m in subsets + extra_matches:
            uniq = unique_keys(tables, m)
            tag = 'unique-keys' if uniq else 'non-unique-keys(model only)'
            if rng.random() < ctx.scale(0.4, 1.0):
                col = columns[(len(out)) % len(columns)]
                out.append({'op': 'intersection', 'fid': f, 'db': dbj, 'column': col, 'match': m, 'family': 'get_intersection:' + tag,
                            'unique': uniq, 'how': 'get_intersection'})
            if (uniq and rng.random() < ctx.scale(0.6, 1.0)) or rng.random() < ctx.scale(0.1, 0.5):
                out.append({'op': 'intersection', 'fid': f, 'db': dbj, 'column': '*', 'match': m, 'family': 'intersect(match):' + tag,
                            'unique': uniq, 'how': 'intersect'})
        out.append({'op': 'intersection', 'fid': f, 'db': dbj, 'column': '*', 'match': MATCHABLE, 'family': 'intersect(match):unique-keys', 'unique': True, 'how': 'intersect'})
        out.append({'op': 'intersection', 'fid': f, 'db': dbj, 'column': rng.choice(['x,foo', 'zz', 'name']), 'match': rng.choice([['foo'], ['name', 'bar'], MATCHABLE]),
                    'family': 'malformed', 'unique': True, 'how': 'get_intersection'})
        if f % 4 == 0:
            out.append({'op': 'intersection', 'fid': f, 'db': dbj, 'column': rng.choice(['X', 'Name,x']), 'match': ['NAME', 'resSeq', 'chainid', 'resname'],
                        'family': 'letter-case-variants(model only)', 'unique': False, 'how': 'get_intersection'})
    return out


def search_cases(ctx):
    return cases(ctx)


def driver_line(c):
    if c['how'] == 'intersect':
        return {'op': 'intersect', 'db': c['db'], 'match': c['match']}
    return {'op': 'intersection', 'db': c['db'], 'column': c['column'], 'match': c['match']}


_OBJ = {}


def obj_of(c):
    k = c['fid'], json.dumps(c['db']['tabs'][0]['rows'][:2])
    if k not in _OBJ:
        if len(_OBJ) > 4:
            _OBJ.clear()
        tables = [[[unjval(v) for v in r] for r in t['rows']] for t in c['db']['tabs']]
        lines = [[B.atom_line(r) for r in t] for t in tables]
        tnames = [t['name'] for t in c['db']['tabs']]
        default = tnames == ['ATOM'] + ['ATOM%d' % i for i in range(1, len(tnames))]
        db = call(lambda: many2sql(lines) if default else many2sql(lines, tablenames=list(tnames)))
        for nm, rows in zip([t['name'] for t in c['db']['tabs']], tables):
            B.check_parse(db, rows, tn=nm)
        _OBJ[k] = db
    return _OBJ[k]


def aligned(per_table):
    """per-structure row lists -> sorted list of aligned tuples"""
    if not per_table:
        return []
    n = len(per_table[0])
    if any(len(t) != n for t in per_table):
        return {'misaligned': [len(t) for t in per_table]}
    tuples = [[t[i] for t in per_table] for i in range(n)]
    return sorted(tuples, key=lambda x: json.dumps(x, sort_keys=True))


def impl(ctx, c):
    db = obj_of(c)
    if c['how'] == 'intersect':
        new = call(lambda: db.intersect(match=list(c['match'])))
        if is_err(new):
            return new
        names = new._get_table_names()
        per = [canon(new.c.execute(f'select * from {n}').fetchall()) for n in names]
        return {'names': names, 'tuples': aligned(per)}
    r = call(lambda: db.get_intersection(c['column'], match=list(c['match'])))
    return r if is_err(r) else aligned(canon(r))


def norm(c, x):
    """model / spec answer in the same canonical form"""
    if isinstance(x, str):
        return x
    if isinstance(x, dict) and 'tabs' in x:            # a database: the intersected one
        return {'names': [t['name'] for t in x['tabs']], 'tuples': aligned([t['rows'] for t in x['tabs']])}
    return aligned(x)


def agree_model(c, out, model):
    if isinstance(model, str) and model.startswith('ERR:UNMODELLED'):
        return 'discard'
    m = norm(c, model)
    if c['how'] == 'intersect':
        return True if out == m else f'intersect(): implementation {short(out)} model {short(m)}'
    return True if out == m else f'implementation {short(out)} model {short(m)}'


def agree_spec(c, out, spec):
    if not c['unique'] or spec == 'OUTSIDE':
        return True
    if spec == 'REJECTED':
        return True if is_err(out) else f'implementation {short(out)} where the property demands an error'
    s = norm(c, spec)
    if c['how'] == 'intersect':
        if s == 'EMPTY':
            return True if is_err(out) else f'intersect() returned {short(out)} for an empty intersection'
        if is_err(out):
            return f'intersect() raised {out} on a non-empty intersection'
        return True if out == s else f'intersect(): tables {short(out)} property {short(s)}'
    return True if out == s else f'implementation {short(out)} property {short(s)}'


def nontrivial_key(c, out):
    if is_err(out):
        return ['err', c['fid'], c['column'], c['match']]
    tuples = out.get('tuples') if isinstance(out, dict) else out     # `aligned` answers a dict WITHOUT 'tuples' when the rows are not aligned
    sizes = [len(t['rows']) for t in c['db']['tabs']]
    if isinstance(tuples, list) and 0 < len(tuples) < max(sizes):
        return [c['fid'], c['column'], c['match'], c['how']]
    return None


def distribution(recs):
    fam, nstruct, msize, cols, outs, frac = {}, {}, {}, {}, {}, {'empty': 0, 'proper subset': 0, 'everything': 0}
    for r in recs:
        c, o = r['case'], r['impl']
        fam[c['family']] = fam.get(c['family'], 0) + 1
        nstruct[len(c['db']['tabs'])] = nstruct.get(len(c['db']['tabs']), 0) + 1
        msize[len(c['match'])] = msize.get(len(c['match']), 0) + 1
        cols[c['column']] = cols.get(c['column'], 0) + 1
        outs[o if is_err(o) else 'ok'] = outs.get(o if is_err(o) else 'ok', 0) + 1
        if not is_err(o):
            t = o.get('tuples') if isinstance(o, dict) else o
            if isinstance(t, list):
                m = min(len(x['rows']) for x in c['db']['tabs'])
                frac['empty' if not t else 'everything' if len(t) >= m else 'proper subset'] += 1
    return {'families': fam, 'structures': nstruct, 'match_key_size': msize, 'requested_attributes': cols, 'outcomes': outs, 'intersection_size': frac}


# ---------------------------------------------------------------------------------------------------------------------
# "Per-structure queries and sub-selections return each structure's own atoms": get_all and db(**selection), with short
# selection lists and with lists beyond the internal 950-value limit, default and user-chosen table names.  The oracle is the
# property's own row-by-row filter of each structure's records (plain Python; a difference is reported with the inputs).
# ---------------------------------------------------------------------------------------------------------------------

def _big_parent(rng, n):
    rows = []
    for s in range(n):
        rows.append([s + 1, NAMES[s % 4], '', RESN[(s // 4) % 3], 'AB'[(2 * s) // n], s // 4 + 1, '',
                     rng.randrange(-400, 400) / 8, rng.randrange(-400, 400) / 8, rng.randrange(0, 800) / 8, 1.0, rng.randrange(0, 40) / 4, NAMES[s % 4][0], 0])
    return rows


def _holds(r, sel):
    for k, v in sel.items():
        neg = k.startswith('no_')
        col = STD.index(k[3:] if neg else k)
        hit = r[col] in (v if isinstance(v, list) else [v])
        if hit == neg:
            return False
    return True


# ---------------------------------------------------------------------------------------------------------------------
# the SQL text tie: the statement get_intersection() / intersect() send vs the translated builder; MicroSql vs sqlite3
# ---------------------------------------------------------------------------------------------------------------------

class ConnRecorder:
    """a recording proxy around the sqlite3 connection of a many2sql object (in the harness; /repo is not touched)"""

    def __init__(self, conn):
        self._conn = conn
        self.log = []

    def execute(self, sql, *params):
        self.log.append((sql, [list(p) for p in params]))
        return self._conn.execute(sql, *params)

    def __getattr__(self, name):
        return getattr(self._conn, name)


def recorded_conn(db, f):
    real = db.conn
    rec = ConnRecorder(real)
    db.conn = rec
    try:
        out = call(f)
    finally:
        db.conn = real
    return out, [e for e in rec.log if e[0].startswith('select ')]


def sql_text_checks(ctx):
    import vlib
    rng = ctx.rng
    subsets = [list(s) for r in range(0, 5) for s in itertools.combinations(MATCHABLE, r)]
    more = [['serial'], ['name', 'resSeq', 'chainID', 'x'], ['element', 'name'], ['foo'], ['name', 'bar'], ['NAME', 'resSeq']]
    columns = ['*', 'x,y,z', 'serial', 'name,resSeq,chainID', 'serial,x', 'temp,name', 'chainID', 'x,foo', 'zz', 'Name,x']
    lines1, meta = [], []
    for f in range(ctx.scale(14, 90)):
        p = parent(rng)
        ns = rng.choice([1, 2, 2, 3, 4])
        # small structures: a match list that is empty or a single attribute makes the join a (near) cross product
        cap = {1: 12, 2: 10, 3: 7, 4: 5}[ns]
        tables = [child(rng, p)[:cap] for _ in range(ns)]
        names = ['ATOM'] + ['ATOM%d' % i for i in range(1, ns)]
        if f % 2 == 1:
            names = rng.sample(['wildtype', 'mutant', 'apo', 'Zeta', 'b2', 'ATOM9', 'model_10', 'holo'], ns)
        default = f % 2 == 0
        lines = [[B.atom_line(r) for r in t] for t in tables]
        db = call(lambda: many2sql(lines) if default else many2sql(lines, tablenames=list(names)))
        if is_err(db):
            continue
        dbj = db_json(list(zip(names, tables)))
        for k in range(ctx.scale(10, 24)):
            m = rng.choice(subsets + more)
            how = 'intersect' if rng.random() < 0.25 else 'get_intersection'
            col = '*' if how == 'intersect' else rng.choice(columns)
            if how == 'intersect':
                out, stm = recorded_conn(db, lambda: db.intersect(match=list(m)))
            else:
                out, stm = recorded_conn(db, lambda: db.get_intersection(col, match=list(m)))
            real_names = call(lambda: db._get_table_names())
            case = {'op': 'sql_intersection', 'names': real_names, 'column': col, 'match': m}
            text = stm[0][0] if len(stm) == 1 else None
            raw = call(lambda: canon(db.conn.execute(text).fetchall())) if text is not None else None
            lines1.append(case)
            lines1.append({'op': 'sql_query', 'db': dbj, 'text': text or '', 'params': []})
            meta.append({'case': case, 'how': how, 'names': names, 'real_names': real_names, 'sent': [e[0] for e in stm], 'raw': raw,
                         'out': out if is_err(out) else (canon(out) if how == 'get_intersection' else 'db'), 'ntable': len(real_names) if isinstance(real_names, list) else 0})
    ans = vlib.run_driver(lines1, which='model', cluster=CLUSTER) if lines1 else []
    res = []
    bad_text = bad_names = bad_micro = None
    nq = disc = 0
    lines2, meta2 = [], []
    for i, mt in enumerate(meta):
        a_text, a_rows = ans[2 * i].get('model'), ans[2 * i + 1].get('model')
        want = a_text.get('text') if isinstance(a_text, dict) else a_text
        if mt['real_names'] != mt['names'] and bad_names is None:
            bad_names = {'tablenames given': mt['names'], '_get_table_names()': mt['real_names']}
        if mt['sent'] != [want] and bad_text is None:
            bad_text = {'case': mt['case'], 'call': mt['how'], 'real code sends': mt['sent'], 'translated builder': want}
        if mt['raw'] is None:
            continue
        if isinstance(a_rows, str) and a_rows.startswith('ERR:UNMODELLED'):
            disc += 1
        else:
            nq += 1
            srt = lambda x: x if isinstance(x, str) else sorted(x, key=lambda r: json.dumps(r, sort_keys=True))
            if srt(a_rows) != srt(mt['raw']) and bad_micro is None:
                bad_micro = {'statement': mt['sent'][0], 'sqlite3 (sorted)': short(srt(mt['raw'])), 'MicroSql (sorted)': short(srt(a_rows))}
        if mt['how'] == 'get_intersection' and isinstance(mt['raw'], list) and isinstance(a_text, dict):
            lines2.append({'op': 'sql_intersection_split', 'rows': mt['raw'], 'ntable': mt['ntable'], 'ncol': a_text['ncol']})
            meta2.append(mt)
    res.append({'name': f'SQL text of get_intersection / intersect: real code = translated builder ({len(meta)} calls)', 'ok': bad_text is None and len(meta) > 40,
                'case': bad_text, 'detail': 'Gen/Sql.lean intersection_query vs the statement recorded at the sqlite3 connection', 'kind': 'sql-text'})
    res.append({'name': 'table names are listed in input order', 'ok': bad_names is None, 'case': bad_names, 'detail': '', 'kind': 'sql-text'})
    res.append({'name': f'MicroSql = sqlite3 on every recorded join statement, as sorted rows ({nq} statements, {disc} outside the model)',
                'ok': bad_micro is None and nq > 40, 'case': bad_micro, 'detail': 'Model/MicroSql.lean execJoin is the SQLite contract of Props/C19K', 'kind': 'microsql'})
    ans2 = vlib.run_driver(lines2, which='model', cluster=CLUSTER) if lines2 else []
    bad = None
    for mt, a in zip(meta2, ans2):
        if a.get('model') != mt['out'] and bad is None:
            bad = {'case': mt['case'], 'get_intersection returns': short(mt['out']), 'translated cutting of the same rows': short(a.get('model'))}
    res.append({'name': f'cutting of the joined rows: get_intersection = translated intersection_split with intersection_ncol ({len(meta2)} calls)',
                'ok': bad is None and len(meta2) > 20, 'case': bad, 'detail': 'Gen/Sql.lean intersection_split / intersection_ncol', 'kind': 'sql-text'})
    return res


def extra_checks(ctx):
    rng = ctx.rng
    res = sql_text_checks(ctx)
    fams = []
    for k in range(ctx.scale(6, 40)):
        p = parent(rng)
        fams.append(('small', [child(rng, p) for _ in range(rng.choice([2, 3, 4]))]))
    for k in range(ctx.scale(2, 8)):
        n = rng.choice([1100, 1300, 2100])
        p = _big_parent(rng, n)
        tabs = []
        for _ in range(rng.choice([2, 3])):
            t = [list(r) for r in p if rng.random() > 0.1]
            for r in t:
                r[7] += rng.randrange(-8, 9) / 8
            if rng.random() < 0.5:
                t.reverse()
            tabs.append(t)
        fams.append(('big', tabs))
    for fi, (size, tables) in enumerate(fams):
        ns = len(tables)
        names = None
        if fi % 2 == 1:
            names = rng.sample(['wildtype', 'mutant', 'apo', 'Zeta', 'b2', 'model_10'], ns)
            if names == sorted(names):
                names.reverse()
        lines = [[B.atom_line(r) for r in t] for t in tables]
        db = call(lambda: many2sql(lines) if names is None else many2sql(lines, tablenames=list(names)))
        if is_err(db):
            res.append({'name': f'per-structure family {fi}: construction', 'ok': False, 'case': {'error': db}, 'detail': ''})
            continue
        allserials = sorted({r[0] for t in tables for r in t})
        sels = [{'chainID': 'A'}, {'name': ['CA', 'N'], 'no_resName': ['GLY']}, {'resSeq': rng.sample(range(1, 12), 4)}, {}]
        if size == 'big':
            long = rng.sample(allserials, rng.choice([951, 1000, len(allserials) - 7]))
            sels = [{'serial': long}, {'no_serial': long}, {'serial': long, 'chainID': 'A'}, {'chainID': ['B']}]
        for sel in sels:
            col = rng.choice(['serial,x', 'x,y,z', 'name', 'serial'])
            idx = [STD.index(cn) for cn in col.split(',')]
            want = []
            for t in tables:
                rows = [[r[i] for i in idx] for r in t if _holds(r, sel)]
                want.append([r[0] for r in rows] if len(idx) == 1 and rows else rows)
            got = call(lambda: db.get_all(col, **{k_: (list(v) if isinstance(v, list) else v) for k_, v in sel.items()}))
            okc = (not is_err(got)) and json.loads(json.dumps(got)) == json.loads(json.dumps(want))
            if not okc:
                res.append({'name': f'get_all family {fi} ({size})', 'ok': False,
                            'case': {'tables': [[B.atom_line(r) for r in t][:40] for t in tables], 'tablenames': names, 'columns': col,
                                     'selection': {k_: (v[:20] if isinstance(v, list) else v) for k_, v in sel.items()},
                                     'got': short(got), 'want': short(want)},
                            'detail': 'get_all must return, per structure in input order, that structure\'s own matching atoms'})
            if sel:
                sub = call(lambda: db(**{k_: (list(v) if isinstance(v, list) else v) for k_, v in sel.items()}))
                if is_err(sub):
                    # a structure left with no atom cannot be represented as a table of the new database: the call raises as soon as ONE structure is empty
                    oks, gotsub = any(not any(_holds(r, sel) for r in t) for t in tables), sub
                else:
                    sn = sub._get_table_names()
                    gotsub = [[list(r)[:2] + [list(r)[7]] for r in sub.c.execute(f'select * from {n}').fetchall()] for n in sn]
                    wantsub = [[[r[0], r[1], r[7]] for r in t if _holds(r, sel)] for t in tables]
                    oks = json.loads(json.dumps(gotsub)) == json.loads(json.dumps(wantsub)) and sn == (names or ['ATOM'] + ['ATOM%d' % i for i in range(1, ns)])
                if not oks:
                    res.append({'name': f'sub-selection family {fi} ({size})', 'ok': False,
                                'case': {'tables': [[B.atom_line(r) for r in t][:40] for t in tables], 'tablenames': names,
                                         'selection': {k_: (v[:20] if isinstance(v, list) else v) for k_, v in sel.items()}, 'got': short(gotsub)},
                                'detail': 'db(**selection) must hold, table by table under the same names, each structure\'s own matching atoms'})
    res.append({'name': f'per-structure queries and sub-selections on {len(fams)} families (short lists; lists of 951+ values on 1100-2100 atom structures)',
                'ok': True, 'case': None, 'detail': ''})
    return res


# ======================================================================================================================
# BEGIN manyTie -- translated-code tie: GENERATED many2sql.intersect / get_all (Gen/Many.lean, namespace GenM, run by the
# driver ops genm_intersect / genm_get_all of Driver/ExtMany.lean with the text side GenM.Ext.text) against the REAL code
# on the same generated inputs; every mismatch is an entry.  Stay inside this block.
# ======================================================================================================================
GEN_UNITS = GEN_UNITS + ['many_defaults', 'many_runtime', 'many_convert_input', 'many_init', 'many_intersect', 'many_get_all']


def genm_many_checks(ctx):
    import vlib
    rng = ctx.rng
    subsets = [list(s) for r in range(1, 5) for s in itertools.combinations(MATCHABLE, r)]
    more = [['serial'], ['name', 'resSeq', 'chainID', 'x'], ['element', 'name'], ['foo'], ['name', 'bar'], []]
    columns = ['*', 'x,y,z', 'serial', 'name,resSeq,chainID', 'serial,x', 'temp,name', 'chainID', 'rowID', 'rowID,x', 'zz', 'x,foo']
    lines, real, meta = [], [], []
    for f in range(ctx.scale(16, 120)):
        p = parent(rng)
        ns = rng.choice([1, 2, 2, 3, 4])
        cap = {1: 14, 2: 12, 3: 8, 4: 6}[ns]
        tables = [child(rng, p)[:cap] for _ in range(ns)]
        names = ['ATOM'] + ['ATOM%d' % i for i in range(1, ns)]
        default = f % 2 == 0
        if not default:
            names = rng.sample(['wildtype', 'mutant', 'apo', 'Zeta', 'b2', 'ATOM9', 'model_10', 'holo'], ns)
        plines = [[B.atom_line(r) for r in t] for t in tables]
        db = call(lambda: many2sql(plines) if default else many2sql(plines, tablenames=list(names)))
        if is_err(db):
            continue
        dbj = db_json(list(zip(names, tables)))
        for k in range(ctx.scale(8, 16)):
            if rng.random() < 0.5:
                m = rng.choice(subsets + more)
                use_default = rng.random() < 0.2
                new = call(lambda: db.intersect() if use_default else db.intersect(match=list(m)))
                if is_err(new):
                    out = new
                else:
                    nn = new._get_table_names()
                    out = {'names': list(nn), 'tuples': aligned([canon(new.c.execute(f'select * from {n}').fetchall()) for n in nn]), 'nModel': int(new._nModel)}
                case = {'op': 'genm_intersect', 'db': dbj}
                if not use_default:
                    case['match'] = m
            else:
                col = rng.choice(columns)
                kws = {}
                u = rng.random()
                if u < 0.3:
                    kws = {'chainID': rng.choice(['A', 'B', ['A', 'B']])}
                elif u < 0.5:
                    kws = {'name': ['CA', 'N'], 'no_resName': ['GLY']}
                elif u < 0.6:
                    kws = {'resSeq': rng.sample(range(1, 12), 4)}
                elif u < 0.65:
                    kws = {'bogus': 1}
                got = call(lambda: db.get_all(col, **{a: (list(b) if isinstance(b, list) else b) for a, b in kws.items()}))
                out = got if is_err(got) else canon(got)
                case = {'op': 'genm_get_all', 'db': dbj, 'columns': col, 'kw': B.jkw(list(kws.items()))}
            lines.append(case)
            real.append(out)
            meta.append(case['op'])
    ans = vlib.run_driver(lines, which='model', cluster=CLUSTER) if lines else []
    res = []
    for opname, label, floor in (('genm_intersect', 'many2sql.intersect', 30), ('genm_get_all', 'many2sql.get_all', 30)):
        bad, n, disc, nerr = None, 0, 0, 0
        for ln, r, a, o in zip(lines, real, ans, meta):
            if o != opname:
                continue
            g = a.get('model')
            if isinstance(g, str) and g.startswith('ERR:UNMODELLED'):
                disc += 1
                continue
            n += 1
            nerr += 1 if is_err(r) else 0
            if opname == 'genm_intersect' and not isinstance(g, str):
                g = {'names': [t['name'] for t in g['tabs']], 'tuples': aligned([t['rows'] for t in g['tabs']]), 'nModel': g['nModel']}
            if g != r and bad is None:
                bad = {'case': ln if len(json.dumps(ln)) < 2500 else json.dumps(ln)[:2500], 'real code': short(r), 'generated (Gen/Many.lean)': short(g)}
        res.append({'name': f'{label}: real code = generated function on {n} calls ({nerr} raising, {disc} outside the model)', 'ok': bad is None and n >= floor,
                    'case': bad, 'detail': 'implementation = generated (intersect: names, _nModel, SORTED aligned tuples of the new tables; get_all: the lists)', 'kind': 'genm'})
    return res


_manyTie_prev_extra_checks = extra_checks


def extra_checks(ctx):                  # noqa: F811  (extends the definition above; its results come first, unchanged)
    return _manyTie_prev_extra_checks(ctx) + genm_many_checks(ctx)
# ======================================================================================================================
# END manyTie
# ======================================================================================================================
