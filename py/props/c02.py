"""C02 -- export: 80-column fixed-field lines; parse/export round trip is lossless."""
import os, math, re
from fractions import Fraction
from vlib import rat, unrat, exc_tag
from pdb2sql import pdb2sql

ID = 'C02'
LEVEL = 'proof'
CLUSTER = 'A'
GEN_UNITS = ['_format_atomname', '_format_xyz', 'data2pdb_line', '_format_pdb_linelength', '_get_chainID', '_get_element', 'record_loop',
             'fx_data2pdb', 'fx_sql2pdb', 'fx_exportpdb']
EXTRA_TARGETS = ['PdbVerif.Driver.MainF']          # fxTie: the translated exportpdb / sql2pdb are run by the cluster-F driver
RULE = ('one table row per case, values drawn over exactly the quantified ranges: serial [-9999,99999], resSeq [-999,9999], names of 1-4 '
        'characters (leading digit or not, equal to the element or not), 0-1 character altLoc/chain/iCode, 1-3 character residue names, '
        '1-2 character elements, occupancy/B-factor in [-99.99,999.99], coordinates log-uniform over (-1e7,1e8) plus EVERY multiple of '
        '0.0005 in a +-0.01 window around each of the format-switch thresholds and range ends; the row is written into a real database with '
        'update(), exported with sql2pdb(), re-parsed with pdb2sql(lines) and exported again. Plus every bundled PDB file. Plus export '
        'HISTORIES on files (extra check): 1-2 objects, 1-2 file names in one directory, existing text or not, exports in every mode (default, '
        'append=True, append=False, chain selections) interleaved with updates that put a coordinate outside (-1e7+0.5, 1e8-0.5) (the export of '
        'a selection holding it must raise ValueError) and repair it; after every step the directory listing, every file and the text of the '
        'written file (= text before if append + sql2pdb() lines of the table as it is now) are observed. '
        'Non-trivial = distinct row; coordinates within 0.01 of a threshold are counted separately in the distribution.')
ASSUMPTIONS = ["CPython '{:>w.kf}'.format(float) is the correctly rounded decimal rendering = Py.fmtFixed (compared on every sampled value)",
               'negative zero is not modelled (Rat has one zero): -0.0 is kept out of the generated coordinates']

THRESH = [10.0 ** m - 0.5 for m in (4, 5, 6)] + [-(10.0 ** m) + 0.5 for m in (3, 4, 5)]   # 9999.5 99999.5 999999.5 ; -999.5 -9999.5 -99999.5
NEAR_POW10 = [10.0 ** m for m in range(1, 8)] + [-(10.0 ** m) for m in range(1, 7)]
ENDS = [1e8 - 0.5, -1e7 + 0.5]
COLS = 'serial,name,altLoc,resName,chainID,resSeq,iCode,x,y,z,occ,temp,element'

NAMES1 = ['C', 'N', 'O', 'H', 'P', 'S']
NAMES2 = ['CA', 'CB', 'FE', 'ZN', 'HA', 'OG', 'N1', 'H1', '1H', 'CL']
NAMES3 = ['OXT', 'HB2', '1HB', 'CG1', "C5'", 'OP1', '2HD', 'HD1', 'NH1', 'SE1']
NAMES4 = ['HD21', 'HH11', "HO5'", '1HD1', 'HG12', "H5''", 'CAAA']
ELEMS = ['C', 'N', 'O', 'H', 'P', 'S', 'FE', 'ZN', 'CL', 'SE', 'CA']


def coord(rng):
    r = rng.random()
    if r < 0.45:
        return round(rng.uniform(-999.0, 9999.0), rng.choice([3, 3, 2, 4, 6]))
    if r < 0.55:
        return rng.uniform(-999.5, 9999.5)
    if r < 0.85:
        mag = 10 ** rng.uniform(-3, 7.99)
        v = mag if rng.random() < 0.6 else -mag / 10
        return v if rng.random() < 0.5 else round(v, rng.choice([0, 1, 2, 3]))
    t = rng.choice(THRESH + ENDS + NEAR_POW10)
    return t + rng.randint(-20, 20) * 0.0005


def gen_row(rng, x=None):
    ln = rng.choice([1, 2, 2, 3, 3, 4])
    name = rng.choice({1: NAMES1, 2: NAMES2, 3: NAMES3, 4: NAMES4}[ln])
    elem = rng.choice(ELEMS)
    if rng.random() < 0.5:
        # element consistent with the name (two-letter names equal to the element are left-aligned)
        elem = name if (len(name) <= 2 and name in ELEMS) else (name.lstrip('0123456789')[:1] or 'C')
    row = [rng.choice([1, 42, 99999, -9999, rng.randint(-9999, 99999)]), name, rng.choice(['', '', 'A', 'B', '1']),
           rng.choice(['ALA', 'DA', 'U', 'GLY', 'HOH']), rng.choice(['A', 'B', 'z', '1', '']),
           rng.choice([1, -999, 9999, rng.randint(-999, 9999)]), rng.choice(['', '', 'A', 'C', '1', '0', '9']),
           coord(rng) if x is None else x, coord(rng), coord(rng),
           rng.choice([1.0, 0.5, round(rng.uniform(-99.99, 999.99), 2), rng.uniform(-99.99, 999.99)]),
           rng.choice([0.0, 25.3, round(rng.uniform(-99.99, 999.99), 2), rng.uniform(-99.99, 999.99)]),
           elem, 0]
    return row


def row_json(row):
    return [row[0], row[1], row[2], row[3], row[4], row[5], row[6], rat(row[7]), rat(row[8]), rat(row[9]), rat(row[10]), rat(row[11]), row[12], row[13]]


def cases(ctx):
    rng = ctx.rng
    out = []
    for _ in range(ctx.scale(900, 20000)):
        out.append({'op': 'export', 'row': row_json(gen_row(rng)), 'family': 'random'})
    # full-width fields of the same character class side by side (one-column text fields may be digits: insertion code '1', altLoc '2',
    # chain '7'): 5-digit serial before a name starting with a digit, digit chain before a 4-digit / minus-and-3-digit resSeq followed by a
    # digit insertion code, 8-column coordinates next to each other (round-7 seed C02-r7m1: a reader that joins resSeq and a digit iCode)
    for k in range(ctx.scale(40, 400)):
        row = gen_row(rng)
        row[0] = rng.randint(10000, 99999)
        row[1] = rng.choice(['1HB', '2HG1', 'HD21', '1HD2', 'CA'])
        row[2] = rng.choice(['1', '2', 'A'])
        row[3] = rng.choice(['ALA', 'TRP', 'DA'])
        row[4] = rng.choice(['1', '7', 'A'])
        row[5] = rng.choice([rng.randint(1000, 9999), rng.randint(-999, -100), 9999, 1000, -100])
        row[6] = rng.choice(['1', '0', '9', '5'])
        row[7], row[8] = rng.choice([9999.125, -999.125, 1234.567]), rng.choice([9999.25, -999.25, 7654.321])
        row[12] = 'H' if row[1][0].isdigit() or row[1].startswith('H') else 'C'
        out.append({'op': 'export', 'row': row_json(row), 'family': 'adjacent-full-fields'})
    # every multiple of 0.0005 in a +-0.01 window around each threshold and range end
    step = ctx.scale(1, 1)
    for t in THRESH + ENDS:
        for k in range(-20, 21, step):
            x = t + k * 0.0005
            out.append({'op': 'export', 'row': row_json(gen_row(rng, x=x)), 'family': 'threshold-window'})
    for t in NEAR_POW10:
        for k in (-1200, -1001, -1000, -999, -501, -500, -499, -1, 0, 1, 499, 500, 501, 999, 1000, 1001):
            x = t + k * 0.0005
            out.append({'op': 'export', 'row': row_json(gen_row(rng, x=x)), 'family': 'power-of-ten-window'})
    # values that round up across a width boundary
    for x in [999.9995, 9999.4996, -999.4996, 99999.96, 99999.94, -0.0004, 0.0005, 0.0015, 999999.96, -99999.96, 9999999.6,
              12345678.4, 99999998.9, 99999999.4, -9999998.9, -9999999.4, 1e8 - 0.5, -1e7 + 0.5, 1e8, -1e7, 5e8, -3e7, 0.0, 1e-9, -1e-9]:
        if x == 0.0 and math.copysign(1, x) < 0:
            continue
        out.append({'op': 'export', 'row': row_json(gen_row(rng, x=x)), 'family': 'rounding-edge'})
    return out


def search_cases(ctx):
    rng = ctx.rng
    out = []
    for t in THRESH + ENDS + [999.5, -99.95, 9.9995, 99.9995]:
        for k in range(-40, 41):
            for name in ('C', 'CA', 'FE', '1HB', 'HD21'):
                row = gen_row(rng, x=t + k * 0.00025)
                row[1] = name
                out.append({'op': 'export', 'row': row_json(row), 'family': 'search-threshold'})
    for name in NAMES1 + NAMES2 + NAMES3 + NAMES4:
        for elem in ELEMS:
            row = gen_row(rng, x=1.0)
            row[1], row[12] = name, elem
            out.append({'op': 'export', 'row': row_json(row), 'family': 'search-name'})
    return out


DUMMY = 'ATOM      1  CA  ALA A   1       1.000   2.000   3.000  1.00  0.00           C  '


def canon_row(r):
    out = []
    for k, v in enumerate(r):
        if k in (7, 8, 9, 10, 11):
            out.append(rat(v) if isinstance(v, (int, float)) else repr(v))
        else:
            out.append(v)
    return out


def impl(ctx, c):
    rj = c['row']
    row = [rj[0], rj[1], rj[2], rj[3], rj[4], rj[5], rj[6]] + [float(unrat(v)) for v in rj[7:12]] + [rj[12]]
    try:
        db = pdb2sql([DUMMY])
        db.update(COLS, [row])
        stored = db.get(COLS)[0]
        lines = db.sql2pdb()
        db._close()
    except Exception as e:
        return {'line': exc_tag(e)}
    res = {'line': lines[0], 'stored_ok': list(stored) == row}
    try:
        db2 = pdb2sql(lines)
        r2 = db2.get('*')[0]
        lines2 = db2.sql2pdb()
        db2._close()
        res['row2'] = canon_row(r2)
        res['line2'] = lines2[0]
    except Exception as e:
        res['row2'] = exc_tag(e)
    return res


def decimals(field):
    t = field.strip()
    return len(t.split('.')[1]) if '.' in t else 0


def row_types_wrong(r):
    """a re-read row whose text attributes are not str or whose integer attributes are not int cannot be sent to the model
    (its rows are typed): the property's 'every other attribute identical' already fails (round-4 seed C02-r4m2: a column
    declared with NUMERIC affinity turns the chain '1' into the number 1) -- reported as a verdict, not as a driver error"""
    if not isinstance(r, list) or len(r) != 14:
        return None
    for k in (1, 2, 3, 4, 6, 12):
        if not isinstance(r[k], str):
            return f'attribute {k} of the re-read row is {r[k]!r} ({type(r[k]).__name__}), the table wrote text'
    for k in (0, 5, 13):
        if isinstance(r[k], bool) or not isinstance(r[k], int):
            return f'attribute {k} of the re-read row is {r[k]!r} ({type(r[k]).__name__}), the table wrote an integer'
    for k in (7, 8, 9, 10, 11):
        if not (isinstance(r[k], str) and re.fullmatch(r'-?\d+/\d+', r[k])):
            return f'attribute {k} of the re-read row is {r[k]!r}, not a number'
    return None


def driver_line(c, out):
    d = {'op': 'export', 'row': c['row']}
    line = out.get('line')
    if isinstance(line, str) and not line.startswith('ERR'):
        d['impl_line'] = line
        if isinstance(out.get('row2'), list) and row_types_wrong(out['row2']) is None:
            d['impl_row'] = out['row2']
            d['impl_line2'] = out['line2']
            d['ks'] = [decimals(line[30:38]), decimals(line[38:46]), decimals(line[46:54])]
    else:
        d['impl_line'] = ''
    return d


def rows_equal(model_row, impl_row):
    """model row: tagged values; implementation row: plain values with reals as 'n/d' (exact doubles)"""
    if not isinstance(model_row, list) or not isinstance(impl_row, list) or len(model_row) != len(impl_row):
        return False
    for (tag, v), w in zip(model_row, impl_row):
        if tag == 'r':
            if float(unrat(v)) != float(unrat(w)):
                return False
        elif v != w:
            return False
    return True


def agree_model(c, out, model):
    if isinstance(model, str):                       # the model raises
        if model.startswith('ERR:UNMODELLED'):
            return 'discard'
        return True if out.get('line') == model else f'implementation {out.get("line")!r} model {model!r}'
    if out.get('line') != model['line']:
        return f'line: implementation {out.get("line")!r} model {model["line"]!r}'
    if isinstance(model['row'], str):
        if model['row'].startswith('ERR:UNMODELLED'):
            return 'discard'
        return True if out.get('row2') == model['row'] else f'read back: implementation {out.get("row2")!r} model {model["row"]!r}'
    if not rows_equal(model['row'], out.get('row2')):
        return f'read back: implementation {out.get("row2")!r} model {model["row"]!r}'
    if out.get('line2') != model['line2']:
        return f're-export: implementation {out.get("line2")!r} model {model["line2"]!r}'
    return True


def agree_spec(c, out, spec):
    line = out.get('line')
    if spec.get('must_raise'):
        return True if line == 'ERR:ValueError' else f'a coordinate that cannot fit must raise ValueError; got {line!r}'
    if isinstance(line, str) and line.startswith('ERR'):
        return f'export raised {line} for values that fit their fields'
    if out.get('stored_ok') is False:
        return 'the table does not hold the values that were written'
    if spec['failures']:
        return f'line {line!r} violates the column layout: {spec["failures"]}'
    if c['row'][4] == '':
        # a blank chain cannot be read back (C01 demands an error): the width clauses above are all that is claimed
        return True
    if isinstance(out.get('row2'), str):
        return f're-reading the exported line raised {out["row2"]}'
    if row_types_wrong(out.get('row2')):
        return row_types_wrong(out.get('row2'))
    if spec.get('readback') is not True:
        return f'read back row {out.get("row2")} differs from the original beyond the printed precision'
    if spec.get('reexport') is not True:
        return f're-export {out.get("line2")!r} does not denote the same values as {line!r}'
    return True


def near_threshold(c):
    for v in c['row'][7:10]:
        x = float(unrat(v))
        if any(abs(x - t) <= 0.01 for t in THRESH + ENDS):
            return True
    return False


def nontrivial_key(c, out):
    return c['row']


def distribution(recs):
    fam, prec, near, outcome = {}, {}, 0, {}
    for r in recs:
        c = r['case']
        fam[c['family'].split(':')[0]] = fam.get(c['family'].split(':')[0], 0) + 1
        line = r['impl'].get('line') if isinstance(r['impl'], dict) else None
        if isinstance(line, str) and not line.startswith('ERR') and len(line) >= 54:
            k = decimals(line[30:38])
            prec[k] = prec.get(k, 0) + 1
            outcome['line'] = outcome.get('line', 0) + 1
        else:
            outcome[str(line)] = outcome.get(str(line), 0) + 1
        near += near_threshold(c)
    return {'families': fam, 'decimals_of_x': prec, 'rows_with_a_coordinate_within_0.01_of_a_threshold': near, 'outcomes': outcome}


# ---- bundled files: canonical records are reproduced unchanged in columns 1-66 and 77-78 ---------------------------

NUM3 = re.compile(r'^ *-?\d+\.\d{3}$')
NUM2 = re.compile(r'^ *-?\d+\.\d{2}$')
INT = re.compile(r'^ *-?(0|[1-9]\d*)$')


def canonical(l):
    """right-aligned numbers in the standard precisions, name aligned by the wwPDB rule (element symbol right-justified
    in columns 13-14; four-character names start in column 13), non-blank chain, occupancy, B-factor and element"""
    if len(l) < 78 or not l.startswith('ATOM  '):
        return False
    if not (INT.match(l[6:11]) and INT.match(l[22:26])):
        return False
    if not all(NUM3.match(l[a:b]) for a, b in ((30, 38), (38, 46), (46, 54))):
        return False
    if not (NUM2.match(l[54:60]) and NUM2.match(l[60:66])):
        return False
    if l[21] == ' ' or l[11] != ' ' or l[20] != ' ' or l[27:30] != '   ':
        return False
    el = l[76:78]
    if el.strip() == '' or (len(el.strip()) == 1 and el[0] != ' '):
        return False
    name = l[12:16].strip()
    if not name:
        return False
    e = el.strip()
    if len(name) == 4:
        want = name
    elif len(e) == 2:
        want = name.ljust(4) if name.upper().startswith(e.upper()) else None
    else:
        want = (' ' + name).ljust(4)
    if want is None or l[12:16] != want:
        return False
    rn = l[17:20]
    if rn.strip() == '' or rn != rn.strip().rjust(3):
        return False
    if '-0.000' in l[30:54]:
        return False
    return True


def canonical_line(rng):
    """a canonical ATOM record written by an independent formatter (wwPDB layout), including the name shapes that no
    bundled file has: two-letter element symbols as names, leading-digit hydrogens, four-character names"""
    el, name = rng.choice([('FE', 'FE'), ('ZN', 'ZN'), ('CA', 'CA'), ('C', 'CA'), ('C', 'C'), ('N', 'N'), ('O', 'OXT'), ('H', 'HD21'),
                           ('H', 'HA'), ('SE', 'SE'), ('CL', 'CL'), ('C', 'CB'), ('O', 'OD1'), ('P', 'P'), ('MG', 'MG'), ('C', "C5'")])
    if len(name) == 4 or name == el and len(el) == 2:
        nf = name.ljust(4)
    else:
        nf = (' ' + name).ljust(4)
    return 'ATOM  %5d %4s%1s%3s %1s%4d%1s   %8.3f%8.3f%8.3f%6.2f%6.2f          %2s  ' % (
        rng.randint(1, 99999), nf, rng.choice([' ', 'A']), rng.choice(['ALA', ' DA', '  U']), rng.choice('ABXYZ'), rng.randint(-999, 9999),
        rng.choice([' ', 'B']), rng.uniform(-999, 9999), rng.uniform(-999, 9999), rng.uniform(-999, 9999), rng.uniform(0, 1), rng.uniform(0, 99), el)



# ===== fxTie: translated exportpdb / sql2pdb (Gen/Fx.lean) vs the real calls =========================================
def fx_tie_checks(ctx):
    """implementation = generated: `exportpdb(fname, append)` and `sql2pdb()` of a real database are compared with the TRANSLATED
    programs (GenF.exportpdb / GenF.sql2pdb, driver op fx_run of cluster F) on the same rows: the column string handed to `get`,
    the open mode, the text left in the file (fresh file, overwrite, append onto existing text) and the lines."""
    import vlib
    rng = ctx.rng
    d = ctx.tmpdir()
    recs, lines = [], []
    for k in range(ctx.scale(24, 200)):
        rows = [gen_row(rng) for _ in range(rng.randint(0, 5))]
        rows = [r for r in rows if r[4] != '' and all(-9999999.4 < v < 99999999.4 for v in r[7:10])]
        db = pdb2sql([DUMMY] * len(rows)) if rows else pdb2sql([DUMMY])
        if rows:
            db.update(COLS, [r[:13] for r in rows])
        stored = db.get(COLS + ',model')
        asked = []
        orig_get = db.get
        db.get = lambda cols, **kw: (asked.append(cols), orig_get(cols, **kw))[1]
        fn = os.path.join(d, 'fx_%d.pdb' % k)
        old = rng.choice([None, '', 'REMARK old text\n', 'no newline at the end'])
        if old is not None:
            open(fn, 'w').write(old)
        append = rng.random() < 0.5
        use_default = (not append) and rng.random() < 0.5
        try:
            real_lines = db.sql2pdb()
            if use_default:
                db.exportpdb(fn)
            else:
                db.exportpdb(fn, append=append)
            outcome = 'ok'
        except Exception as e:          # noqa
            real_lines, outcome = None, exc_tag(e)
        text = open(fn).read() if os.path.exists(fn) else None
        db._close()
        jrows = [[r[0], r[1], r[2], r[3], r[4], r[5], r[6], rat(r[7]), rat(r[8]), rat(r[9]), rat(r[10]), rat(r[11]), r[12], r[13]] for r in stored]
        line = {'op': 'fx_run', 'fn': 'exportpdb', 'fname': 'F', 'rows': jrows, 'files': [] if old is None else [['F', [old]]]}
        if not use_default:
            line['append'] = append
        recs.append({'line': line, 'text': text, 'outcome': outcome, 'asked': asked, 'mode': 'a' if append else 'w', 'lines': real_lines})
        lines.append(line)
        lines.append({'op': 'fx_run', 'fn': 'sql2pdb', 'rows': jrows})
    answers = vlib.run_driver(lines, which='model', cluster='F')
    bad = None
    for i, r in enumerate(recs):
        m = answers[2 * i].get('model') or {}
        m2 = answers[2 * i + 1].get('model') or {}
        why = None
        ev = m.get('events', [])
        files = {f[0]: f[1] for f in m.get('files', [])}
        if answers[2 * i].get('driver_error') or answers[2 * i + 1].get('driver_error'):
            why = 'driver error ' + str(answers[2 * i])[:200]
        elif (m.get('outcome') == 'ok') != (r['outcome'] == 'ok'):
            why = 'outcome: real %s translated %s' % (r['outcome'], m.get('outcome'))
        elif not ev or ev[0] != ['open', 'F', r['mode']]:
            why = 'first call: real open(fname, %r) translated %s' % (r['mode'], ev[:1])
        elif files.get('F') != r['text']:
            why = 'text left in the file: real %r translated %r' % (r['text'], files.get('F'))
        elif r['outcome'] == 'ok' and (set(r['asked']) != {m['value']['cols']}):
            why = 'columns asked of get: real %r translated %r' % (r['asked'], m['value']['cols'])
        elif r['lines'] is not None and m2.get('lines') != r['lines']:
            why = 'sql2pdb lines: real %r translated %r' % (r['lines'], m2.get('lines'))
        if why and bad is None:
            bad = {'line': r['line'], 'why': why}
    return [{'name': 'translated exportpdb / sql2pdb (GenF) = the real calls: open mode, column string, lines, text left in the file (%d files)' % len(recs),
             'ok': bad is None, 'case': bad, 'detail': 'implementation and generated program disagree'}]
# ===== end fxTie ===================================================================================================

# ===== export histories: what a file holds after ANY sequence of exports to it, failing ones included ==================
# (round-5 seed C02-r5m2: an "atomic" exportpdb that writes fname + '.tmp' first and leaves it behind when sql2pdb raises; the
#  next plain export then appends to the stale scratch copy.  Every single export on a clean directory behaved as before.)
CANNOT_FIT = [1e8 - 0.5, 99999999.7, 1e8, 5e8, 1e12, -1e7 + 0.5, -9999999.6, -1e7, -3e7]      # the property: these must raise
OLD_TEXTS = ['', 'REMARK old text\n', 'REMARK 1\nREMARK 2\n']


def fits(v):
    return -9999999.4 < v < 99999999.4


def cannot_fit(v):
    return v >= 1e8 - 0.5 or v <= -1e7 + 0.5


def fit_coord(rng):
    while True:
        v = coord(rng)
        if fits(v):
            return v


def sel_holds(row, sel):
    return all(row[4] in v for k, v in sel.items())          # selections used here are on chainID only


def hist_table(rng, n):
    rows = []
    while len(rows) < n:
        r = gen_row(rng)
        if all(fits(v) for v in r[7:10]):
            r[4] = 'AB'[len(rows) % 2]
            rows.append(r)
    return rows


def hist_json(tables, existing, steps):
    return {'tables': [[row_json(r) for r in t] for t in tables], 'existing': existing,
            'steps': [dict(s, values=[rat(v) for v in s['values']]) if s['t'] == 'set' else s for s in steps]}


def run_export_history(root, tables, existing, steps):
    """tables: rows per database object; existing: [[file name, text]] present before the first step; steps: {'t':'set', db, col, index,
    values} (update_column) | {'t':'export', db, file, append: None|True|False, sel}.  After EVERY step: the directory holds no
    file that was never named; every file other than the one written is unchanged; an export whose selected rows have a coordinate
    that cannot fit raised ValueError; a successful export left exactly (text before if append else nothing) + the sql2pdb() lines of
    the selected rows of the table AS IT IS NOW, one 80-column record per line.  Returns None or {'step', 'why', ...}; total."""
    import tempfile
    d = tempfile.mkdtemp(dir=root, prefix='hist_')
    dbs = []

    def read(name):
        p = os.path.join(d, name)
        if not os.path.exists(p):
            return None
        with open(p, newline='') as f:
            return f.read()
    try:
        tabs = [[list(r) for r in t] for t in tables]
        for t in tabs:
            db = pdb2sql([DUMMY] * len(t))
            db.update(COLS, [r[:13] for r in t])
            dbs.append(db)
        content = {}
        for name, text in existing:
            with open(os.path.join(d, name), 'w', newline='') as f:
                f.write(text)
            content[name] = text
        for si, st in enumerate(steps):
            db, t = dbs[st['db']], tabs[st['db']]
            if st['t'] == 'set':
                db.update_column(st['col'], list(st['values']), index=list(st['index']))
                for v, i in zip(st['values'], st['index']):
                    t[i][7 + 'xyz'.index(st['col'])] = v
                continue
            name, sel = st['file'], st['sel']
            chosen = [r for r in t if sel_holds(r, sel)]
            raising = any(cannot_fit(v) for r in chosen for v in r[7:10])
            if not raising and not all(fits(v) for r in chosen for v in r[7:10]):
                continue                                        # (not generated) a value between the two bands: the cases() stream
            before = content.get(name)
            try:
                lines = db.sql2pdb(**sel)
            except Exception as e:
                lines = exc_tag(e)
            kw = {} if st['append'] is None else {'append': st['append']}
            try:
                r = db.exportpdb(os.path.join(d, name), **kw, **sel)
                outcome = 'ok' if r is None else 'returned %r' % (r,)
            except Exception as e:
                outcome = exc_tag(e)
            what = {'step': si, 'call': 'exportpdb(%r%s%s)' % (name, '' if st['append'] is None else ', append=%s' % st['append'],
                                                              ''.join(', %s=%r' % kv for kv in sel.items()))}
            listing = sorted(os.listdir(d))
            got = read(name)
            stray = [f for f in listing if f != name and f not in content]
            if stray:
                return dict(what, why='after the call the directory holds %r: files that were never named' % stray, listing=listing)
            for other, text in content.items():
                if other != name and read(other) != text:
                    return dict(what, why='the call changed another file, %r' % other, now=str(read(other))[:400], before=str(text)[:400])
            if raising:
                if outcome != 'ERR:ValueError':
                    return dict(what, why='a selected coordinate cannot fit its 8 columns: ValueError demanded, got %s' % outcome)
                if lines != 'ERR:ValueError':
                    return dict(what, why='sql2pdb() of the same selection: ValueError demanded, got %s' % (str(lines)[:200],))
                if got is None:
                    content.pop(name, None)
                else:
                    content[name] = got          # whatever a failed export leaves is the text a later append continues
                continue
            if outcome != 'ok':
                return dict(what, why='every selected value fits its field, the export gave %s' % outcome)
            if not (isinstance(lines, list) and all(isinstance(l, str) for l in lines)):
                return dict(what, why='sql2pdb() of the same selection gave %s' % (str(lines)[:200],))
            if len(lines) != len(chosen):
                return dict(what, why='%d rows selected, sql2pdb() gives %d lines' % (len(chosen), len(lines)))
            bad80 = [l for l in lines if len(l) != 80 or '\n' in l or '\r' in l]
            if bad80:
                return dict(what, why='a line of sql2pdb() is not 80 columns: %r' % bad80[0])
            want = ((before or '') if st['append'] else '') + ''.join(l + '\n' for l in lines)
            if got != want:
                return dict(what, why='the file does not hold %s the lines of the current table (%d lines in the file, %d expected)' % (
                    'the text it had followed by' if st['append'] else 'exactly', -1 if got is None else got.count('\n'), want.count('\n')),
                    file=None if got is None else got[:800], expected=want[:800])
            content[name] = want
        # reading the files back: one row per ATOM record, the table of pdb2sql(the same lines)
        for name, text in content.items():
            recs = [l for l in text.split('\n') if l.startswith('ATOM')]
            if not recs:
                continue
            try:
                back = pdb2sql(os.path.join(d, name))
                a = back.get('*')
                back._close()
                ref = pdb2sql(recs)
                b = ref.get('*')
                ref._close()
                same = (a == b and len(a) == len(recs))
            except Exception as e:
                same, a = False, exc_tag(e)
            if not same:
                return {'step': 'read back', 'why': 're-reading %r does not give the table of its %d records' % (name, len(recs)), 'got': str(a)[:400]}
        return None
    except Exception as e:                                       # noqa: whatever the harness cannot make sense of is a disagreement
        return {'step': 'harness', 'why': 'unexpected %s: %s' % (type(e).__name__, str(e)[:300])}
    finally:
        for db in dbs:
            try:
                db._close()
            except Exception:                                    # noqa
                pass


def export_history_checks(ctx):
    rng = ctx.rng
    root = ctx.tmpdir()
    hists = []
    # (a) every short option combination, at every seed: [nothing | old text | an earlier export] ; an export that must raise
    #     (append / plain / explicit append=False) ; the table repaired and moved ; a later export (same three modes), from the same
    #     object or from another one
    for pre in ('none', 'text', 'export'):
        for fail_mode in (True, None, False):
            for after_mode in (None, True, False):
                for other in (False, True):
                    tables = [hist_table(rng, rng.choice([2, 3, 4]))]
                    if other:
                        tables.append(hist_table(rng, rng.choice([1, 3])))
                    n = len(tables[0])
                    existing = [['out.pdb', rng.choice(OLD_TEXTS[1:])]] if pre == 'text' else []
                    steps = [{'t': 'export', 'db': 0, 'file': 'out.pdb', 'append': None, 'sel': {}}] if pre == 'export' else []
                    i = rng.randrange(n)
                    col = rng.choice('xyz')
                    steps.append({'t': 'set', 'db': 0, 'col': col, 'index': [i], 'values': [rng.choice(CANNOT_FIT)]})
                    steps.append({'t': 'export', 'db': 0, 'file': 'out.pdb', 'append': fail_mode, 'sel': {}})
                    steps.append({'t': 'set', 'db': 0, 'col': col, 'index': [i], 'values': [fit_coord(rng)]})
                    steps.append({'t': 'set', 'db': 0, 'col': 'x', 'index': list(range(n)), 'values': [fit_coord(rng) for _ in range(n)]})
                    steps.append({'t': 'export', 'db': 1 if other else 0, 'file': 'out.pdb', 'append': after_mode, 'sel': {}})
                    if rng.random() < 0.5:
                        steps.append({'t': 'export', 'db': 0, 'file': 'out.pdb', 'append': rng.choice([None, True]), 'sel': rng.choice([{}, {'chainID': ['A']}])})
                    hists.append((tables, existing, steps))
    nfixed = len(hists)
    # (b) random histories: 1-2 objects, 1-2 file names in one directory, 3-9 steps; coordinates that cannot fit are set and repaired
    #     along the way; selections on a chain (an export of the chain WITHOUT the unfit coordinate must succeed)
    for _ in range(ctx.scale(40, 600)):
        tables = [hist_table(rng, rng.randint(1, 6)) for _ in range(rng.choice([1, 1, 2]))]
        names = ['exp.pdb', 'second.pdb'][:rng.choice([1, 1, 2])]
        existing = [[nm, rng.choice(OLD_TEXTS)] for nm in names if rng.random() < 0.3]
        steps = []
        broken = {}                                            # (db, row, col) currently holding an unfit value
        for _ in range(rng.randint(3, 9)):
            k = rng.randrange(len(tables))
            n = len(tables[k])
            u = rng.random()
            if u < 0.2:
                i, col = rng.randrange(n), rng.choice('xyz')
                steps.append({'t': 'set', 'db': k, 'col': col, 'index': [i], 'values': [rng.choice(CANNOT_FIT)]})
                broken[(k, i, col)] = True
            elif u < 0.4 and broken:
                (kk, i, col) = rng.choice(sorted(broken))
                del broken[(kk, i, col)]
                steps.append({'t': 'set', 'db': kk, 'col': col, 'index': [i], 'values': [fit_coord(rng)]})
            elif u < 0.5:
                col = rng.choice('xyz')
                idx = [i for i in range(n) if (k, i, col) not in broken]
                if idx:
                    steps.append({'t': 'set', 'db': k, 'col': col, 'index': idx, 'values': [fit_coord(rng) for _ in idx]})
            else:
                steps.append({'t': 'export', 'db': k, 'file': rng.choice(names), 'append': rng.choice([None, None, False, True, True]),
                              'sel': rng.choice([{}, {}, {'chainID': ['A']}, {'chainID': ['B']}, {'chainID': ['A', 'B']}])})
        hists.append((tables, existing, steps))
    bad = None
    nexp = nfail = nafter = 0
    for tables, existing, steps in hists:
        r = run_export_history(root, tables, existing, steps)
        if r is not None and bad is None:
            bad = dict(hist_json(tables, existing, steps), failure=r)
            break
    # what the histories contain (from the generator's own book-keeping, independent of the library)
    for tables, existing, steps in hists:
        tabs = [[list(r) for r in t] for t in tables]
        failed = set()
        for s in steps:
            if s['t'] == 'set':
                for v, i in zip(s['values'], s['index']):
                    tabs[s['db']][i][7 + 'xyz'.index(s['col'])] = v
            else:
                nexp += 1
                if any(cannot_fit(v) for r in tabs[s['db']] if sel_holds(r, s['sel']) for v in r[7:10]):
                    nfail += 1
                    failed.add(s['file'])
                elif s['file'] in failed:
                    nafter += 1
    return [{'name': f'{len(hists)} export histories ({nfixed} = every short option combination; {nexp} exports, {nfail} that must raise, {nafter} successful '
                     f'exports to a file name after a failed one): directory listing, every file, ValueError, file text = current table after every step',
             'ok': bad is None and nfail >= 20 and nafter >= 20, 'case': bad,
             'detail': 'exportpdb() file bytes are not the sql2pdb() lines of the table as it is now / a file that was never named appears / '
                       'a coordinate that cannot fit did not raise'}]
# ===== end export histories ========================================================================================


def extra_checks(ctx):
    res = []
    rng = ctx.rng
    recs = [canonical_line(rng) for _ in range(ctx.scale(300, 5000))]
    recs = [r for r in recs if canonical(r)]
    db = pdb2sql(recs)
    out = db.sql2pdb()
    db._close()
    bad = None
    for a, b in zip(recs, out):
        if a[:66] != b[:66] or a[76:78] != b[76:78]:
            bad = {'record': a, 'exported': b}
            break
    res.append({'name': f'{len(recs)} synthetic canonical records (all name shapes) reproduced in columns 1-66 and 77-78', 'ok': bad is None and len(out) == len(recs),
                'case': bad, 'detail': 'a canonical ATOM record is not reproduced unchanged'})
    # file export: exportpdb writes every line followed by a newline; appending a second export keeps the records apart
    import tempfile
    d = tempfile.mkdtemp(dir=ctx.tmpdir(), prefix='exp_')          # a directory of its own: its listing is observed after every export
    bad = None
    nfiles = 0
    for k in range(ctx.scale(12, 120)):
        rows = [gen_row(rng) for _ in range(rng.randint(1, 6))]
        rows = [r for r in rows if r[4] != '' and all(-9999999.4 < v < 99999999.4 for v in r[7:10])]
        if not rows:
            continue
        for i, r in enumerate(rows):
            r[4] = 'AB'[i % 2]
        db = pdb2sql([DUMMY] * len(rows))
        db.update(COLS, [r[:13] for r in rows])
        fn = os.path.join(d, 'exp_%d.pdb' % k)
        lines_all = db.sql2pdb()
        db.exportpdb(fn)
        want = ''.join(l + '\n' for l in lines_all)
        steps = [('exportpdb', want)]
        listings = [sorted(os.listdir(d))]
        for sel in ({'chainID': 'A'}, {'chainID': 'B'}, {}):
            if rng.random() < 0.7:
                more = db.sql2pdb(**sel)
                db.exportpdb(fn, append=True, **sel)
                want += ''.join(l + '\n' for l in more)
                steps.append(('append %s' % sel, want))
                listings.append(sorted(os.listdir(d)))
        got = open(fn).read()
        nfiles += 1
        if any(l != [os.path.basename(fn)] for l in listings):
            bad = {'rows': [row_json(r + [0]) for r in rows], 'steps': [s_[0] for s_ in steps], 'why': 'after an export the directory does not hold the named file and nothing else',
                   'listings': listings}
            break
        if got != want:
            bad = {'rows': [row_json(r + [0]) for r in rows], 'steps': [s_[0] for s_ in steps], 'file': got[:600], 'expected': want[:600]}
            break
        if any(len(l) != 80 for l in got.split('\n')[:-1]):
            bad = {'rows': [row_json(r + [0]) for r in rows], 'why': 'a line of the exported file is not 80 columns', 'file': got[:600]}
            break
        try:
            back = pdb2sql(fn)
            n_back = len(back.get('serial'))
            back._close()
        except Exception as e:
            n_back = exc_tag(e)
        if n_back != want.count('\n'):
            bad = {'rows': [row_json(r + [0]) for r in rows], 'why': f're-reading the exported file gives {n_back} rows for {want.count(chr(10))} records'}
            break
        db._close()
        os.remove(fn)
    res.append({'name': f'{nfiles} exported files (exportpdb, then appended exports of sub-selections): one 80-column record per line, re-readable',
                'ok': bad is None, 'case': bad, 'detail': 'the exported file is not the sequence of exported records, one per line'})
    root = '/repo/test/pdb'
    files = [os.path.join(root, f) for f in sorted(os.listdir(root)) if f.endswith('.pdb')]
    sub = os.path.join(root, '1AK4')
    if os.path.isdir(sub):
        files += [os.path.join(sub, f) for f in sorted(os.listdir(sub)) if f.endswith('.pdb')]
    if not ctx.thorough:
        files = [f for f in files if os.path.getsize(f) < 400000]
    stats = {}
    for f in files:
        try:
            recs = [l.rstrip('\n') for l in open(f) if l.startswith('ATOM')]
            db = pdb2sql(f)
            out = db.sql2pdb()
            db._close()
        except Exception as e:
            stats[os.path.basename(f)] = 'not parsed: ' + type(e).__name__
            continue
        if any(l.startswith('ENDMDL') for l in open(f)):
            stats[os.path.basename(f)] = 'multi-model file: skipped'
            continue
        bad = None
        ncan = 0
        if len(out) != len(recs):
            bad = {'file': f, 'records': len(recs), 'exported': len(out)}
        else:
            for a, b in zip(recs, out):
                if canonical(a):
                    ncan += 1
                    a80 = a.ljust(80)
                    if a80[:66] != b[:66] or a80[76:78] != b[76:78]:
                        bad = {'file': f, 'record': a, 'exported': b}
                        break
        stats[os.path.basename(f)] = f'{ncan}/{len(recs)} canonical records reproduced'
        res.append({'name': f'canonical records of {os.path.basename(f)} reproduced in columns 1-66 and 77-78 ({ncan}/{len(recs)} canonical)',
                    'ok': bad is None, 'case': bad, 'detail': 'a canonical ATOM record is not reproduced unchanged'})
    res += fx_tie_checks(ctx)                       # fxTie
    res += export_history_checks(ctx)               # last: the random streams of the checks above are unchanged
    return res
