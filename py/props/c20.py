"""C20 -- file-backed databases: complete or empty at any crash; file names are data.

Tie #2 for Model/Store.lean.  Scenarios  create[, modify][, commit][, modify], close(keep|remove)  on real
`pdb2sql(..., sqlfile=<name>)` objects, in a directory of victim files:

  * normal runs: afterwards the file is opened by a stock sqlite3 connection (PRAGMA integrity_check, every row) and
    compared with the Model's `readBack` and the Spec's `lastCommitted`/`tableHeld`; the audit-hook trace of
    isfile / os.remove / sqlite3.connect is compared with the Model's actions; the directory listing and the victims'
    hashes are compared before/after; no process may be spawned;
  * fault enumeration: the same scenarios in a forked child whose sqlite3 connection / cursor is wrapped so that the
    child `os._exit()`s before the k-th statement / commit / close / os.remove / connect, for every k; the file must then
    open cleanly to what the Model says for the operations that were completed (never a part of a table);
  * syscall-level kills inside SQLite (strace fault injection: SIGKILL at the N-th fdatasync / pwrite64), every N in
    the thorough tier, a few in the quick tier;
  * file names: every name of length <= 3 over {a, space, ' " $ ; & | * ? ( ) -} (thorough: all 2379, quick: a seeded
    sample) plus crafted ones;
  * structures: single-model input and MULTI-MODEL input (two or three models separated by ENDMDL; `update` /
    `update_xyz` without a model key then run model by model, several UPDATE statements per call), modifications of
    `temp` or of the coordinates (`update_xyz`, `update('z')`, `update_column('z')`), with and without `model=...`;
  * two observations that do not go through the recorded statements: after every step of a normal run the object's
    connection is asked whether a transaction is open (`in_transaction`; expected from the scenario alone), and after a
    kill the reader's finding is compared with the last-committed table computed IN THE HARNESS from the scenario's own
    commits (`py_seen`: a commit the library issues on its own is recorded for the model, but does not count there).
"""
import os, sys, json, time, hashlib, shutil, sqlite3, itertools, random, subprocess, signal, warnings, traceback

import vlib
from vlib import exc_tag
from props import c16 as T        # the shared audit-hook tracer (one hook per process, gated per thread)

ID = 'C20'
LEVEL = 'proof'
CLUSTER = 'F'
GEN_UNITS = ['Effects', 'fx_create_sql', 'fx_commit', 'fx_close', 'fx_init']
PIN_TARGETS = ['PdbVerif.Pins.F']
RULE = ('scenarios create[,modify][,commit][,modify],close(keep|remove) with modify in {update_column, update, update_xyz, add_column, '
        'fix_chainID} on temp or on the coordinates, with/without model=..., 1..40 atoms in one model or in 2..3 models (ENDMDL), '
        'file name initially absent | an older database | not a database; x a kill before every '
        'statement, commit, close, os.remove and connect of the scenario; x file names over {a,space,quotes,$;&|*?()-}. '
        'Non-trivial = distinct by (operations completed, what a stock reader finds, name class).')
ASSUMPTIONS = ['SQLite\'s rollback journal makes COMMIT one atomic step and loses exactly the uncommitted changes at a process '
               'death (modelled; exercised by statement-level kills and syscall-level SIGKILL injection)',
               'the OS removes exactly the named file (os.remove) and creates exactly the named file (sqlite3.connect)',
               'between os.remove(old file) and sqlite3.connect the name does not exist: the model treats open as one step; '
               'a kill there leaves no file, which the property counts as "no atoms"']
TRUSTED = ['process death is os._exit / SIGKILL (OS buffers survive); power loss is not modelled']

ALPHABET = ['a', ' ', "'", '"', '$', ';', '&', '|', '*', '?', '(', ')', '-']
CRAFTED = ['$(touch x)', '`id`', 'a b', '*', 'a;touch pwned.db', '-rf', "it's.db", 'a"b.db', 'with space.db', '$HOME.db', 'a|b', 'a&b',
           '(a)', '??', 'x.db; touch pwned2', '-', '--', 'a\tb', 'a\nb', '%s', '{0}', 'café.db', ' lead', 'trail ', '~']
VICTIMS = ['a', 'b', 'x', 'id', 'aa', 'aaa', '-a', 'pwned.db', 'victim.txt', 'rf', 'touch', 'lead', 'trail', 'x.db']


# ---------------------------------------------------------------------------------------------------------------
# inputs
# ---------------------------------------------------------------------------------------------------------------

def base_xyz(j):
    """coordinates of the atom with index j (within its model) as inserted; exact in float32 and float64"""
    return 1.5 * (j % 1000), 0.25 * (j % 4000), -0.5 * (j % 2000)


def pdb_lines(n, two_chains=True, models=1):
    """n atoms, serial = 0..n-1, temp factor 0.00 (the tag), chains X / Y (so that fix_chainID has something to do).
    models > 1: the n atoms are n/models atoms in each of `models` models (MODEL ... ENDMDL records; serials run on, the
    coordinates repeat from model to model, as `update` without a model key gives every model the same values)"""
    out = []
    per = n // models if models > 1 else n
    for i in range(n):
        j = i % per
        if models > 1 and j == 0:
            out.append('MODEL     %4d' % (i // per + 1))
        ch = 'X' if (j < (per + 1) // 2 or not two_chains) else 'Y'
        out.append('ATOM  %5d  CA  ALA %1s%4d    %8.3f%8.3f%8.3f%6.2f%6.2f           C  ' % ((i, ch, j % 9999 + 1) + base_xyz(j) + (1.0, 0.0)))
        if models > 1 and j == per - 1:
            out.append('ENDMDL')
    return out


def n_models(c):
    return max(1, int(c.get('models') or 1))


def layout(c):
    """what read_back needs to know about the structure of a case: atoms per model, number of models, which column carries the tag"""
    if n_models(c) == 1 and c.get('carrier', 'temp') == 'temp':
        return None
    return {'per': c['n'] // n_models(c), 'models': n_models(c), 'carrier': c.get('carrier', 'temp')}


def lean_ops(c):
    """statement-level operations of the scenario, as the Lean drivers read them"""
    ops = [['open'], ['create'], ['insert', c['n']]]
    if c.get('fix_chain'):
        ops.append(['update', 0])
    for m in c['steps']:
        if m[0] == 'update_column':
            ops.append(['update', m[1]])
        elif m[0] in ('update', 'update_xyz'):
            # one UPDATE statement (executemany) per model: `update` without a model key goes model by model in a multi-model
            # structure; with a key the scenario makes one call per listed model
            k = len(m[3]) if len(m) > 3 and isinstance(m[3], list) else n_models(c)
            ops += [['update', m[1]]] * k
        elif m[0] == 'add_column':
            ops.append(['addcol', m[1]])
        elif m[0] == 'commit':
            ops.append(['commit'])
    ops.append(['close_keep'] if c['close'] == 'keep' else ['close_remove'])
    if c.get('close_twice'):
        ops.append(['close_remove'])
    return ops


# ---------------------------------------------------------------------------------------------------------------
# what a stock reader finds
# ---------------------------------------------------------------------------------------------------------------

STD_COLS = ['serial', 'name', 'altLoc', 'resName', 'chainID', 'resSeq', 'iCode', 'x', 'y', 'z', 'occ', 'temp', 'element', 'model']


def read_back(path, lay=None):
    """lay: see layout(); None = one model, the tag is `temp`"""
    if not os.path.lexists(path):
        return 'nofile', ''
    try:
        con = sqlite3.connect(path)
        try:
            ic = con.execute('PRAGMA integrity_check').fetchall()
            if ic != [('ok',)]:
                return 'corrupt', repr(ic)[:200]
            tabs = [r[0] for r in con.execute("SELECT name FROM sqlite_master WHERE type='table'")]
            if not tabs:
                return 'notable', ''
            cur = con.execute('SELECT * FROM %s' % tabs[0])
            cols = [d[0] for d in cur.description]
            rows = cur.fetchall()
        finally:
            con.close()
    except sqlite3.DatabaseError as e:
        return 'notadb', repr(e)
    n = len(rows)
    si, ti = cols.index('serial'), cols.index('temp')
    serials = [r[si] for r in rows]
    tags = []
    for r in rows:
        t = r[ti]
        t = int(t) if float(t) == int(t) else t
        if t not in tags:
            tags.append(t)
    extra = [x for x in cols if x not in STD_COLS]
    detail = ''
    if lay is not None and serials != [999]:
        # multi-model structures / tag carried by z: every standard cell of every row is what was inserted or the complete
        # effect of one modification; the tag of a row is its `temp`, or its displacement along z
        if any(k not in cols for k in STD_COLS):
            return 'corrupt', 'standard columns missing: %r' % (cols,)
        ci = {k: cols.index(k) for k in STD_COLS}
        tags = []
        for i, r in enumerate(rows):
            try:
                j = r[si] % lay['per']
                x0, y0, z0 = base_xyz(j)
                dz = r[ci['z']] - z0
                ok = (r[ci['name']] == 'CA' and r[ci['resName']] == 'ALA' and r[ci['x']] == x0 and r[ci['y']] == y0 and
                      r[ci['model']] == r[si] // lay['per'] and r[ci['resSeq']] == j % 9999 + 1 and r[ci['occ']] == 1.0 and
                      (dz == 0 if lay['carrier'] == 'temp' else (r[ti] == 0 and dz == int(dz))))
                t = r[ti] if lay['carrier'] == 'temp' else dz
                t = int(t) if float(t) == int(t) else t
            except (TypeError, ValueError, OverflowError):
                ok = False
            if not ok:
                return 'corrupt', 'row %d damaged: %r' % (i, r)
            if t not in tags:
                tags.append(t)
    # every standard cell of every row must be what was inserted (a "part" of a row would show here)
    for i, r in enumerate(rows if (lay is None or serials == [999]) else []):
        if r[cols.index('name')] != 'CA' or r[cols.index('resName')] != 'ALA' or abs(r[cols.index('x')] - 1.5 * (r[si] % 1000)) > 1e-9:
            detail = 'row %d damaged: %r' % (i, r)
            return 'corrupt', detail
    summary = {'n': n, 'ids_contiguous': serials == list(range(n)) or serials == [999], 'tags': tags if n else [], 'cols': [extra] if n else []}
    if serials == [999]:
        summary['ids_contiguous'] = False            # the older database's row (id 999): Lean says ids != range
    return summary, detail


def old_db(path):
    con = sqlite3.connect(path)
    con.execute('CREATE TABLE ATOM (%s)' % ', '.join(x + ' ' + t for x, t in zip(STD_COLS, ['INT', 'TEXT', 'TEXT', 'TEXT', 'TEXT', 'INT', 'TEXT', 'REAL', 'REAL', 'REAL', 'REAL', 'REAL', 'TEXT', 'INT'])))
    con.execute('INSERT INTO ATOM VALUES (999, "CA", "", "ALA", "X", 1, "", 1498.5, 0, 0, 1, 0, "C", 0)')
    con.commit()
    con.close()


# ---------------------------------------------------------------------------------------------------------------
# running a scenario (in-process or in a forked child with a kill point)
# ---------------------------------------------------------------------------------------------------------------

class _Kill:
    """kill-point bookkeeping inside the child"""
    def __init__(self, k, progress_path):
        self.k = k
        self.count = 0
        self.done = []            # completed model-level operations (JSON form)
        self.labels = []
        self.path = progress_path
        self.removed_old = False
        self.n_rows = 0
        self.lib_commits = []     # indices into `done` of commits the scenario did not ask for (issued by the library on its own)
        self.txn = []             # transaction control other than commit(): `with conn:`, rollback(), executescript()

    def point(self, label):
        """called BEFORE a statement / commit / close / os.remove / connect"""
        self.labels.append(label)
        hit = False
        if isinstance(self.k, int):
            hit = self.count == self.k
        elif isinstance(self.k, (list, tuple)):          # [label, occurrence]: the occurrence-th point with that label
            hit = label == self.k[0] and self.labels.count(label) == self.k[1]
        if hit:
            self.flush(label)
            os._exit(77)
        self.count += 1

    def flush(self, label=None):
        with open(self.path, 'w') as f:
            json.dump({'done': self.done, 'at': label, 'points': self.count, 'labels': self.labels, 'removed_old': self.removed_old,
                       'lib_commits': self.lib_commits, 'txn': self.txn}, f)


_K = None
_PROBE = None
_CUR = {'op': None}
ALLOWED_VERBS = {'CREATE', 'INSERT', 'UPDATE', 'ALTER', 'SELECT'}


def _verb(sql):
    return sql.strip().split()[0].upper() if isinstance(sql, str) and sql.strip() else '?'


def _after(sql, many_rows=None):
    v = _verb(sql)
    if v == 'CREATE':
        _K.done.append(['create'])
    elif v == 'INSERT':
        _K.done.append(['insert', many_rows if many_rows is not None else 1])
    elif v == 'UPDATE':
        _K.done.append(_CUR['op'] if _CUR['op'] and _CUR['op'][0] == 'update' else ['update', 0])
    elif v == 'ALTER':
        _K.done.append(_CUR['op'] if _CUR['op'] and _CUR['op'][0] == 'addcol' else ['addcol', '?'])


class KCur(sqlite3.Cursor):
    def executescript(self, script):
        _K.point('executescript')
        r = super().executescript(script)
        _K.txn.append('executescript')
        _did_commit()
        return r

    def execute(self, sql, *a):
        _K.point('execute ' + _verb(sql))
        r = super().execute(sql, *a)
        _after(sql)
        return r

    def executemany(self, sql, seq):
        seq = list(seq)
        _K.point('executemany ' + _verb(sql))
        r = super().executemany(sql, seq)
        _after(sql, len(seq))
        return r


class KConn(sqlite3.Connection):
    def cursor(self, *a, **k):
        return super().cursor(KCur)

    def execute(self, sql, *a):
        _K.point('execute ' + _verb(sql))
        r = super().execute(sql, *a)
        _after(sql)
        return r

    def commit(self):
        _K.point('commit')
        super().commit()
        _did_commit()

    def close(self):
        _K.point('close')
        super().close()
        _K.done.append(['closed'])

    # transaction control that does not go through commit(): recorded (the store model is told about the commit), and a
    # kill point like any other
    def __exit__(self, et, ev, tb):
        what = 'with-conn ' + ('commit' if et is None else 'rollback')
        _K.point(what)
        r = super().__exit__(et, ev, tb)
        _K.txn.append(what)
        if et is None:
            _did_commit()
        return r

    def rollback(self):
        _K.point('rollback')
        super().rollback()
        _K.txn.append('rollback')

    def executescript(self, script):
        _K.point('executescript')
        r = super().executescript(script)           # commits a pending transaction first
        _K.txn.append('executescript')
        _did_commit()
        return r


def _did_commit():
    """a commit has been carried out; one the scenario did not ask for (a commit step, or the close) is marked"""
    if _CUR['op'] not in (['commit'], ['close']):
        _K.lib_commits.append(len(_K.done))
    _K.done.append(['commit'])


def _child_hook(event, args):
    if _K is None:
        return
    if event == 'os.remove':
        _K.point('os.remove')
        if ['open'] not in _K.done:
            _K.removed_old = True          # set when the point is passed: the removal happens right after
    elif event == 'sqlite3.connect':
        _K.point('connect')


def _values(kind, tag, n, columns=1):
    """the same numbers in the container / dtype variants callers use"""
    import numpy as np
    if columns == 1 and kind in (None, 'list_float'):
        return [float(tag)] * n
    if kind == 'list_int':
        return [int(tag)] * n
    if kind == 'tuple':
        return tuple([float(tag)] * n)
    dt = {'f64': np.float64, 'f32': np.float32, 'i32': np.int32, 'i64': np.int64}.get(kind, np.float64)
    if columns == 1:
        return np.array([tag] * n, dtype=dt)
    return np.array([[tag]] * n, dtype=dt)


def _carrier_values(c, kind, tag, rows, columns):
    """values of a modification with tag `tag` for atoms 0..rows-1 of a model (or of the whole table: the coordinates
    repeat from model to model).  carrier temp: the tag itself; carrier z: the inserted z displaced by the tag (columns =
    1: z alone, 3: x, y, z)"""
    import numpy as np
    if c.get('carrier', 'temp') == 'temp':
        return _values(kind, tag, rows, columns=1 if columns == 1 else 2)
    per = c['n'] // n_models(c)
    if columns == 1:
        v = [base_xyz(i % per)[2] + tag for i in range(rows)]
    elif columns == 2:
        v = [[base_xyz(i % per)[2] + tag] for i in range(rows)]
    else:
        v = [[base_xyz(i % per)[0], base_xyz(i % per)[1], base_xyz(i % per)[2] + tag] for i in range(rows)]
    if kind == 'tuple':
        return tuple(tuple(r) if isinstance(r, list) else r for r in v)
    if kind in ('f64', 'f32'):
        return np.array(v, dtype={'f64': np.float64, 'f32': np.float32}[kind])
    return v


def sqlfile_arg(c, name):
    """the file-name argument in the variants callers use (str, pathlib.Path, bytes)"""
    import pathlib
    k = c.get('name_kind', 'str')
    if k == 'path':
        return pathlib.Path(name)
    if k == 'bytes':
        return os.fsencode(name)
    return name


def run_scenario(c, name):
    """the real calls; `name` is the file name as a str (relative to the cwd, or absolute); returns the object"""
    import numpy as np
    from pdb2sql import pdb2sql
    lines = pdb_lines(c['n'], models=n_models(c))
    per = c['n'] // n_models(c)
    col = 'temp' if c.get('carrier', 'temp') == 'temp' else 'z'

    def probe_txn():
        if _PROBE is not None:
            # after the creation and after every step: is a transaction open on the object's connection?  (a query, no change)
            try:
                _PROBE.setdefault('in_txn', []).append(bool(db.conn.in_transaction))
            except Exception as e:          # noqa
                _PROBE.setdefault('in_txn', []).append(exc_tag(e))
    db = pdb2sql(lines, sqlfile=sqlfile_arg(c, name), fix_chainID=bool(c.get('fix_chain')))
    probe_txn()
    if _PROBE is not None:
        # the harness (not the library) asks the object's own connection how it is configured; a query, no change
        _PROBE['isolation_level'] = db.conn.isolation_level
        _PROBE['journal_mode'] = sqlite3.Connection.execute(db.conn, 'PRAGMA journal_mode').fetchone()[0]
        _PROBE['synchronous'] = sqlite3.Connection.execute(db.conn, 'PRAGMA synchronous').fetchone()[0]
    for m in c['steps']:
        dt = m[2] if len(m) > 2 else None
        # m[3] (update / update_xyz): None = no model key (a multi-model structure is then updated model by model by the
        # library itself); a list of model numbers = one call with model=k for each of them, in that order
        keys = [{'model': k} for k in m[3]] if len(m) > 3 and isinstance(m[3], list) else [{}]
        if m[0] == 'update_column':
            _CUR['op'] = ['update', m[1]]
            db.update_column(col, _carrier_values(c, dt, m[1], c['n'], 1))
        elif m[0] == 'update':
            _CUR['op'] = ['update', m[1]]
            for kw in keys:
                db.update(col, _carrier_values(c, dt if dt in ('f64', 'f32', 'i32', 'i64') else 'f64', m[1], per, 2), **kw)
        elif m[0] == 'update_xyz':
            _CUR['op'] = ['update', m[1]]
            for kw in keys:
                if col == 'z':
                    db.update_xyz(_carrier_values(c, dt, m[1], per, 3), **kw)
                else:
                    raise ValueError('update_xyz needs a scenario whose tag is carried by z')
        elif m[0] == 'add_column':
            _CUR['op'] = ['addcol', m[1]]
            db.add_column(m[1], 'FLOAT', 0)
        elif m[0] == 'commit':
            _CUR['op'] = ['commit']
            db._commit()
        _CUR['op'] = None
        probe_txn()
    _CUR['op'] = ['close']
    try:
        db._close(rmdb=(c['close'] == 'remove'))
        if _K is not None:
            _K.done.append(['close_keep'] if c['close'] == 'keep' else ['close_remove'])     # the whole close is done
        if c.get('close_twice'):
            db._close(rmdb=True)                    # closing again (after remove: nothing left; after keep: the kept file goes)
            if _K is not None:
                _K.done.append(['close_remove'])
    finally:
        _CUR['op'] = None
    return db


def rel_name(c):
    """where the database lives, relative to the working directory"""
    return os.path.join('sub', c['name']) if c.get('name_kind') == 'subdir' else c['name']


def _prepare_dir(ctx, c, name):
    """name: path of the database relative to the new working directory"""
    wd = os.path.join(ctx.tmpdir(), 'c20_%d' % next(_COUNTER))
    os.makedirs(wd)
    base = os.path.basename(name)
    for v in VICTIMS:
        if v != base and v != base + '-journal':
            open(os.path.join(wd, v), 'w').write('victim ' + v + '\n')
    if os.path.dirname(name):
        os.makedirs(os.path.join(wd, os.path.dirname(name)))
        open(os.path.join(wd, os.path.dirname(name), 'victim_in_sub.txt'), 'w').write('victim in the sub-directory\n')
        if base not in VICTIMS:
            open(os.path.join(wd, base), 'w').write('a file of the same name one level up\n')
    p = os.path.join(wd, name)
    if c['r0'] == 'olddb':
        old_db(p)
    elif c['r0'] == 'garbage':
        open(p, 'w').write('this is not a database, it is a user file\n' * 3)
    return wd


_COUNTER = itertools.count()


def _listing(wd):
    out = {}
    for d, dirs, files in os.walk(wd):
        dirs.sort()
        for f in sorted(files):
            p = os.path.join(d, f)
            try:
                out[os.path.relpath(p, wd)] = hashlib.sha256(open(p, 'rb').read()).hexdigest()
            except OSError:
                out[os.path.relpath(p, wd)] = 'unreadable'
        for dd in dirs:
            out[os.path.relpath(os.path.join(d, dd), wd) + '/'] = 'dir'
    return out


def _fork_run(ctx, c, name, wd, kill):
    """run the scenario in a forked child that dies before kill point `kill` (None: count the points); returns progress"""
    progress = os.path.join(ctx.tmpdir(), 'progress_%d.json' % next(_COUNTER))
    pid = os.fork()
    if pid == 0:
        code = 70
        try:
            global _K
            os.chdir(wd)
            warnings.simplefilter('ignore')
            _K = _Kill(kill, progress)
            orig = sqlite3.connect
            sqlite3.connect = lambda *a, **k: (lambda con: (_K.done.append(['open']), con)[1])(orig(*a, factory=KConn, **k))
            sys.addaudithook(_child_hook)
            run_scenario(c, name)
            _K.flush('end')
            code = 0
        except BaseException:          # noqa
            try:
                open(progress + '.err', 'w').write(traceback.format_exc())
            except Exception:
                pass
            code = 71
        finally:
            os._exit(code)
    t0 = time.time()
    while True:
        r, status = os.waitpid(pid, os.WNOHANG)
        if r == pid:
            break
        if time.time() - t0 > 60:
            os.kill(pid, signal.SIGKILL)
            os.waitpid(pid, 0)
            raise subprocess.TimeoutExpired('forked scenario child', 60)
        time.sleep(0.002)
    rc = os.waitstatus_to_exitcode(status)
    if rc == 71:
        raise RuntimeError('scenario child raised: ' + open(progress + '.err').read()[-800:])
    if rc not in (0, 77):
        raise RuntimeError('scenario child exit code %s' % rc)
    return json.load(open(progress)), rc


def impl(ctx, c):
    name = rel_name(c)
    wd = _prepare_dir(ctx, c, name)
    before = _listing(wd)
    path = os.path.join(wd, name)
    given = path if c.get('name_kind') == 'abs' else name          # what the caller passes
    out = {}
    if c['kind'] == 'normal':
        global _K, _PROBE
        cwd0 = os.getcwd()
        os.chdir(wd)
        orig_connect = sqlite3.connect
        try:
            _K = _Kill(None, os.path.join(ctx.tmpdir(), 'unused_progress.json'))      # record-only: never kills
            _PROBE = {}
            sqlite3.connect = lambda *a, **k: orig_connect(*a, factory=KConn, **k)
            with warnings.catch_warnings():
                warnings.simplefilter('ignore')
                val, events = T.traced(lambda: run_scenario(c, given))
            out['statements'] = sorted({l.split()[1] for l in _K.labels if l.startswith('execute') and len(l.split()) > 1})
            out['in_txn'] = _PROBE.pop('in_txn', [])
            out['conn'] = dict(_PROBE)
            out['txn_control'] = list(_K.txn)
            out['commits'] = sum(1 for o in _K.done if o == ['commit'])
            out['lib_commits'] = len(_K.lib_commits)
        finally:
            sqlite3.connect = orig_connect
            _K = None
            _PROBE = None
            os.chdir(cwd0)
        out['outcome'] = 'ok' if val[0] == 'ok' else exc_tag(val[1])
        if val[0] != 'ok':
            out['error'] = repr(val[1])[:300]
        # effect trace: every path argument must be exactly the name that was given
        tr, spawned, foreign = [], [], []
        for ev in events:
            k = ev[0]
            if k in ('isfile', 'os.remove', 'os.unlink', 'sqlite3.connect'):
                arg = ev[1]
                try:
                    arg = os.fsdecode(os.fspath(arg))
                except TypeError:
                    arg = repr(arg)
                if arg != given:
                    foreign.append([k, str(arg)])
                tr.append([{'isfile': 'isFile', 'os.remove': 'remove', 'os.unlink': 'remove', 'sqlite3.connect': 'connect'}[k], 'db' if arg == given else 'other'])
            elif k in ('os.system', 'subprocess.Popen', 'os.posix_spawn', 'os.exec', 'os.fork', 'os.forkpty', 'os.spawn', 'pty.spawn'):
                spawned.append([k, str(ev[1])[:80]])
                tr.append(['shell'])
            elif k in ('open', 'os.rename', 'tempfile.mkstemp', 'os.rmdir', 'os.mkdir', 'shutil.rmtree', 'os.truncate', 'os.link', 'os.symlink', 'os.listdir', 'os.scandir'):
                foreign.append([k, str(ev[1])[:80]])
        out['trace'] = tr
        out['spawned'] = spawned
        out['foreign'] = foreign
        c['ops_sent'] = lean_ops(c)
    else:
        try:
            prog, rc = _fork_run(ctx, c, name, wd, c['kill'])
        except subprocess.TimeoutExpired:
            # the child did not get to its kill point in time and has been SIGKILLed wherever it was: that is a process death
            # too, at a moment we do not know -- the file must hold the last-committed table of SOME prefix of the scenario
            ops_all = lean_ops(c)
            prog, rc = {'at': 'wherever it was after 60 s (SIGKILL)', 'done': ops_all}, 77
            out['timed_out'] = True
            out['allowed'] = []
            for k in range(len(ops_all) + 1):
                a = py_seen(c, ops_all[:k])
                if a not in out['allowed']:
                    out['allowed'].append(a)
        out['outcome'] = 'killed' if rc == 77 else 'ok'
        out['at'] = prog['at']
        out['done'] = prog['done']
        out['removed_old'] = bool(prog.get('removed_old')) and ['open'] not in prog['done']
        # operations completed -> what the model is asked (a closed connection is not an operation of its own)
        ops = [o for o in prog['done'] if o != ['closed']]
        # the same without the commits the scenario did not ask for: what the property's expectation is computed from
        own = [o for i, o in enumerate(prog['done']) if o != ['closed'] and i not in set(prog.get('lib_commits', []))]
        if rc == 0:
            ops = own = lean_ops(c)
        c['ops_sent'] = ops
        out['lib_commits'] = len(prog.get('lib_commits', []))
        out['txn_control'] = prog.get('txn', [])
        out['expected'] = py_seen(c, own)
    rd, detail = read_back(path, layout(c))
    out['read'] = rd
    if detail:
        out['read_detail'] = detail
    after = _listing(wd)
    out['created'] = sorted(k for k in after if k not in before and k != name)
    out['deleted'] = sorted(k for k in before if k not in after and k != name)
    out['modified'] = sorted(k for k in before if k in after and before[k] != after[k] and k != name)
    out['journal_left'] = (name + '-journal') in after
    shutil.rmtree(wd, ignore_errors=True)
    return out


def py_seen(c, ops):
    """Spec.C20.lastCommitted, evaluated in the harness: what a fresh reader must find after the statement-level
    operations `ops` of which the commits are the SCENARIO's (commit steps, close(keep)) -- DDL with nothing pending is
    its own commit point, INSERT/UPDATE stay pending until the next commit point.  Same summary as read_back."""
    def table(rows):
        if rows is None:
            return 'notable'
        tags, colsets = [], []
        for r in rows:
            if r[1] not in tags:
                tags.append(r[1])
            if r[2] not in colsets:
                colsets.append(r[2])
        return {'n': len(rows), 'ids_contiguous': [r[0] for r in rows] == list(range(len(rows))), 'tags': tags, 'cols': colsets}
    phase, held, dirty = 'fresh', None, False
    seen = {'nofile': 'nofile', 'olddb': table([[999, 0, []]]), 'garbage': 'notadb'}.get(c['r0'], 'nofile')
    for o in ops:
        k = o[0]
        if k == 'open':
            if phase == 'fresh':
                phase, held, dirty, seen = 'live', None, False, 'notable'
        elif phase == 'live' and k == 'create':
            if held is None:
                held = []
                if not dirty:
                    seen = table(held)
        elif phase == 'live' and k == 'insert' and held is not None:
            held = held + [[i, 0, []] for i in range(int(o[1]))]
            dirty = True
        elif phase == 'live' and k == 'update' and held is not None:
            held = [[r[0], o[1], r[2]] for r in held]
            dirty = True
        elif phase == 'live' and k == 'addcol' and held is not None:
            held = [[r[0], r[1], r[2] + [o[1]]] for r in held]
            if not dirty:
                seen = table(held)
        elif phase == 'live' and k == 'commit':
            dirty, seen = False, table(held)
        elif phase == 'live' and k == 'close_keep':
            phase, dirty, seen = 'closed', False, table(held)
        elif k == 'close_remove' and phase in ('live', 'closed'):
            phase, dirty, seen = 'closed', False, 'nofile'
    return seen


def expected_in_txn(c):
    """is a transaction open after the creation and after each step?  From the scenario alone: the bulk INSERT and every
    UPDATE open / continue the implicit transaction, ALTER TABLE leaves it as it is, only a commit step ends it"""
    out, t = [True], True
    for m in c['steps']:
        if m[0] in ('update_column', 'update', 'update_xyz'):
            t = True
        elif m[0] == 'commit':
            t = False
        out.append(t)
    return out


def driver_line(c):
    ops = c.get('ops_sent', lean_ops(c))
    if c.get('model_n'):
        # the model is uniform in the number of rows (and quadratic to execute): a big table is sent with model_n rows
        ops = [[o[0], c['model_n']] if o[0] == 'insert' and o[1] == c['n'] else o for o in ops]
    return {'op': 'store_scenario', 'ops': ops, 'k': -1, 'r0': c['r0']}


def _rescale(c, rd):
    """the model's / spec's answer for model_n rows, read as an answer for n rows"""
    if c.get('model_n') and isinstance(rd, dict) and rd.get('n') == c['model_n']:
        return dict(rd, n=c['n'])
    return rd


def _same_read(a, b):
    return a == b


def agree_model(c, out, model):
    if c['kind'] == 'normal' and out['outcome'] != 'ok':
        return f'scenario raised {out["outcome"]}: {out.get("error")}'
    if out.get('removed_old') and out['read'] == 'nofile':
        return True                                # killed between os.remove(old) and connect: see ASSUMPTIONS
    if out.get('timed_out'):
        return True                                # killed at an unknown moment: nothing to ask the model; agree_spec judges the file
    model = dict(model, read=_rescale(c, model['read']))
    if not _same_read(out['read'], model['read']):
        return f'stock reader finds {out["read"]} {out.get("read_detail", "")}; model {model["read"]} (operations completed: {c.get("ops_sent")})'
    if c['kind'] == 'normal':
        if out['trace'] != model['trace']:
            return f'effect trace {out["trace"]} model {model["trace"]}'
        # statement obligation: the store model knows DDL (CREATE, ALTER), DML (INSERT, UPDATE) and reads -- nothing else
        extra = [v for v in out.get('statements', []) if v not in ALLOWED_VERBS]
        if extra:
            return f'statements outside the store model executed on the file-backed connection: {extra}'
        # `with conn:` ending in a commit is a commit (in the kill runs the model is told so); a rollback or a script is not an operation of the model
        beyond = [t for t in out.get('txn_control', []) if t != 'with-conn commit']
        if beyond:
            return f'transaction control outside the store model (it knows statements, commit and close): {beyond}'
        cn = out.get('conn', {})
        if cn and (cn.get('journal_mode') != 'delete' or cn.get('isolation_level') != ''):
            return f'the object\'s connection is not the one the store model assumes (rollback journal on disk, implicit deferred transactions): {cn}'
    return True


def agree_spec(c, out, spec):
    """the property: keep -> exactly the table held; remove -> exactly that file gone; a kill -> the file opens cleanly
    and holds no atoms or the complete last-committed table; names are data"""
    spec = dict(spec, seen=_rescale(c, spec['seen']), held=_rescale(c, spec['held']))
    if (out['read'] in ('corrupt', 'notadb') and not (c['r0'] == 'garbage' and not c.get('ops_sent'))
            and not (out.get('timed_out') and out['read'] in out['allowed'])):
        return f'file does not open cleanly: {out["read"]} {out.get("read_detail", "")}'
    if out['created'] or out['deleted'] or out['modified']:
        extra = [x for x in out['created'] if x != rel_name(c) + '-journal']
        if extra or out['deleted'] or out['modified']:
            return f'other files touched: created {out["created"]} deleted {out["deleted"]} modified {out["modified"]}'
    if c['kind'] == 'normal':
        if out['outcome'] != 'ok':
            return f'scenario raised {out["outcome"]}: {out.get("error")} (file name {c["name"]!r})'
        if out['spawned']:
            return f'a process was spawned: {out["spawned"]}'
        if out['foreign']:
            return f'an action named something other than the database file: {out["foreign"]}'
        if 'in_txn' in out and out['in_txn'] != expected_in_txn(c):
            return (f'uncommitted modifications do not stay uncommitted (or committed ones pending): transaction open after creation / each step '
                    f'{out["in_txn"]}, the scenario {c["steps"]} says {expected_in_txn(c)}')
        if c['close'] == 'keep' and not c.get('close_twice'):
            if out['read'] != spec['held'] or spec['held'] != spec['seen']:
                return f'after close(keep) a reader finds {out["read"]}, the object held {spec["held"]}'
        else:
            if out['read'] != 'nofile':
                return f'after close(remove) the file is still there: {out["read"]}'
            if out['journal_left']:
                return 'journal left behind after close(remove)'
        return True
    # killed
    if out.get('timed_out'):
        if out['read'] in out['allowed'] or (out['read'] == 'nofile' and c['r0'] != 'nofile'):
            return 'discard'
        return f'killed {out.get("at")}: a reader finds {out["read"]}, which is not the table of any commit point of the scenario: {out["allowed"]}'
    if out.get('removed_old') and out['read'] == 'nofile':
        return True
    if 'expected' in out and out['read'] != out['expected']:
        noatoms = out['read'] in ('nofile', 'notable') or (isinstance(out['read'], dict) and out['read']['n'] == 0)
        return (f'after a kill before "{out.get("at")}" a reader finds {out["read"]}; the last table the SCENARIO committed is {out["expected"]}'
                + (' (no atoms)' if noatoms else ' -- PART OF A TABLE or uncommitted data') +
                (f'; the library committed {out["lib_commits"]} time(s) on its own {out.get("txn_control")}' if out.get('lib_commits') else ''))
    if out['read'] != spec['seen']:
        noatoms = out['read'] in ('nofile', 'notable') or (isinstance(out['read'], dict) and out['read']['n'] == 0)
        return f'after a kill before "{out.get("at")}" a reader finds {out["read"]}; last committed table is {spec["seen"]}' + (' (no atoms)' if noatoms else ' -- PART OF A TABLE or uncommitted data')
    return True


def nontrivial_key(c, out):
    nm = c['name']
    cls = 'plain' if nm.replace('.', '').isalnum() else 'hostile'
    return [c['kind'], json.dumps(c.get('ops_sent')), json.dumps(out['read'], sort_keys=True), cls if c['kind'] == 'normal' else out.get('at'), c['r0'],
            c.get('name_kind', 'str'), bool(c.get('close_twice')), n_models(c), c.get('carrier', 'temp')]


def distribution(recs):
    kinds, reads, names, ats, structs = {}, {}, {'plain': 0, 'hostile': 0}, {}, {}
    for r in recs:
        c = r['case']
        kinds[c['kind']] = kinds.get(c['kind'], 0) + 1
        sk = '%s, %d model(s), tag in %s' % (c['kind'], n_models(c), c.get('carrier', 'temp'))
        structs[sk] = structs.get(sk, 0) + 1
        if isinstance(r['impl'], dict) and 'read' in r['impl']:
            rd = r['impl']['read']
            key = rd if isinstance(rd, str) else ('table n=%s' % ('0' if rd['n'] == 0 else '>0'))
            reads[key] = reads.get(key, 0) + 1
            if c['kind'] == 'kill':
                a = r['impl'].get('at')
                ats[a] = ats.get(a, 0) + 1
        names['plain' if c['name'].replace('.', '').isalnum() else 'hostile'] += 1
    return {'kinds': kinds, 'reader_finds': reads, 'names': names, 'kill_points': ats, 'structures': structs}


# ---------------------------------------------------------------------------------------------------------------
# cases
# ---------------------------------------------------------------------------------------------------------------

DTYPES = [None, 'list_int', 'tuple', 'f64', 'f32', 'i32', 'i64']


def _scenario(rng, n=None, long=False):
    def mods():
        k = rng.choice(['update_column', 'update', 'add_column'])
        if k == 'add_column':
            return ['add_column', 'q%d' % rng.randint(0, 99)]
        return [k, rng.randint(1, 9), rng.choice(DTYPES)]
    steps = []
    if long:
        # several modifications and several commits in any order (first call vs later calls on the same object)
        for _ in range(rng.randint(3, 7)):
            steps.append(['commit'] if rng.random() < 0.35 else mods())
    else:
        if rng.random() < 0.7:
            steps.append(mods())
        if rng.random() < 0.3:
            steps.append(mods())
        if rng.random() < 0.6:
            steps.append(['commit'])
        if rng.random() < 0.7:
            steps.append(mods())
    # column names must be distinct
    seen, out = set(), []
    for s in steps:
        if s[0] == 'add_column':
            if s[1] in seen:
                continue
            seen.add(s[1])
        out.append(s)
    close = rng.choice(['keep', 'remove'])
    return {'n': n or rng.choice([1, 2, 3, 5, 8, 13, 40]), 'steps': out, 'close': close,
            'fix_chain': rng.random() < 0.25, 'r0': rng.choice(['nofile', 'nofile', 'olddb', 'garbage']),
            'close_twice': rng.random() < (0.4 if close == 'remove' else 0.15)}


XYZ_DTYPES = [None, 'tuple', 'f64', 'f32']

MM_FIXED = [
    # the property's scenarios on a structure of several models: create, modify / create, commit, modify / longer
    {'n': 6, 'models': 2, 'carrier': 'temp', 'steps': [['update', 3, 'f64']], 'close': 'keep', 'fix_chain': False, 'r0': 'nofile'},
    {'n': 6, 'models': 3, 'carrier': 'z', 'steps': [['commit'], ['update_xyz', 4, 'f64']], 'close': 'remove', 'fix_chain': False, 'r0': 'olddb'},
    {'n': 4, 'models': 2, 'carrier': 'z', 'steps': [['update', 2, 'f32', [1, 0]], ['commit'], ['update_column', 5, None], ['add_column', 'w'],
                                                    ['update_xyz', 7, None], ['commit'], ['update', 8, 'f64']],
     'close': 'keep', 'fix_chain': False, 'r0': 'garbage'},
    {'n': 9, 'models': 3, 'carrier': 'temp', 'steps': [['add_column', 'u'], ['update', 6, 'i32'], ['commit'], ['update', 1, 'f64', [2, 0, 1]], ['update', 9, 'f32']],
     'close': 'remove', 'fix_chain': False, 'r0': 'nofile', 'close_twice': True},
]


def _scenario_mm(rng, long=False, small=False):
    """a scenario on a structure of 2 or 3 models separated by ENDMDL (sometimes 1, as the control): modifications through
    update / update_xyz without a model key (the library goes model by model) or with model=k for every k in some order,
    update_column over the whole table, add_column; the tag is carried by temp or by the z coordinate"""
    M = rng.choice([1, 2, 2, 2, 3, 3])
    per = rng.choice([1, 2, 3] if small else [1, 2, 3, 5, 8, 13])
    carrier = rng.choice(['temp', 'z'])

    def mods():
        k = rng.choice(['update', 'update', 'update_xyz' if carrier == 'z' else 'update', 'update_column', 'add_column'])
        if k == 'add_column':
            return ['add_column', 'q%d' % rng.randint(0, 99)]
        tag = rng.randint(1, 9)
        if k == 'update_column':
            return [k, tag, rng.choice(DTYPES if carrier == 'temp' else XYZ_DTYPES)]
        dt = rng.choice(['f64', 'f32', 'i32', 'i64'] if carrier == 'temp' else (['f64', 'f32'] if k == 'update' else XYZ_DTYPES))
        if rng.random() < 0.65:
            return [k, tag, dt]
        order = list(range(M))
        rng.shuffle(order)
        return [k, tag, dt, order]
    steps = []
    if long:
        for _ in range(rng.randint(3, 7)):
            steps.append(['commit'] if rng.random() < 0.35 else mods())
    else:
        if rng.random() < 0.8:
            steps.append(mods())
        if rng.random() < 0.3:
            steps.append(mods())
        if rng.random() < 0.6:
            steps.append(['commit'])
        if rng.random() < 0.8:
            steps.append(mods())
    seen, out = set(), []
    for s in steps:
        if s[0] == 'add_column':
            if s[1] in seen:
                continue
            seen.add(s[1])
        out.append(s)
    close = rng.choice(['keep', 'remove'])
    # fix_chainID only on one-model structures: on a multi-model structure it raises TypeError in the unchanged library
    # (get('chainID') answers model by model), before any scenario starts
    return {'n': M * per, 'models': M, 'carrier': carrier, 'steps': out, 'close': close,
            'fix_chain': M == 1 and rng.random() < 0.25, 'r0': rng.choice(['nofile', 'nofile', 'olddb', 'garbage']),
            'close_twice': rng.random() < (0.4 if close == 'remove' else 0.15)}


def all_names():
    out = []
    for L in (1, 2, 3):
        for t in itertools.product(ALPHABET, repeat=L):
            out.append(''.join(t))
    return out


def cases(ctx):
    rng = ctx.rng
    T.install()
    import pdb2sql   # noqa  (before any fork)
    out = []
    # (1) normal runs, plain names
    fixed = [
        {'n': 5, 'steps': [], 'close': 'keep', 'fix_chain': False, 'r0': 'nofile'},
        {'n': 5, 'steps': [], 'close': 'remove', 'fix_chain': False, 'r0': 'olddb'},
        {'n': 7, 'steps': [['update_column', 3]], 'close': 'keep', 'fix_chain': False, 'r0': 'garbage'},
        {'n': 7, 'steps': [['update', 4], ['commit'], ['add_column', 'w']], 'close': 'keep', 'fix_chain': True, 'r0': 'olddb'},
        {'n': 4, 'steps': [['add_column', 'w'], ['update_column', 2], ['add_column', 'v']], 'close': 'keep', 'fix_chain': False, 'r0': 'nofile'},
        {'n': 4, 'steps': [['update_column', 2], ['commit'], ['update_column', 6]], 'close': 'remove', 'fix_chain': False, 'r0': 'nofile'},
    ]
    fixed += [
        {'n': 6, 'steps': [['update_column', 2, 'f32'], ['commit'], ['add_column', 'u'], ['update', 3, 'i32'], ['commit'], ['update_column', 4, 'list_int'],
                           ['add_column', 'v'], ['commit'], ['update', 5, 'f64']], 'close': 'keep', 'fix_chain': True, 'r0': 'olddb'},
        {'n': 6, 'steps': [['commit'], ['commit'], ['update_column', 2, 'i64'], ['add_column', 'u'], ['commit'], ['add_column', 'v'], ['update_column', 8, 'tuple']],
         'close': 'remove', 'fix_chain': False, 'r0': 'garbage', 'close_twice': True},
    ]
    scen = fixed + [_scenario(rng) for _ in range(ctx.scale(14, 80))] + [_scenario(rng, long=True) for _ in range(ctx.scale(12, 80))]
    # (1b) the same on multi-model structures (ENDMDL), tag in temp or in the coordinates
    scen += MM_FIXED + [_scenario_mm(rng) for _ in range(ctx.scale(8, 60))] + [_scenario_mm(rng, long=True) for _ in range(ctx.scale(6, 60))]
    kinds = ['str', 'str', 'path', 'bytes', 'abs', 'subdir']
    for i, s in enumerate(scen):
        c = dict(s, op='store_scenario', kind='normal', name=rng.choice(['atoms.db', 'x1.sqlite', 'data']), name_kind=kinds[i % len(kinds)])
        out.append(c)
    # (2) fault enumeration: a kill before every statement / commit / close / os.remove / connect
    kill_scen = fixed + [_scenario(rng, n=rng.choice([2, 3, 6]), long=(j % 2 == 1)) for j in range(ctx.scale(4, 30))]
    n_single = len(kill_scen)
    kill_scen += MM_FIXED + [_scenario_mm(rng, long=(j % 2 == 1), small=True) for j in range(ctx.scale(4, 30))]
    for i, s in enumerate(kill_scen):
        c0 = dict(s, op='store_scenario', kind='kill', name='k.db', kill=None)
        wd = _prepare_dir(ctx, c0, 'k.db')
        prog, rc = _fork_run(ctx, c0, 'k.db', wd, None)
        shutil.rmtree(wd, ignore_errors=True)
        labels = prog.get('labels', [])
        for k in range(prog['points']):
            # quick tier, multi-model family (an update there is a long run of SELECTs around each UPDATE): of several reads in a
            # row only the first is a kill point -- nothing is written between them; the thorough tier takes every one
            if i >= n_single and not ctx.thorough and 0 < k < len(labels) and labels[k] == labels[k - 1] == 'execute SELECT':
                continue
            out.append(dict(c0, kill=k))
    # (2b) a table larger than SQLite's page cache: create, commit, modify every row twice, kill before the commit --
    # uncommitted pages have been spilled into the database file by then; the reader must still find the committed table
    big = {'n': ctx.scale(60000, 99000), 'steps': [['commit'], ['update_column', 3, 'f64'], ['update_column', 5, 'list_float']], 'close': 'keep',
           'fix_chain': False, 'r0': 'nofile', 'model_n': 7}
    out.append(dict(big, op='store_scenario', kind='kill', name='big.db', kill=['commit', 2]))
    if ctx.thorough:
        out.append(dict(big, op='store_scenario', kind='kill', name='big.db', kill=['close', 1], steps=[['commit'], ['update', 4, 'f32'], ['add_column', 'w']], close='remove'))
    # (3) file names
    names = all_names()
    if not ctx.thorough:
        names = rng.sample(names, 150)
    names = names + CRAFTED
    for nm in names:
        s = {'n': 3, 'steps': rng.choice([[], [['update_column', 2]], [['add_column', 'w'], ['commit']]]),
             'close': rng.choice(['keep', 'remove']), 'fix_chain': False, 'r0': rng.choice(['nofile', 'olddb', 'garbage']),
             'close_twice': rng.random() < 0.3}
        nk = rng.choice(['str', 'str', 'str', 'path', 'bytes', 'abs', 'subdir'])
        if nk == 'bytes':
            try:
                nm.encode('utf-8')
            except UnicodeError:
                nk = 'str'
        out.append(dict(s, op='store_scenario', kind='normal', name=nm, name_kind=nk))
    return out


def search_cases(ctx):
    rng = random.Random(f'C20-search:{ctx.seed}')
    out = []
    for nm in CRAFTED + ['a b', 'a;b', '$(a)', '-a', "'", '"', 'a*', '?']:
        for close in ('keep', 'remove'):
            for r0 in ('nofile', 'olddb', 'garbage'):
                out.append({'op': 'store_scenario', 'kind': 'normal', 'name': nm, 'n': 3, 'steps': [['update_column', 2]], 'close': close,
                            'fix_chain': False, 'r0': r0})
    return out


# ---------------------------------------------------------------------------------------------------------------
# syscall-level kills inside SQLite (strace fault injection)
# ---------------------------------------------------------------------------------------------------------------

_STRACE_CHILD = r'''
import sys, warnings, json
warnings.simplefilter('ignore')
sys.path.insert(0, %(py)r)
from props import c20
c = json.loads(%(case)r)
c20.run_scenario(c, %(name)r)
'''


def strace_kills(ctx, c, max_n):
    """SIGKILL at the N-th fdatasync/pwrite64 of the process, N = 1, 2, ...; returns (n_runs, first_problem)"""
    if not shutil.which('strace'):
        return 0, None, 'strace not available'
    # what the property allows: the last-committed table (Spec.C20.lastCommitted) of any prefix of the scenario --
    # every one of them is a complete table; the kill lands inside some statement, we do not know which
    ops = lean_ops(c)
    lines = [{'op': 'store_scenario', 'ops': ops, 'k': k, 'r0': c['r0']} for k in range(len(ops) + 1)]
    allowed = [a['spec']['seen'] for a in vlib.run_driver(lines, which='model', cluster=CLUSTER)]
    here = os.path.dirname(os.path.dirname(os.path.abspath(__file__)))
    runs = 0
    for n in range(1, max_n + 1):
        wd = _prepare_dir(ctx, c, 's.db')
        code = _STRACE_CHILD % {'py': here, 'case': json.dumps(c), 'name': 's.db'}
        p = subprocess.run(['strace', '-f', '-o', '/dev/null', '-e', 'trace=fdatasync,pwrite64',
                            '-e', 'inject=fdatasync,pwrite64:signal=SIGKILL:when=%d' % n, sys.executable, '-c', code],
                           cwd=wd, capture_output=True, text=True, timeout=120)
        runs += 1
        rd, detail = read_back(os.path.join(wd, 's.db'), layout(c))
        lst = _listing(wd)
        shutil.rmtree(wd, ignore_errors=True)
        if p.returncode == 0:
            return runs, None, 'all %d injection points of the scenario exercised' % (n - 1)
        if p.returncode not in (-9, 137):
            return runs, None, 'strace run failed rc=%s %s' % (p.returncode, p.stderr[-300:])
        if rd == 'nofile' and c['r0'] != 'nofile':
            continue                    # between os.remove(old) and connect
        if rd not in allowed:
            return runs, {'case': c, 'kill_at_syscall': n, 'reader_finds': rd, 'detail': detail, 'allowed': allowed}, ''
    return runs, None, 'stopped after %d injection points' % max_n



# ===== fxTie: translated effect programs (Gen/Fx.lean) vs the real calls ============================================
def fx_tie_checks(ctx):
    """implementation = generated: `_create_sql`, `_commit`, `_close`, `__init__` of real objects are run with every
    isfile / os.remove / sqlite3.connect / cursor / commit / close recorded (audit hook + a recording Connection class), and
    the TRANSLATED programs (GenF.*, driver op fx_run) are run in a world with the same files; the two event lists (calls with
    their arguments, in order) and the files left must be equal."""
    import pdb2sql as lib
    from pdb2sql import pdb2sql
    from pdb2sql.pdb2sql_base import pdb2sql_base
    rng = ctx.rng
    rec = []

    class RConn(sqlite3.Connection):
        def cursor(self, *a, **k):
            T._note(('conn', 'cursor', self._fx_name))
            return super().cursor(*a, **k)

        def commit(self):
            T._note(('conn', 'commit', self._fx_name))
            return super().commit()

        def close(self):
            T._note(('conn', 'close', self._fx_name))
            return super().close()

    def canon(events, given):
        out = []
        for ev in events:
            k = ev[0]
            if k in ('isfile', 'os.remove', 'os.unlink', 'sqlite3.connect'):
                arg = ev[1]
                arg = ':memory:' if arg == ':memory:' else ('db' if os.fsdecode(os.fspath(arg)) == given else 'other:' + str(arg))
                out.append([{'isfile': 'isfile', 'os.remove': 'remove', 'os.unlink': 'remove', 'sqlite3.connect': 'connect'}[k], arg])
            elif k == 'conn':
                out.append([ev[1], ev[2]])
            elif k == 'marker':
                out.append(['exists', ev[1]])
            elif k in ('os.system', 'subprocess.Popen', 'open', 'os.rename', 'tempfile.mkstemp'):
                out.append(['foreign:' + k, str(ev[1])[:60]])
        return out

    def lean_canon(evs, given):
        out = []
        for e in evs:
            a = e[1]
            a = ':memory:' if a == ':memory:' else ('db' if a == given else ('other:' + a if e[0] != 'exists' else a))
            out.append([e[0], a])
        return out

    orig_connect = sqlite3.connect

    def rconnect(name, *a, **k):
        con = orig_connect(name, *a, factory=RConn, **k)
        con._fx_name = ':memory:' if name == ':memory:' else 'db'
        return con

    class Probe(pdb2sql):
        def _create_table(self, pdbfile, tablename='ATOM'):
            T._note(('marker', '_create_table(%s,%s)' % (pdbfile, tablename)))

        def _fix_chainID(self):
            T._note(('marker', '_fix_chainID()'))

    cases_, lines = [], []
    names = ['atoms.db', 'x y.db', "it's.db", '$(touch x)', '-rf', 'a;b', 'sub/d.db']
    for r0 in ('nofile', 'olddb', 'garbage'):
        for mem in (False, True):
            for rmdb in (True, False, None):
                for twice in (False, True):
                    if mem and r0 != 'nofile':
                        continue
                    cases_.append({'r0': r0, 'mem': mem, 'rmdb': rmdb, 'twice': twice, 'name': rng.choice(names), 'commit': rng.random() < 0.5,
                                   'fix': rng.random() < 0.5})
    bad, n_ok = None, 0
    T.install()
    for c in cases_:
        name = c['name']
        wd = os.path.join(ctx.tmpdir(), 'c20fx_%d' % next(_COUNTER))
        os.makedirs(os.path.join(wd, 'sub'))
        p = os.path.join(wd, name)
        if c['r0'] == 'olddb':
            old_db(p)
        elif c['r0'] == 'garbage':
            open(p, 'w').write('not a database\n')
        given = None if c['mem'] else name
        cwd0 = os.getcwd()
        os.chdir(wd)
        sqlite3.connect = rconnect
        steps = []          # (fn, driver line, real events, real outcome, file exists afterwards)
        try:
            with warnings.catch_warnings():
                warnings.simplefilter('ignore')
                obj = pdb2sql.__new__(pdb2sql)
                pdb2sql_base.__init__(obj, pdb_lines(3), sqlfile=given)

                def present():
                    return [[name, []]] if (given is not None and os.path.lexists(name)) else []

                def do(fn, call, **kw):
                    files = present()
                    val, ev = T.traced(call)
                    line = dict({'op': 'fx_run', 'fn': fn, 'files': files, 'connected': hasattr(obj, 'conn')}, **kw)
                    if given is not None:
                        line['sqlfile'] = given
                    steps.append((fn, line, canon(ev, given), 'ok' if val[0] == 'ok' else exc_tag(val[1]), given is not None and os.path.lexists(name)))
                # the driver line must describe the object BEFORE the call
                files0, conn0 = present(), False
                val, ev = T.traced(obj._create_sql)
                l0 = {'op': 'fx_run', 'fn': 'create_sql', 'files': files0, 'connected': False}
                if given is not None:
                    l0['sqlfile'] = given
                steps.append(('create_sql', l0, canon(ev, given), 'ok' if val[0] == 'ok' else exc_tag(val[1]), given is not None and os.path.lexists(name)))
                obj.c.execute('CREATE TABLE ATOM (x INT)')
                obj.c.execute('INSERT INTO ATOM VALUES (1)')
                if c['commit']:
                    l1 = dict(l0, fn='commit', files=present(), connected=True)
                    val, ev = T.traced(obj._commit)
                    steps.append(('commit', l1, canon(ev, given), 'ok' if val[0] == 'ok' else exc_tag(val[1]), given is not None and os.path.lexists(name)))
                for _ in range(2 if c['twice'] else 1):
                    l2 = dict(l0, fn='close', files=present(), connected=True)
                    if c['rmdb'] is None:
                        val, ev = T.traced(obj._close)                 # the default of rmdb is part of the translation
                    else:
                        l2['rmdb'] = c['rmdb']
                        val, ev = T.traced(lambda: obj._close(rmdb=c['rmdb']))
                    steps.append(('close', l2, canon(ev, given), 'ok' if val[0] == 'ok' else exc_tag(val[1]), given is not None and os.path.lexists(name)))
                    if not c['rmdb'] in (True, None):
                        break                                         # commit on a closed connection raises: outside the model's scenarios
                # __init__: the order of _create_sql, _create_table, _fix_chainID
                files3 = present()
                val, ev = T.traced(lambda: Probe('x.pdb', sqlfile=given, fix_chainID=c['fix']))
                l3 = dict(l0, fn='init', files=files3, connected=False, pdbfile='x.pdb', fix_chainID=c['fix'])
                steps.append(('init', l3, canon(ev, given), 'ok' if val[0] == 'ok' else exc_tag(val[1]), given is not None and os.path.lexists(name)))
                if val[0] == 'ok':
                    val[1].conn.close()
        finally:
            sqlite3.connect = orig_connect
            os.chdir(cwd0)
        shutil.rmtree(wd, ignore_errors=True)
        for st in steps:
            lines.append(st[1])
            rec.append((c, st))
    answers = vlib.run_driver(lines, which='model', cluster=CLUSTER)
    for (c, (fn, line, real, outcome, exists)), a in zip(rec, answers):
        m = a.get('model') or {}
        given = line.get('sqlfile')
        got = lean_canon(m.get('events', []), given)
        lean_exists = any(f[0] == given for f in m.get('files', []))
        why = None
        if a.get('driver_error'):
            why = 'driver error: ' + str(a)[:300]
        elif got != real:
            why = 'calls differ: real %s translated %s' % (real, got)
        elif (m.get('outcome') == 'ok') != (outcome == 'ok'):
            why = 'outcome: real %s translated %s' % (outcome, m.get('outcome'))
        elif lean_exists != exists:
            why = 'file present afterwards: real %s translated %s' % (exists, lean_exists)
        if why and bad is None:
            bad = {'case': c, 'fn': fn, 'line': line, 'why': why}
        n_ok += 0 if why else 1
    return [{'name': 'translated _create_sql/_commit/_close/__init__ (GenF) make the calls of the real code, same arguments, same order (%d runs)' % len(rec),
             'ok': bad is None, 'case': bad, 'detail': 'implementation and generated effect program disagree', 'replay_kind': 'input', 'kind': None}]
# ===== end fxTie ===================================================================================================

def extra_checks(ctx):
    res = []
    rng = ctx.rng
    scen = [{'n': 40, 'steps': [['update_column', 3], ['commit'], ['add_column', 'w'], ['update', 5]], 'close': 'keep', 'fix_chain': False, 'r0': 'nofile'}]
    if ctx.thorough:
        scen.append({'n': 400, 'steps': [['commit'], ['update_column', 7]], 'close': 'keep', 'fix_chain': True, 'r0': 'olddb'})
        scen.append({'n': 25, 'steps': [['update', 2]], 'close': 'remove', 'fix_chain': False, 'r0': 'nofile'})
        # multi-model, never committed: whatever the kill hits, no atoms may be found
        scen.append({'n': 24, 'models': 3, 'carrier': 'z', 'steps': [['update', 3, 'f64'], ['add_column', 'w'], ['update_xyz', 5, 'f32'], ['update_column', 6, None]],
                     'close': 'remove', 'fix_chain': False, 'r0': 'nofile'})
    total, note = 0, ''
    bad = None
    for c in scen:
        runs, problem, note = strace_kills(ctx, c, ctx.scale(6, 400))
        total += runs
        if problem:
            bad = problem
            break
    if 'not available' in note or 'strace run failed' in note:
        ctx.notes.append('syscall-level kills skipped: ' + note)
    res.append({'name': 'SIGKILL injected at the N-th fdatasync/pwrite64 (%d runs; %s): file opens cleanly to a complete table' % (total, note),
                'ok': bad is None, 'case': bad, 'detail': 'after a kill inside SQLite the file held something that is not the table of any commit point',
                'replay_kind': 'crashpoint'})
    # the victims and the directory: two objects in a row on the same hostile name (the second removes the first's file)
    from pdb2sql import pdb2sql
    prob = None
    names = CRAFTED + rng.sample(all_names(), ctx.scale(40, 400))
    for nm in names:
        c = {'r0': 'nofile'}
        wd = _prepare_dir(ctx, c, nm)
        before = _listing(wd)
        cwd0 = os.getcwd()
        os.chdir(wd)
        try:
            with warnings.catch_warnings():
                warnings.simplefilter('ignore')
                def two():
                    a = pdb2sql(pdb_lines(4), sqlfile=nm)
                    a._close(rmdb=False)
                    b = pdb2sql(pdb_lines(2), sqlfile=nm)
                    b._close(rmdb=False)
                val, events = T.traced(two)
            mid = _listing(wd)
            rd, _ = read_back(os.path.join(wd, nm))
            with warnings.catch_warnings():
                warnings.simplefilter('ignore')
                val2, events2 = T.traced(lambda: pdb2sql(pdb_lines(1), sqlfile=nm)._close(rmdb=True))
            after = _listing(wd)
        finally:
            os.chdir(cwd0)
        spawned = [e for e in events + events2 if e[0] in ('os.system', 'subprocess.Popen', 'os.posix_spawn', 'os.exec', 'os.fork')]
        why = None
        if val[0] != 'ok' or val2[0] != 'ok':
            why = 'raised %r' % ((val if val[0] != 'ok' else val2)[1],)
        elif spawned:
            why = 'spawned %r' % spawned[:2]
        elif set(mid) - set(before) != {nm}:
            why = 'created %r instead of exactly %r' % (sorted(set(mid) - set(before)), nm)
        elif not (isinstance(rd, dict) and rd['n'] == 2):
            why = 'second object on the same name: reader finds %r (expected its 2 rows)' % (rd,)
        elif after != before:
            why = 'after close(remove): listing/hashes differ: %r' % sorted(set(after) ^ set(before))
        shutil.rmtree(wd, ignore_errors=True)
        if why:
            prob = {'name': nm, 'why': why}
            break
    # two objects alive on the same name at once (outside the property's scenarios: the second removes the first's file
    # under its feet, so errors are tolerated) -- still only the name and its journal may be touched, nothing spawned
    prob2 = None
    for nm in ['o.db', 'a b', '$(touch x)', "it's.db"]:
        for order in range(4):
            c = {'r0': 'nofile'}
            wd = _prepare_dir(ctx, c, nm)
            before = _listing(wd)
            cwd0 = os.getcwd()
            os.chdir(wd)
            try:
                def overlap():
                    errs = []
                    a = pdb2sql(pdb_lines(4), sqlfile=nm)
                    b = pdb2sql(pdb_lines(2), sqlfile=nm)
                    for obj, rm in ((a, order & 1), (b, order & 2)) if order < 2 else ((b, order & 1), (a, order & 2)):
                        try:
                            obj.update_column('temp', [3.0] * (4 if obj is a else 2))
                            obj._close(rmdb=bool(rm))
                        except Exception as e:      # noqa
                            errs.append(type(e).__name__)
                    return errs
                with warnings.catch_warnings():
                    warnings.simplefilter('ignore')
                    val, events = T.traced(overlap)
                after = _listing(wd)
            finally:
                os.chdir(cwd0)
            spawned = [e for e in events if e[0] in ('os.system', 'subprocess.Popen', 'os.posix_spawn', 'os.exec', 'os.fork')]
            touched = sorted(k for k in set(before) | set(after) if before.get(k) != after.get(k) and k not in (nm, nm + '-journal'))
            named = sorted({os.fsdecode(os.fspath(e[1])) for e in events if e[0] in ('isfile', 'os.remove', 'os.unlink', 'sqlite3.connect')} - {nm})
            shutil.rmtree(wd, ignore_errors=True)
            if spawned or touched or named:
                prob2 = {'name': nm, 'order': order, 'spawned': spawned[:2], 'other_files_touched': touched, 'other_names_used': named}
                break
        if prob2:
            break
    res.append({'name': 'two objects alive on one name (errors tolerated): only the name and its journal are touched, nothing spawned',
                'ok': prob2 is None, 'case': prob2, 'detail': 'file names are not treated as data', 'replay_kind': 'input'})
    res.append({'name': 'two objects in a row on %d hostile names: exactly that file created, replaced, removed; victims untouched; nothing spawned' % len(names),
                'ok': prob is None, 'case': prob, 'detail': 'file names are not treated as data', 'replay_kind': 'input'})
    res += fx_tie_checks(ctx)                       # fxTie
    return res
