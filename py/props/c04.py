"""C04 -- update: exactly the addressed cells change, to exactly the supplied values (histories of modifications)."""
import copy
import numpy as np
from props import c03 as B
from props.c03 import (STD, KIND, POOL, COLNAMES, build, jval, unjval, jrow, db_json, jkw, kw_py, canon, call, is_err, short, rand_table)

ID = 'C04'
LEVEL = 'proof'
CLUSTER = 'B'
GEN_UNITS = ['Consts', 'sql_runtime', 'sql_to_sql_value', 'sql_update_exec', 'sql_update_column_exec', 'sql_add_column_exec', 'get_runtime', 'get_get', 'get_update', 'get_update_column', 'get_add_column', 'get_update_xyz',
             'parse_runtime', 'parse_fix_chainID']
EXTRA_TARGETS = ['PdbVerif.Driver.MainA']      # the translated `_fix_chainID` is run by the cluster-A driver (Driver/ExtParse.lean)
RULE = ('Histories of 1-12 modifications (update on a selection, update_xyz, update_column with / without index and with fewer / more values than rows (zip pairing), add_column, '
        '_fix_chainID) on tables of 0-30 atoms; after EVERY step get("*") and get_colnames() of the real object are compared with '
        'the state of the Lean model (Model.step) and of the reference list-of-records model (Spec.step). Value containers: list '
        'rows, tuple rows, float64 / float32 / int64 / int32 ndarrays, NumPy scalars, NumPy str arrays. About a quarter of the '
        'steps are malformed (row count / column count mismatch, ragged value rows, unknown attribute or condition name, unknown table): they must '
        'raise and leave the state as it was. About one step in six is a QUERY (get with conditions, also on added columns) on the '
        'same object, so that answers after earlier updates, added columns and raised exceptions are compared too. A history is non-trivial when some step changed the table and some step was rejected or '
        'a later step read cells written earlier. '
        'SQL TEXT TIE (extra checks): on a further stream of histories the statement text and the data rows that update / update_xyz / '
        'update_column / add_column hand to executemany / execute (recorded by a proxy around db.c in the harness) are compared with the '
        'text / rows of the TRANSLATED builders (Gen/Sql.lean; driver ops sql_update, sql_update_column, sql_add_column), and the recorded '
        'statement is executed by MicroSql on the state before the step and compared with the state sqlite3 leaves.')
ASSUMPTIONS = ['sqlite3 binds Python int / float / str as the values they are and stores them by column affinity as Model.storeVal says '
               '(sampled on every step)',
               'NumPy carriers are converted by _to_sql_value (ndarray rows iterate to NumPy scalars): the carrier is a harness dimension, '
               'the Lean model sees the value carried']
TRUSTED = ['Tbl.declOfType (SQLite type-name rule), Tbl.numOfText, Tbl.textOfReal are shared by Spec and Model']

WRITABLE = [c for c in STD]
CARRIERS = ['list', 'tuple', 'f64', 'f32', 'i64', 'i32', 'npscalar', 'str']


def new_value(rng, key, decl=None):
    kind = KIND.get(key) or {'integer': 'int', 'real': 'real', 'numeric': 'num', 'text': 'text'}[decl]
    if kind == 'text':
        pool = POOL.get(key, ['aa', 'b', 'positive', 'Zq'])
        return rng.choice(pool + (['X', 'Q'] if key in ('chainID', 'altLoc', 'iCode') else ['X', 'Q1', 'zz']))
    if kind == 'int':
        return rng.choice([0, 1, 2, 3, 7, 12, -4, 250])
    if kind == 'num':
        return rng.choice([0, 3, -2, 1.5, 2.0, 'positive', 'neg'])
    # dyadic values (the same number in float32 and float64) and decimal ones (1.1 is a different number as float32: the
    # table must hold the number that was supplied, not its shortest decimal rendering)
    return rng.choice([0.0, 0.5, 1.25, -3.0, 7.75, 100.125, 2.0, 12.0, 1.1, -0.3, 3.14159, 27.337])


def as_carried(carrier, block):
    """the numbers a float32 carrier actually supplies (the abstract values of the operation)"""
    if carrier != 'f32':
        return block
    f = lambda v: float(np.float32(v)) if isinstance(v, float) else v
    return [[f(v) for v in r] if isinstance(r, list) else f(r) for r in block]


def carrier_ok(carrier, block):
    flat = [v for row in block for v in (row if isinstance(row, list) else [row])]
    if carrier in ('list', 'tuple', 'npscalar'):
        return True
    if not flat:
        return False
    if carrier in ('f64', 'f32'):
        return all(isinstance(v, float) for v in flat)
    if carrier in ('i64', 'i32'):
        return all(isinstance(v, int) for v in flat)
    if carrier == 'str':
        return all(isinstance(v, str) and v != '' for v in flat)
    return False


def carry(carrier, block, matrix=True):
    """abstract values -> the Python object handed to the real code"""
    if carrier == 'list':
        return [list(r) for r in block] if matrix else list(block)
    if carrier == 'tuple':
        return [tuple(r) for r in block] if matrix else tuple(block)
    if carrier == 'npscalar':
        def sc(v):
            return np.int64(v) if isinstance(v, int) else np.float64(v) if isinstance(v, float) else np.str_(v)
        return [[sc(v) for v in r] for r in block] if matrix else [sc(v) for v in block]
    dt = {'f64': np.float64, 'f32': np.float32, 'i64': np.int64, 'i32': np.int32, 'str': None}[carrier]
    return np.array(block, dtype=dt) if dt else np.array(block)


def py_holds(rows, i, kws, extras):
    """the generator's own evaluation of same-typed conditions (used only to shape the supplied values)"""
    for k, v in kws:
        neg = k.startswith('no_')
        key = k[3:] if neg else k
        vals = v if isinstance(v, list) else [v]
        if key == 'rowID':
            a = i
        elif key in STD:
            a = rows[i][STD.index(key)]
        elif key in extras:
            a = rows[i][14 + extras.index(key)]
        else:
            return False
        hit = any((type(a) is type(x) or (isinstance(a, (int, float)) and isinstance(x, (int, float)))) and a == x for x in vals)
        if hit == neg:
            return False
    return True


def same_type_cond(rng, rows, n, extras):
    key = rng.choice(['rowID', 'rowID'] + STD + extras)
    neg = 'no_' if rng.random() < 0.3 else ''
    if key == 'rowID':
        vals = rng.sample(range(n + 1), min(n + 1, rng.choice([0, 1, 2, 3, 5]))) if n else [0]
    else:
        col = STD.index(key) if key in STD else 14 + extras.index(key)
        present = [r[col] for r in rows] or [0]
        vals = [rng.choice(present) for _ in range(rng.choice([1, 1, 2, 3]))]
        if rng.random() < 0.2:
            vals.append(type(vals[0])() if not isinstance(vals[0], str) else 'none')
    if len(vals) == 1 and rng.random() < 0.5:
        return (neg + key, vals[0])
    return (neg + key, vals)


def gen_history(rng, n, nops):
    rows = rand_table(rng, n)
    trows = [list(r) for r in rows]          # the generator's own running table (shapes the values only)
    extras, edecl = [], {}
    ops = []
    used_kws = []
    for _ in range(nops):
        u = rng.random()
        malformed = rng.random() < 0.25
        if rng.random() < 0.18:
            # a query in the middle of the history: after earlier updates / added columns / raised exceptions
            names = COLNAMES + extras
            cl = rng.choice(['*', 'rowID', ','.join(rng.choice(names) for _ in range(rng.randrange(1, 4)))])
            kws = [same_type_cond(rng, trows, n, extras) for _ in range(rng.choice([0, 1, 1, 2]))]
            if len(set(k for k, _ in kws)) < len(kws):
                kws = kws[:1]
            if used_kws and rng.random() < 0.4:
                kws = list(rng.choice(used_kws))   # the same question as before, asked again after the table changed
            elif kws:
                used_kws.append(list(kws))
            if rng.random() < 0.15:
                kws.append((rng.choice(['foo', 'no_zz']), 1))
            ops.append({'name': 'get', 'columns': cl, 'tn': rng.choice(['ATOM', 'atom']), 'kw': jkw(kws), 'kind': 'query',
                        'domain': B.in_spec_domain(cl, kws, names)})
            continue
        if u < 0.45:
            cols = rng.sample(WRITABLE + extras, rng.choice([1, 1, 2, 3]))
            kws = [same_type_cond(rng, trows, n, extras) for _ in range(rng.choice([0, 1, 1, 2]))]
            if len(set(k for k, _ in kws)) < len(kws):
                kws = kws[:1]
            if used_kws and rng.random() < 0.35:
                kws = rng.choice(used_kws)         # the SAME selection keywords as an earlier operation: they mean the rows that satisfy them NOW
            sel = [i for i in range(n) if py_holds(trows, i, kws, extras)]
            if not sel and n and rng.random() < 0.8:
                kws, sel = [], list(range(n))
            if kws:
                used_kws.append(kws)
            nrow, ncol, kind = len(sel), len(cols), 'ok'
            colstr = ','.join(cols)
            if malformed:
                kind = rng.choice(['rows+1', 'rows-1', 'cols+1', 'cols-1', 'badcol', 'badkey', 'badtable', 'padcol', 'ragged', 'ragged'])
                if kind == 'rows+1': nrow += 1
                elif kind == 'rows-1': nrow = max(0, nrow - 1) if nrow > 1 else nrow + 2
                elif kind == 'cols+1': ncol += 1
                elif kind == 'cols-1': ncol = ncol - 1 if ncol > 1 else ncol + 2
                elif kind == 'badcol': colstr = rng.choice(['foo', colstr + ',foo', 'X', 'rowid'])
                elif kind == 'badkey': kws = kws + [(rng.choice(['foo', 'no_bar']), 1)]
                elif kind == 'padcol': colstr = ', '.join(cols) if len(cols) > 1 else cols[0] + ' '
            if nrow == 0:
                nrow = 1 if malformed else 0
            block = [[new_value(rng, cols[j % len(cols)], edecl.get(cols[j % len(cols)])) for j in range(ncol)] for _ in range(nrow)]
            if kind == 'ragged':
                if len(block) < 2:
                    block = block + [list(block[0])] if block else [[0.0] * ncol, [0.0] * ncol]
                j = rng.randrange(1, len(block))               # a later row of the wrong length (the first one is what the old code looked at)
                block[j] = block[j][:-1] if (rng.random() < 0.5 and len(block[j]) > 0) else block[j] + [block[j][-1] if block[j] else 0.0]
                if rng.random() < 0.3:
                    block[0], block[j] = block[j], block[0]
            carrier = rng.choice([c for c in (['list', 'tuple', 'npscalar'] if kind == 'ragged' else CARRIERS) if carrier_ok(c, block)])
            block = as_carried(carrier, block)
            op = {'name': 'update', 'columns': colstr, 'values': [jrow(r) for r in block], 'tn': 'nope' if kind == 'badtable' else rng.choice(['ATOM', 'atom']),
                  'kw': jkw(kws), 'carrier': carrier, 'kind': kind}
            if kind == 'ok' and block:
                for r, i in zip(block, sel):
                    for c, v in zip(cols, r):
                        trows[i][STD.index(c) if c in STD else 14 + extras.index(c)] = v
        elif u < 0.6:
            kws = [same_type_cond(rng, trows, n, extras) for _ in range(rng.choice([0, 1, 2]))]
            if len(set(k for k, _ in kws)) < len(kws):
                kws = kws[:1]
            if used_kws and rng.random() < 0.35:
                kws = rng.choice(used_kws)
            sel = [i for i in range(n) if py_holds(trows, i, kws, extras)]
            if kws:
                used_kws.append(kws)
            nrow, ncol, kind = len(sel), 3, 'ok'
            if malformed:
                kind = rng.choice(['rows+1', 'rows-1', 'cols-1', 'cols+1'])
                nrow = nrow + 1 if kind == 'rows+1' else (nrow - 1 if nrow > 1 else nrow + 2) if kind == 'rows-1' else nrow
                ncol = 2 if kind == 'cols-1' else 4 if kind == 'cols+1' else 3
                nrow = max(nrow, 1)
            block = [[new_value(rng, 'x') for _ in range(ncol)] for _ in range(nrow)]
            carrier = rng.choice([c for c in ['list', 'tuple', 'f64', 'f32', 'npscalar'] if carrier_ok(c, block)])
            block = as_carried(carrier, block)
            op = {'name': 'update_xyz', 'values': [jrow(r) for r in block], 'tn': rng.choice(['ATOM', 'atom']), 'kw': jkw(kws), 'carrier': carrier, 'kind': kind}
            if kind == 'ok':
                for r, i in zip(block, sel):
                    trows[i][7:10] = r
        elif u < 0.8:
            c = rng.choice(WRITABLE + extras)
            kind = 'ok'
            if rng.random() < 0.5 or n == 0:
                idx, m = None, n
            else:
                idx = rng.sample(range(n), rng.randrange(0, n + 1))
                if idx and rng.random() < 0.2:
                    idx[rng.randrange(len(idx))] = rng.choice([n, n + 3, -1])     # not a position: addresses nothing
                m = len(idx)
            if rng.random() < 0.3:
                m = max(0, m + rng.choice([-2, -1, 1, 2]))          # fewer / more values than rows or indices: zip pairs what there is
                kind = 'zip-shorter-or-longer'
            vals = [new_value(rng, c, edecl.get(c)) for _ in range(m)]
            if malformed:
                kind = rng.choice(['badcol', 'badtable'])
            carrier = rng.choice([x for x in CARRIERS if carrier_ok(x, vals)])
            icarrier = rng.choice(['list', 'i64', 'npscalar'])
            vals = as_carried(carrier, vals)
            op = {'name': 'update_column', 'colname': 'foo' if kind == 'badcol' else c, 'values': jrow(vals), 'tn': 'nope' if kind == 'badtable' else 'ATOM',
                  'carrier': carrier, 'icarrier': icarrier, 'kind': kind}
            if idx is not None:
                op['index'] = idx
            if kind in ('ok', 'zip-shorter-or-longer'):
                for v, i in zip(vals, idx if idx is not None else range(n)):
                    if 0 <= i < n:
                        trows[i][STD.index(c) if c in STD else 14 + extras.index(c)] = v
        elif u < 0.93:
            name = rng.choice(['foo', 'bar', 'score', 'idx', 'Tag'])
            ty, v = rng.choice([('FLOAT', 0), ('FLOAT', 1.5), ('INT', 5), ('REAL', 5), ('REAL', -2.25), ('TEXT', 'positive'), ('str', 'positive'),
                                ('str', 3), ('INT', 2.0), ('TEXT', 7), ('varchar', 'ab'), ('double', 3), ('NUMERIC', 2.5)])
            kind = 'dup' if name in extras else 'ok'
            if malformed and rng.random() < 0.5:
                name, kind = rng.choice(['x', 'X', 'serial', 'Model']), 'dup'
            op = {'name': 'add_column', 'colname': name, 'coltype': ty, 'value': jval(v), 'tn': 'ATOM', 'kind': kind}
            if kind == 'ok':
                decl = B_decl(ty)
                extras.append(name); edecl[name] = decl
                sv = float(v) if decl == 'real' and isinstance(v, int) else int(v) if decl in ('integer', 'numeric') and isinstance(v, float) and v == int(v) else str(v) if decl == 'text' else v
                for r in trows:
                    r.append(sv)
        else:
            op = {'name': 'fix_chainID', 'kind': 'ok'}
            ids = sorted(set(r[4] for r in trows))
            for r in trows:
                r[4] = 'ABCDEFGHIJKLMNOPQRSTUVWXYZ'[ids.index(r[4])]
        ops.append(op)
    return rows, ops


def B_decl(ty):
    u = ty.upper()
    if 'INT' in u: return 'integer'
    if any(x in u for x in ('CHAR', 'CLOB', 'TEXT')): return 'text'
    if any(x in u for x in ('REAL', 'FLOA', 'DOUB')): return 'real'
    return 'numeric'


def cases(ctx):
    rng = ctx.rng
    out = []
    for h in range(ctx.scale(1200, 8000)):
        n = rng.choice([0, 1, 2, 3, 4, 6, 8, 12, 20, 30])
        nops = rng.randrange(1, 13)
        rows, ops = gen_history(rng, n, nops)
        out.append({'op': 'hist', 'db': db_json([('atom', rows)]), 'ops': ops, 'family': 'history'})
    return out


def search_cases(ctx):
    rng = ctx.rng
    out = []
    for h in range(ctx.scale(400, 3000)):
        rows, ops = gen_history(rng, rng.choice([2, 3, 5, 9]), rng.randrange(1, 4))
        out.append({'op': 'hist', 'db': db_json([('atom', rows)]), 'ops': ops, 'family': 'short-history'})
    return out


def driver_line(c):
    d = {k: v for k, v in c.items() if k != 'family'}
    d['ops'] = [{k: v for k, v in o.items() if k not in ('carrier', 'icarrier', 'kind', 'domain')} for o in c['ops']]
    return d


def observe(db):
    names = db._get_table_names()
    return {'tabs': [{'rows': canon(db.get('*', tablename=n))} for n in names], 'colnames': db.get_colnames()}


def apply_op(db, o):
    name = o['name']
    if name == 'get':
        return ('answer', db.get(o['columns'], tablename=o['tn'], **kw_py(o['kw'])))
    if name == 'update':
        vals = carry(o['carrier'], [[unjval(v) for v in r] for r in o['values']])
        return db.update(o['columns'], vals, tablename=o['tn'], **kw_py(o['kw']))
    if name == 'update_xyz':
        vals = carry(o['carrier'], [[unjval(v) for v in r] for r in o['values']])
        return db.update_xyz(vals, tablename=o['tn'], **kw_py(o['kw']))
    if name == 'update_column':
        vals = carry(o['carrier'], [unjval(v) for v in o['values']], matrix=False)
        idx = o.get('index')
        if idx is not None:
            ic = o.get('icarrier', 'list')
            idx = np.array(idx, dtype=np.int64) if ic == 'i64' and idx else [np.int64(i) for i in idx] if ic == 'npscalar' else list(idx)
        return db.update_column(o['colname'], vals, index=idx, tablename=o['tn'])
    if name == 'add_column':
        return db.add_column(o['colname'], coltype=o['coltype'], value=unjval(o['value']), tablename=o['tn'])
    if name == 'fix_chainID':
        return db._fix_chainID()
    raise ValueError(name)


def run_history(c, cls=None):
    rows = [[unjval(v) for v in r] for r in c['db']['tabs'][0]['rows']]
    db = build(rows)
    B.check_parse(db, rows, tn='atom')
    steps = []
    for o in c['ops']:
        r = call(lambda: apply_op(db, o))
        out = r if is_err(r) else canon(r[1]) if isinstance(r, tuple) and r and r[0] == 'answer' else 'ok'
        steps.append({'out': out, 'db': call(lambda: observe(db))})
    return steps


def impl(ctx, c):
    return run_history(c)


# ---------------------------------------------------------------------------------------------------------
# the SQL text tie: what update / update_column / add_column send to SQLite vs the translated builders
# ---------------------------------------------------------------------------------------------------------

def sql_text_checks(ctx):
    import vlib
    rng = ctx.rng
    lines, meta = [], []               # text + rows comparisons
    xlines, xmeta = [], []             # MicroSql execution of the recorded statement vs the state sqlite3 leaves
    counts = {'update': 0, 'update_column': 0, 'add_column': 0, 'raised-before-sql': 0}
    for h in range(ctx.scale(120, 800)):
        n = rng.choice([1, 2, 3, 4, 6, 8, 12])
        rows, ops = gen_history(rng, n, rng.randrange(1, 9))
        db = build(rows)
        extra = []
        for o in ops:
            name = o['name']
            if name not in ('update', 'update_xyz', 'update_column', 'add_column'):
                call(lambda: apply_op(db, o))
                continue
            before = call(lambda: observe(db))
            dbj = {'tabs': [{'name': 'atom', 'rows': before['tabs'][0]['rows']}], 'extra': list(extra), 'nModel': 0} if isinstance(before, dict) else None
            rowID = None
            if name in ('update', 'update_xyz'):
                rowID = call(lambda: db.get('rowID', tablename=o['tn'], **kw_py(o['kw'])))
            out, log = B.recorded(db, lambda: apply_op(db, o))
            after = call(lambda: observe(db))
            sent = [e for e in log if e[0] == 'executemany' or e[1].startswith('ALTER')]
            if name == 'add_column' and not is_err(out):
                extra.append({'name': o['colname'], 'decl': B_decl(o['coltype'])})
            if not sent:
                counts['raised-before-sql'] += 1
                continue
            e = sent[-1]
            if name in ('update', 'update_xyz'):
                if is_err(rowID):
                    continue
                cs = 'x,y,z' if name == 'update_xyz' else o['columns']
                case = {'op': 'sql_update', 'tn': o['tn'], 'columns': cs.split(',') if ',' in cs else [cs], 'values': o['values'], 'rowID': rowID}
                got = {'text': e[1], 'rows': [[jval(x) for x in r] for r in e[2]]}
                counts['update'] += 1
            elif name == 'update_column':
                case = {'op': 'sql_update_column', 'tn': o['tn'], 'colname': o['colname'], 'values': o['values']}
                if o.get('index') is not None:
                    case['index'] = o['index']
                got = {'text': e[1], 'rows': [[jval(x) for x in r] for r in e[2]]}
                counts['update_column'] += 1
            else:
                v = unjval(o['value'])
                case = {'op': 'sql_add_column', 'tn': o['tn'], 'colname': o['colname'], 'coltype': o['coltype'], 'value': o['value'], 'value_str': str(v)}
                got = e[1]
                counts['add_column'] += 1
            lines.append(case); meta.append((case, got))
            if dbj is not None and isinstance(after, dict):
                if e[0] == 'executemany':
                    xlines.append({'op': 'sql_executemany', 'db': dbj, 'text': e[1], 'rows': [[jval(x) for x in r] for r in e[2]]})
                else:
                    xlines.append({'op': 'sql_alter', 'db': dbj, 'text': e[1]})
                xmeta.append((e, out, after))
    ans = vlib.run_driver(lines + xlines, which='model', cluster=CLUSTER) if lines or xlines else []
    res = []
    bad = None
    for (case, got), a in zip(meta, ans[:len(lines)]):
        if a.get('model') != got and bad is None:
            bad = {'case': case, 'real code sends': got, 'translated builder': a.get('model')}
    res.append({'name': f'SQL text and data rows of update / update_column / add_column: real code = translated builder ({counts})',
                'ok': bad is None and len(meta) > 30, 'case': bad, 'detail': 'Gen/Sql.lean update_exec / update_column_exec / add_column_exec',
                'kind': 'sql-text'})
    bad, nx, disc = None, 0, 0
    for (e, out, after), a in zip(xmeta, ans[len(lines):]):
        m = a.get('model')
        if isinstance(m['out'], str) and m['out'].startswith('ERR:UNMODELLED'):
            disc += 1
            continue
        nx += 1
        real_out = out if is_err(out) else 'ok'
        if (m['out'] != real_out or strip_names(m['db']) != after) and bad is None:
            bad = {'statement': e[1], 'rows': short(e[2]), 'sqlite3': [real_out, short(after)], 'MicroSql': [m['out'], short(strip_names(m['db']))]}
    res.append({'name': f'MicroSql = sqlite3 on every recorded UPDATE / ALTER TABLE ({nx} statements, {disc} outside the model)',
                'ok': bad is None and nx > 30, 'case': bad, 'detail': 'Model/MicroSql.lean is the SQLite contract of Props/C04K', 'kind': 'microsql'})
    return res


# ---- parseTie: translated `_fix_chainID` (Gen/ParseLoop.lean) against the real code ---------------------------------------------
def gen_fix_chainID_tie_checks(ctx):
    """implementation = generated: the `update_column` call the real `_fix_chainID` makes (recorded by wrapping the method), the
    exception class and the table afterwards, against `GenP._fix_chainID` run on the same table by the Lean driver (cluster A)"""
    import vlib, string
    rng = ctx.rng
    lines, reals = [], []
    many = list(string.ascii_uppercase + string.ascii_lowercase + string.digits)
    nrand = ctx.scale(80, 800)
    for k in range(nrand + 4):
        n = rng.choice([0, 1, 2, 3, 5, 8, 12, 30, 40])
        rows = rand_table(rng, n, rng.choice([0, 0, 0, 0, 0, 2, 3]))
        mode = rng.random()
        if k >= nrand:                                   # exactly 25 / 26 / 27 / 30 distinct chains: the exit is at more than 26
            m = [25, 26, 27, 30][k - nrand]
            rows = rand_table(rng, m + 3, 0)
            for i, r in enumerate(rows):
                r[4] = many[(i * 7) % m]
        elif mode < 0.25:
            pool = rng.sample(many, rng.choice([1, 2, 5, 25, 26, 27, 30]))
            for r in rows:
                r[4] = rng.choice(pool)
        elif mode < 0.35:
            for r in rows:
                r[4] = rng.choice(['A', 'AB', 'B2', 'seg', 'a'])      # longer identifiers come from the segID fallback of the parser
        db = call(lambda: build(rows))
        if is_err(db):
            continue
        rows0 = [list(r) for r in db.c.execute('select * from ATOM')]
        calls = []
        orig = db.update_column

        def rec(colname, values, index=None, tablename='ATOM', _c=calls, _o=orig):
            _c.append([colname, canon(list(values)), tablename])
            return _o(colname, values, index=index, tablename=tablename)
        db.update_column = rec
        r = call(lambda: db._fix_chainID())
        after = canon([list(x) for x in db.c.execute('select * from ATOM')])
        reals.append({'result': r if is_err(r) else 'ok', 'calls': calls, 'rows': after})
        lines.append({'op': 'gen_fix_chainID', 'db': db_json([('ATOM', rows0)], nmodel=db._nModel)})
        call(lambda: db._close())
    ans = vlib.run_driver(lines, which='model', cluster='A') if lines else []
    bad, nok, nexit, ntype = None, 0, 0, 0
    for line, real, a in zip(lines, reals, ans):
        g = a.get('model')
        if a.get('driver_error') or not isinstance(g, dict):
            bad = bad or {'db': short(line['db']), 'generated': str(a)[:400]}
            continue
        if isinstance(g['result'], str) and g['result'].startswith('ERR:UNMODELLED'):
            continue
        gcalls = g['calls'] if isinstance(g['calls'], list) else []
        grows = g['db']['tabs'][0]['rows'] if g['db']['tabs'] else []
        same = (real['result'] == g['result'] and real['calls'] == gcalls and real['rows'] == grows)
        if not isinstance(g['calls'], list) and real['result'] != g['calls']:
            same = False
        nok += real['result'] == 'ok'
        nexit += real['result'] == 'ERR:Other:SystemExit'
        ntype += real['result'] == 'ERR:TypeError'
        if not same:
            bad = bad or {'db': short(line['db']), 'real': short(real), 'generated': short(g)}
    return [{'name': f'gen:_fix_chainID update_column call, exception, table afterwards = implementation ({len(lines)} tables: {nok} renamed, '
                     f'{nexit} with more than 26 chains, {ntype} multi-model)',
             'ok': bad is None and nok > 10 and nexit > 0 and ntype > 0, 'case': bad,
             'detail': 'GenP._fix_chainID (translated on this run) run on the table model by the cluster-A driver', 'kind': 'gen-fix-chainID'}]


# ---- getTie: begin -----------------------------------------------------------------------------------------------------
def gen_update_checks(ctx):
    """the WHOLE translated `update` / `update_xyz` / `update_column` / `add_column` (Gen/Get.lean `GenG.*`: validation, per-model
    loop, shape checks before anything is modified, `get('rowID')` through the translated `get`, statement and rows run by MicroSql)
    against the real code on the property's own histories: after every step the outcome and the whole database"""
    import vlib
    cs = cases(ctx)
    sample = ctx.rng.sample(cs, min(ctx.scale(120, 600), len(cs)))
    lines, outs = [], []
    for c in sample:
        outs.append(impl(ctx, c))
        d = driver_line(c)
        d['op'] = 'g_hist'
        for o in d['ops']:
            if o['name'] == 'add_column':
                o['value_str'] = str(unjval(o['value']))
        lines.append(d)
    ans = vlib.run_driver(lines, which='model', cluster=CLUSTER) if lines else []
    bad, n, disc, kinds = None, 0, 0, {}
    for c, out, a in zip(sample, outs, ans):
        m = a.get('model')
        if not isinstance(m, dict) or 'gen' not in m:
            bad = bad or {'ops': short([o['name'] for o in c['ops']]), 'driver': short(m)}
            continue
        v = agree_model(c, out, m['gen'])
        if v == 'discard':
            disc += 1
            continue
        n += 1
        for o, s in zip(c['ops'], out):
            kk = o['name'] + (':err' if is_err(s['out']) else '')
            kinds[kk] = kinds.get(kk, 0) + 1
        if v is not True and bad is None:
            bad = {'ops': short([{k: x for k, x in o.items() if k != 'values'} for o in c['ops']], 900), 'disagreement': v}
    return [{'name': f'whole update / update_xyz / update_column / add_column: real code = GENERATED GenG.* on {n} histories (steps: {kinds}; {disc} outside MicroSql)',
             'ok': bad is None and n > 40, 'case': bad,
             'detail': 'Gen/Get.lean (py/translate_ext_get.py): the methods translated whole, their effects run by MicroSql', 'kind': 'gen-get'}]
# ---- getTie: end -------------------------------------------------------------------------------------------------------


def extra_checks(ctx):
    return sql_text_checks(ctx) + gen_fix_chainID_tie_checks(ctx) + gen_update_checks(ctx)   # last term: getTie


def strip_names(dbj):
    if not isinstance(dbj, dict):
        return dbj
    return {'tabs': [{'rows': t['rows']} for t in dbj['tabs']], 'colnames': dbj['colnames']}


def agree_model(c, out, model):
    for k, (a, m) in enumerate(zip(out, model)):
        if isinstance(m['out'], str) and m['out'].startswith('ERR:UNMODELLED'):
            return 'discard'
        if a['out'] != m['out']:
            return f'step {k} ({c["ops"][k]["name"]}): implementation {a["out"]} model {m["out"]}'
        if a['db'] != strip_names(m['db']):
            return f'step {k} ({c["ops"][k]["name"]}): state after the step differs: implementation {short(a["db"])} model {short(strip_names(m["db"]))}'
    return True


def eqv(a, b):
    """equal in value: 5 == 5.0"""
    if isinstance(a, list) and isinstance(b, list):
        return len(a) == len(b) and all(eqv(x, y) for x, y in zip(a, b))
    if isinstance(a, dict) and isinstance(b, dict) and set(a) == set(b) == {'r'}:
        return B.unrat(a['r']) == B.unrat(b['r'])
    if isinstance(a, dict) and 'r' in a and isinstance(b, int):
        return B.unrat(a['r']) == b
    if isinstance(b, dict) and 'r' in b and isinstance(a, int):
        return B.unrat(b['r']) == a
    if isinstance(a, dict) and isinstance(b, dict):
        return set(a) == set(b) and all(eqv(a[k], b[k]) for k in a)
    return a == b and type(a) is type(b)


def agree_spec(c, out, spec):
    prev = {'tabs': [{'rows': c['db']['tabs'][0]['rows']}], 'colnames': COLNAMES}
    for k, (a, s) in enumerate(zip(out, spec)):
        what = f'step {k} ({c["ops"][k]["name"]}, {c["ops"][k].get("kind")})'
        if s['out'] == 'outside':
            return True
        if s['out'] == 'answer':
            if c['ops'][k].get('domain', True):
                r = B.agree_answer_spec(a['out'], s['answer'])
                if r is not True:
                    return f'{what}: {r}'
            if not eqv(a['db'], prev):
                return f'{what}: a query changed the table'
            continue
        if s['out'] == 'reject':
            if a['out'] == 'ok':
                return f'{what}: accepted where the property demands an error'
            if not eqv(a['db'], prev):
                return f'{what}: raised {a["out"]} AFTER modifying the table: before {short(prev)} after {short(a["db"])}'
        else:
            if a['out'] != 'ok':
                return f'{what}: raised {a["out"]} on a well-formed call'
            if not eqv(a['db'], strip_names(s['db'])):
                return f'{what}: table differs from the list-of-records model: implementation {short(a["db"])} reference {short(strip_names(s["db"]))}'
        prev = a['db']
    return True


def nontrivial_key(c, out):
    changed = any(i > 0 and out[i]['db'] != out[i - 1]['db'] for i in range(1, len(out))) or (out and out[0]['db'].get('tabs', [{}])[0].get('rows') != c['db']['tabs'][0]['rows'])
    if not changed:
        return None
    return B_hash(c)


def B_hash(c):
    import vlib
    return vlib.case_hash({'db': c['db'], 'ops': c['ops']})


def outside_notes():
    """behaviour outside the property's quantifiers, kept out of the Spec comparison (listed in the cluster report)"""
    rows = [[i + 1, 'CA', '', 'ALA', 'A', i, '', float(i), 0.0, 0.0, 1.0, 0.0, 'C', 0] for i in range(4)]
    db = build(rows)
    r = call(lambda: db.update('rowID', [[7]], rowID=[0]))
    return [{'what': 'update("rowID", [[7]], rowID=[0]) is accepted and renumbers the row (rowID is a position, not an attribute to update)',
             'observed': r is None and db.get('rowID') == [1, 2, 3, 6]}]


def distribution(recs):
    nops, kinds, outs, carriers, sizes = {}, {}, {}, {}, {}
    for r in recs:
        c = r['case']
        nops[len(c['ops'])] = nops.get(len(c['ops']), 0) + 1
        n = len(c['db']['tabs'][0]['rows'])
        sizes[n] = sizes.get(n, 0) + 1
        for o, st in zip(c['ops'], r['impl'] if isinstance(r['impl'], list) else []):
            k = o['name'] + ':' + o.get('kind', '')
            kinds[k] = kinds.get(k, 0) + 1
            tag = st['out'] if isinstance(st['out'], str) else 'answer'
            outs[tag] = outs.get(tag, 0) + 1
            if 'carrier' in o:
                carriers[o['carrier']] = carriers.get(o['carrier'], 0) + 1
    return {'history_lengths': nops, 'table_sizes': sizes, 'steps_by_kind': dict(sorted(kinds.items())), 'step_outcomes': outs,
            'value_carriers': carriers, 'outside_the_quantifiers': outside_notes()}
