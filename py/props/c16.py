"""C16 -- computations depend on their arguments only: no stray files, safe concurrently.

Tie #2 for the hand-written effect programs of Model/Effects.lean: every routine of the property is run for real in a
fresh working directory with an audit hook (open / os.remove / os.rename / os.system / subprocess.Popen /
sqlite3.connect / tempfile.mkstemp ...) and wrappers around os.path.isfile / os.path.exists; the recorded trace is
canonicalised to roles (decoy, ref, zone, tmp, out1, out2, other:<name>) and must be *equal* to `Prog.trace` of the
model's program for that routine and option set (Lean driver, op effects_<routine>); the Spec driver judges the same
observed trace with `Spec.C16.traceOk`.  Directory snapshots (names, sizes, hashes) before/after; every case is run in
an empty directory and in one pre-seeded with files named like the library's old scratch files; values must agree.

Concurrency exploration (supporting, not the proof): a deterministic scheduler blocks every task thread inside the
audit hook, so interleavings are enumerated at file-system-operation granularity; it runs in a child process under a
watchdog (a hang is exit 2, never a VIOLATION).  Each explored schedule is also replayed in the model (op sched_run).
"""
import os, sys, json, time, hashlib, shutil, threading, subprocess, itertools, random, math, re, traceback, warnings

import vlib
from vlib import exc_tag

ID = 'C16'
LEVEL = 'proof'
CLUSTER = 'F'
GEN_UNITS = ['Effects', 'fx_write_zone', 'fx_read_zone_io', 'fx_lrmsd_fast_zone', 'fx_irmsd_fast_zone', 'fx_izone_rowid', 'fx_lzone_save',
             'fx_izone_save', 'fx_pairs_save', 'fx_lrmsd_sql_export', 'fx_irmsd_sql_export', 'fx_exportpdb', 'fx_close']
PIN_TARGETS = ['PdbVerif.Pins.F']
RULE = ('every routine of the property (six score routines, clashes, contacts, superpose, align, reference pairs, '
        'l-zone, i-zone) x zone argument (none | named file absent -> written | present -> read | garbage) x check '
        'on/off x export on/off x input missing x residue-mismatch error, on generated two-chain complexes (thorough: '
        'also the bundled 1AK4 pair); each run twice: empty directory and directory pre-seeded with decoy.db, ref.db, '
        'x.izone, x.lzone, *.tmp. A case is non-trivial when distinct by (routine, options, observed trace).')
ASSUMPTIONS = ['one audited call (open+readlines, os.replace, mkstemp) is indivisible; os.replace is atomic; a write '
               'through an open descriptor goes to that file only (OS facts: clauses of Spec.C16.Prog.step)',
               'Python audit events cover the file effects of the library (C-level writes by sqlite3 to a *file* database '
               'would appear as sqlite3.connect(<file>), which the footprint forbids)',
               'zone round trip parse(render z) = z is a hypothesis of noninterference (C09; chain id "-" is excluded there)']
TRUSTED = ['interleaving exploration is sampling (all interleavings at shared-file operations for the listed routine pairs, '
           'bounded preemptions in the quick tier); the proof is Props.C16.noninterference']

# ---------------------------------------------------------------------------------------------------------------
# tracing
# ---------------------------------------------------------------------------------------------------------------

_WATCHED = {'open', 'os.remove', 'os.unlink', 'os.rename', 'os.system', 'subprocess.Popen', 'sqlite3.connect',
            'tempfile.mkstemp', 'os.posix_spawn', 'os.exec', 'os.fork', 'os.forkpty', 'os.spawn', 'os.truncate', 'os.rmdir',
            'os.mkdir', 'os.link', 'os.symlink', 'os.chmod', 'os.chown', 'shutil.copyfile', 'shutil.move', 'shutil.rmtree',
            'os.listdir', 'os.scandir', 'os.startfile', 'pty.spawn', 'shutil.copymode', 'shutil.copystat', 'os.utime',
            'os.mkfifo', 'os.mknod', 'tempfile.mkdtemp'}
_STATE = {'installed': False}
_tls = threading.local()
_orig_isfile, _orig_exists = os.path.isfile, os.path.exists


class Recorder:
    """per-thread event list; `gate` (optional) is called before each recorded event (the scheduler's yield point)"""
    def __init__(self, gate=None):
        self.events = []
        self.gate = gate

    def add(self, ev):
        if self.gate is not None:
            self.gate(ev)
        self.events.append(ev)


def _ignorable(ev):
    """reads of Python's own files (lazy imports, linecache for warnings) are not effects of the routine"""
    kind = ev[0]
    if kind == 'open':
        path, mode = ev[1], ev[2]
        if isinstance(path, int):
            return False
        p = str(path)
        readonly = mode in ('r', 'rb') or (mode is None and isinstance(ev[3], int) and (ev[3] & (os.O_WRONLY | os.O_RDWR | os.O_CREAT)) == 0)
        if readonly and (p.endswith(('.py', '.pyc', '.so', '.pyi', '.pth')) or '/site-packages/' in p or p.startswith((sys.base_prefix, '/usr/lib', '/usr/share', '/etc/'))):
            return True
    if kind in ('os.listdir', 'os.scandir'):
        p = str(ev[1])
        if '/site-packages' in p or p.startswith((sys.base_prefix, '/usr/lib', '/repo/pdb2sql')) or p.endswith('/pdb2sql'):
            return True
    return False


def _hook(event, args):
    rec = getattr(_tls, 'rec', None)
    if rec is None or event not in _WATCHED:
        return
    if getattr(_tls, 'busy', False):
        return
    _tls.busy = True
    try:
        ev = (event,) + tuple(args)
        if not _ignorable(ev):
            rec.add(ev)
    finally:
        _tls.busy = False


def _isfile(p):
    rec = getattr(_tls, 'rec', None)
    if rec is not None and not getattr(_tls, 'busy', False):
        _tls.busy = True
        try:
            rec.add(('isfile', p))
        finally:
            _tls.busy = False
    return _orig_isfile(p)


def _exists(p):
    rec = getattr(_tls, 'rec', None)
    if rec is not None and not getattr(_tls, 'busy', False):
        _tls.busy = True
        try:
            rec.add(('exists', p))
        finally:
            _tls.busy = False
    return _orig_exists(p)


def _note(ev):
    rec = getattr(_tls, 'rec', None)
    if rec is not None and not getattr(_tls, 'busy', False):
        _tls.busy = True
        try:
            rec.add(ev)
        finally:
            _tls.busy = False


class _WProxy:
    """a file opened for writing by a traced thread.  A `write` raises no audit event, so the proxy makes the first
    write after the open, every flush and the close yield points of the scheduler (data reaches the file at flush /
    close: "reader runs after the writer's replace but before its close" must be explorable), and records them, so
    that the order of close relative to os.replace is part of the compared trace."""
    def __init__(self, f, path):
        object.__setattr__(self, '_f', f)
        object.__setattr__(self, '_p', path)
        object.__setattr__(self, '_noted', False)

    def write(self, data):
        if not self._noted:
            object.__setattr__(self, '_noted', True)
            _note(('write', self._p))
        return self._f.write(data)

    def writelines(self, lines):
        if not self._noted:
            object.__setattr__(self, '_noted', True)
            _note(('write', self._p))
        return self._f.writelines(lines)

    def flush(self):
        _note(('write', self._p))
        return self._f.flush()

    def close(self):
        if not self._f.closed:
            _note(('write', self._p))
        return self._f.close()

    def __enter__(self):
        return self

    def __exit__(self, *a):
        self.close()
        return False

    def __iter__(self):
        return iter(self._f)

    def __getattr__(self, n):
        return getattr(self._f, n)


import builtins
_orig_open = builtins.open


def _open(file, mode='r', *a, **k):
    f = _orig_open(file, mode, *a, **k)
    if getattr(_tls, 'rec', None) is not None and not getattr(_tls, 'busy', False) and isinstance(mode, str) \
            and any(ch in mode for ch in 'wax+') and isinstance(file, (str, bytes, os.PathLike)):
        return _WProxy(f, os.fspath(file))
    return f


_orig_fdopen = os.fdopen


def _fdopen(fd, mode='r', *a, **k):
    f = _orig_fdopen(fd, mode, *a, **k)
    if getattr(_tls, 'rec', None) is not None and not getattr(_tls, 'busy', False) and isinstance(mode, str) \
            and any(ch in mode for ch in 'wax+') and isinstance(fd, int):
        try:
            path = os.readlink('/proc/self/fd/%d' % fd)
        except OSError:
            path = 'fd:%d' % fd
        return _WProxy(f, path)
    return f


def install():
    """the audit hook cannot be removed: it is installed once and does nothing for threads without a recorder"""
    if not _STATE['installed']:
        sys.addaudithook(_hook)
        os.path.isfile = _isfile
        os.path.exists = _exists
        builtins.open = _open
        os.fdopen = _fdopen
        _STATE['installed'] = True


def traced(fn, gate=None):
    """run fn() in this thread with recording on; returns (value | exception, events)"""
    install()
    rec = Recorder(gate)
    _tls.rec = rec
    try:
        try:
            val = ('ok', fn())
        except BaseException as e:            # noqa
            if isinstance(e, (KeyboardInterrupt, SystemExit)):
                raise
            val = ('exc', e)
    finally:
        _tls.rec = None
    return val, rec.events


# ---------------------------------------------------------------------------------------------------------------
# inputs: small two-chain complexes
# ---------------------------------------------------------------------------------------------------------------

_RES = ['ALA', 'GLY', 'SER', 'LEU', 'VAL', 'THR', 'LYS', 'ASP']
_BB = [('N', 'N', (-0.5, 0.9, 0.2)), ('CA', 'C', (0.0, 0.0, 0.0)), ('C', 'C', (1.3, 0.4, -0.3)), ('O', 'O', (1.6, 1.5, -0.6)),
       ('CB', 'C', (-0.6, -1.1, -0.9))]


def _line(serial, name, resn, chain, resseq, x, y, z, elem):
    nm = (' ' + name).ljust(4) if len(name) < 4 else name
    return 'ATOM  %5d %4s %3s %1s%4d    %8.3f%8.3f%8.3f%6.2f%6.2f          %2s  ' % (serial, nm, resn, chain, resseq, x, y, z, 1.0, 10.0, elem)


def make_complex(rng, nA, nB, start=(1, 1), chains=('A', 'B')):
    """reference: two strands 4.2 A apart (so that the interface is not empty); returns list of (chain, resseq, resname, atoms)"""
    res = []
    for ci, (n, y0) in enumerate(((nA, 0.0), (nB, 4.2))):
        for i in range(n):
            ca = (3.8 * i + (0.9 if ci else 0.0) + rng.uniform(-0.2, 0.2), y0 + rng.uniform(-0.3, 0.3), rng.uniform(-0.4, 0.4) + (0.6 * (i % 2)))
            atoms = [(nm, el, (ca[0] + d[0] * (1 if ci == 0 else -1), ca[1] + d[1] * (1 if ci == 0 else -1), ca[2] + d[2])) for nm, el, d in _BB]
            res.append((chains[ci], start[ci] + i, rng.choice(_RES), atoms))
    return res


def _rot(rng, ang):
    ax = [rng.gauss(0, 1) for _ in range(3)]
    n = math.sqrt(sum(a * a for a in ax)) or 1.0
    x, y, z = (a / n for a in ax)
    c, s = math.cos(ang), math.sin(ang)
    C = 1 - c
    return [[c + x * x * C, x * y * C - z * s, x * z * C + y * s], [y * x * C + z * s, c + y * y * C, y * z * C - x * s], [z * x * C - y * s, z * y * C + x * s, c + z * z * C]]


def perturb(rng, res, noise=0.3, move_b=1.5):
    """decoy: chain B moved rigidly a little, every atom jittered"""
    R = _rot(rng, rng.uniform(0.05, 0.3))
    t = [rng.uniform(-move_b, move_b) * 0.3 for _ in range(3)]
    out = []
    for ch, rs, rn, atoms in res:
        na = []
        for nm, el, (x, y, z) in atoms:
            if ch != res[0][0]:
                x, y, z = (R[0][0] * x + R[0][1] * y + R[0][2] * z + t[0], R[1][0] * x + R[1][1] * y + R[1][2] * z + t[1], R[2][0] * x + R[2][1] * y + R[2][2] * z + t[2])
            na.append((nm, el, (x + rng.gauss(0, noise), y + rng.gauss(0, noise), z + rng.gauss(0, noise))))
        out.append((ch, rs, rn, na))
    return out


def pdb_text(res):
    lines, k = [], 1
    for ch, rs, rn, atoms in res:
        for nm, el, (x, y, z) in atoms:
            lines.append(_line(k, nm, rn, ch, rs, x, y, z, el))
            k += 1
    return '\n'.join(lines) + '\nEND\n'


# ---------------------------------------------------------------------------------------------------------------
# the routines
# ---------------------------------------------------------------------------------------------------------------

ROUTINES = ['lrmsd_fast', 'irmsd_fast', 'lrmsd_sql', 'irmsd_sql', 'fnat_fast', 'fnat_sql', 'clashes', 'contacts',
            'superpose', 'align', 'pairs_ref', 'lzone', 'izone']


def _import_lib():
    from pdb2sql import StructureSimilarity, superpose, align          # noqa
    from pdb2sql.interface import interface                            # noqa
    return StructureSimilarity, superpose, align, interface


PRIORS = ['fnat_fast', 'lrmsd_fast_nocheck', 'irmsd_sql', 'raise_missing_izone', 'lrmsd_sql', 'irmsd_fast_quaternion', 'raise_chainid_kw']


def run_priors(sim, names):
    """earlier calls on the same object (none of them is asked to write anything); one kind raises"""
    out = []
    for nm in names:
        try:
            if nm == 'fnat_fast':
                sim.compute_fnat_fast()
            elif nm == 'lrmsd_fast_nocheck':
                sim.compute_lrmsd_fast(check=False)
            elif nm == 'irmsd_sql':
                sim.compute_irmsd_pdb2sql()
            elif nm == 'raise_missing_izone':
                sim.compute_irmsd_pdb2sql(izone='no_such_file.izone')
            elif nm == 'lrmsd_sql':
                sim.compute_lrmsd_pdb2sql(method='quaternion')
            elif nm == 'irmsd_fast_quaternion':
                sim.compute_irmsd_fast(method='quaternion', cutoff=7.5)
            elif nm == 'raise_chainid_kw':
                sim.compute_lrmsd_pdb2sql(chainID='A')
            out.append('ok')
        except Exception as e:          # noqa
            out.append(type(e).__name__)
    return out


def make_sim(c, paths):
    SS, _, _, _ = _import_lib()
    enforce = c.get('fail') == 'residues'       # residue mismatch + enforcement -> ValueError in check_residues
    return SS(paths['decoy'], paths['ref'], enforce_residue_matching=enforce)


def call_routine(c, paths, sim=None):
    """the real call for case c; paths: dict decoy, ref, zone, exportdir, out1 (for pairs_ref)"""
    import pathlib
    SS, superpose, align, interface = _import_lib()
    r = c['op'][len('effects_'):]
    if sim is None:
        sim = make_sim(c, paths)
    zone = paths.get('zone') if c.get('zone', 'none') != 'none' else None
    if zone is not None and c.get('zone_kind') == 'path':
        zone = pathlib.Path(zone)
    exp = paths.get('exportdir') if c.get('exports', 0) else None
    mkw = {'method': c['method']} if c.get('method') else {}
    if r == 'lrmsd_fast':
        return sim.compute_lrmsd_fast(lzone=zone, check=c.get('check', True), **mkw)
    if r == 'irmsd_fast':
        return sim.compute_irmsd_fast(izone=zone, check=c.get('check', True), **mkw)
    if r == 'lrmsd_sql':
        return sim.compute_lrmsd_pdb2sql(exportpath=exp, **mkw)
    if r == 'irmsd_sql':
        return sim.compute_irmsd_pdb2sql(izone=zone, exportpath=exp, **mkw)
    if r == 'fnat_fast':
        return sim.compute_fnat_fast()
    if r == 'fnat_sql':
        return sim.compute_fnat_pdb2sql()
    if r == 'clashes':
        return SS.compute_clashes(paths['decoy'])
    if r == 'contacts':
        db = interface(paths['decoy'])
        res = db.get_contact_atoms(cutoff=6.0, return_contact_pairs=False)
        res2 = db.get_contact_residues(cutoff=6.0)
        return repr((sorted((k, sorted(v)) for k, v in res.items()), sorted((k, sorted(v)) for k, v in res2.items())))
    if r == 'superpose':
        db = superpose(paths['decoy'], paths['ref'], export=bool(c.get('exports', 0)))
        return repr([[round(v, 6) for v in row] for row in db.get('x,y,z')][:50])
    if r == 'align' and c.get('variant') == 'interface':
        from pdb2sql.align import align_interface
        db = align_interface(paths['decoy'], plane=c.get('plane', 'xy'), export=bool(c.get('exports', 0)), cutoff=6.0)
        return repr([[round(v, 6) for v in row] for row in db.get('x,y,z')][:50])
    if r == 'align':
        db = align(paths['decoy'], export=bool(c.get('exports', 0)))
        return repr([[round(v, 6) for v in row] for row in db.get('x,y,z')][:50])
    if r == 'pairs_ref':
        res = sim.compute_residue_pairs_ref(save_file=bool(c.get('exports', 0)), filename=paths.get('out1'))
        return repr(sorted((k, sorted(v)) for k, v in res.items()))
    if r == 'lzone':
        return repr(sim.compute_lzone(save_file=zone is not None, filename=zone))
    if r == 'izone':
        return repr(sim.compute_izone(save_file=zone is not None, filename=zone))
    raise ValueError(r)


def expected_outputs(c, paths, cwd):
    """absolute paths of the requested outputs -> role"""
    r = c['op'][len('effects_'):]
    out = {}
    if not c.get('exports', 0):
        return out
    if r == 'lrmsd_sql':
        out[os.path.join(paths['exportdir'], 'lrmsd_decoy.pdb')] = 'out1'
        out[os.path.join(paths['exportdir'], 'lrmsd_ref.pdb')] = 'out2'
    elif r == 'irmsd_sql':
        out[os.path.join(paths['exportdir'], 'irmsd_decoy.pdb')] = 'out1'
        out[os.path.join(paths['exportdir'], 'irmsd_ref.pdb')] = 'out2'
    elif r == 'superpose':
        m = os.path.basename(paths['decoy']).rstrip('.pdb')
        t = os.path.basename(paths['ref']).rstrip('.pdb')
        out[os.path.join(cwd, m + '_superposed_on_' + t + '.pdb')] = 'out1'
    elif r == 'align':
        out[os.path.join(cwd, paths['decoy'].rstrip('.pdb') + '_aligned.pdb')] = 'out1'
    elif r == 'pairs_ref':
        out[paths['out1']] = 'out1'
    return {os.path.normpath(os.path.join(cwd, k)): v for k, v in out.items()}


# ---------------------------------------------------------------------------------------------------------------
# canonicalisation
# ---------------------------------------------------------------------------------------------------------------

def role_map(c, paths, cwd):
    m = {os.path.normpath(os.path.join(cwd, paths['decoy'])): 'decoy', os.path.normpath(os.path.join(cwd, paths['ref'])): 'ref'}
    if paths.get('zone'):
        m[os.path.normpath(os.path.join(cwd, paths['zone']))] = 'zone'
    m.update(expected_outputs(c, paths, cwd))
    return m


def canon_path(p, roles, cwd, zone_abs, preexisting):
    if isinstance(p, bytes):
        p = os.fsdecode(p)
    if isinstance(p, int):
        return 'fd'
    ap = os.path.normpath(os.path.join(cwd, str(p)))
    if ap in roles:
        return roles[ap]
    if zone_abs is not None:
        d, b = os.path.split(zone_abs)
        if os.path.dirname(ap) == d and os.path.basename(ap).startswith(b + '.') and ap.endswith('.tmp') and ap not in preexisting:
            return 'tmp'
    rel = os.path.relpath(ap, cwd)
    return 'other:' + rel


def canon_trace(events, roles, cwd, zone_abs, preexisting):
    """audit events -> the alphabet of Spec.C16.Act (one event, one action)"""
    out = []
    mk = set()
    last_write = None
    for ev in events:
        k = ev[0]
        cp = lambda x: canon_path(x, roles, cwd, zone_abs, preexisting)     # noqa
        if k == 'write':
            # write / flush / close of a file this task has open: one `append` action per uninterrupted run
            if last_write != ev[1]:
                out.append(['append', cp(ev[1])])
            last_write = ev[1]
            continue
        if k == 'open' and (isinstance(ev[1], int) or (ev[2] is None and os.path.normpath(os.path.join(cwd, str(ev[1]))) in mk)):
            continue                                      # parts of mkstemp / fdopen: not actions of their own
        last_write = None
        if k == 'exists':
            out.append(['exists', cp(ev[1])])
        elif k == 'isfile':
            out.append(['isFile', cp(ev[1])])
        elif k == 'tempfile.mkstemp':
            mk.add(os.path.normpath(os.path.join(cwd, str(ev[1]))))
            out.append(['mkstemp', cp(ev[1])])
        elif k == 'open':
            path, mode = ev[1], ev[2]
            flags = ev[3] if len(ev) > 3 else 0
            if isinstance(path, int):
                continue                                  # os.fdopen on the descriptor mkstemp returned
            ap = os.path.normpath(os.path.join(cwd, os.fsdecode(path) if isinstance(path, bytes) else str(path)))
            if mode is None and ap in mk:
                continue                                  # the os.open inside mkstemp (already recorded as mkstemp)
            if mode is None:
                write = bool(flags & (os.O_WRONLY | os.O_RDWR | os.O_CREAT | os.O_TRUNC | os.O_APPEND))
            else:
                write = any(ch in mode for ch in 'wax+')
            out.append(['openw' if write else 'read', cp(path)])
        elif k == 'os.rename':
            out.append(['replace', cp(ev[1]), cp(ev[2])])
        elif k in ('os.remove', 'os.unlink', 'os.rmdir', 'shutil.rmtree'):
            out.append(['remove', cp(ev[1])])
        elif k == 'sqlite3.connect':
            out.append(['dbmem'] if ev[1] == ':memory:' else ['dbopen', cp(ev[1])])
        elif k in ('os.system', 'subprocess.Popen', 'os.posix_spawn', 'os.exec', 'os.fork', 'os.forkpty', 'os.spawn', 'os.startfile', 'pty.spawn'):
            out.append(['shell'])
        elif k in ('os.listdir', 'os.scandir'):
            out.append(['read', 'other:listdir:' + os.path.relpath(os.path.join(cwd, str(ev[1] or '.')), cwd)])
        else:                                             # any other mutation: outside every footprint
            out.append(['openw', 'other:' + k + ':' + str(ev[1])[:60]])
    return out


def snapshot(root):
    snap = {}
    for d, dirs, files in os.walk(root):
        dirs.sort()
        for f in sorted(files):
            p = os.path.join(d, f)
            try:
                with open(p, 'rb') as fh:
                    data = fh.read()
                snap[os.path.relpath(p, root)] = (len(data), hashlib.sha256(data).hexdigest())
            except OSError as e:
                snap[os.path.relpath(p, root)] = ('unreadable', repr(e))
        for dd in dirs:
            snap[os.path.relpath(os.path.join(d, dd), root) + '/'] = ('dir', '')
    return snap


SEED_FILES = {'decoy.db': b'user data that is not a database\n', 'ref.db': b'another user file\n', 'x.izone': b'zone A1-A1\n',
              'x.lzone': b'zone B2-B2\n', 'leftover.tmp': b'tmp\n', 'ref.izone.abc123.tmp': b'stale temp of somebody else\n',
              'refresidue_contact_pairs.pckl.bak': b'\x80\x04N.'}


# ---------------------------------------------------------------------------------------------------------------
# one case = one routine call, run in an empty and in a pre-seeded directory
# ---------------------------------------------------------------------------------------------------------------

def _materialise(ctx, c, wd, seeded):
    os.makedirs(wd)
    rng = random.Random(c['inputs_seed'])
    if c.get('bundled'):
        shutil.copy(os.path.join(vlib.REPO, 'test/pdb/1AK4/1AK4_5w.pdb'), os.path.join(wd, c['names'][0]))
        shutil.copy(os.path.join(vlib.REPO, 'test/pdb/1AK4/target.pdb'), os.path.join(wd, c['names'][1]))
    else:
        ref = make_complex(rng, c['nA'], c['nB'], start=tuple(c.get('start', (1, 1))))
        dec = perturb(rng, ref)
        if c.get('fail') in ('residues', 'residues_warn'):
            dec = dec[:-1]                                 # decoy misses the last residue
        if c.get('fail') == 'chains':
            dec = [('X' if ch == dec[0][0] else ch, rs, rn, at) for ch, rs, rn, at in dec]      # first chain renamed
        ref_text = pdb_text(ref)
        if c.get('fail') == 'onechain':
            # fxTie: a reference with ONE chain -- compute_lzone / compute_izone raise ValueError (not exactly two chains) after the
            # reference is read and before anything is written
            ref_text = pdb_text([x for x in ref if x[0] == ref[0][0]])
        elif c.get('fail') == 'garbage_ref':
            # fxTie: a reference that is not a PDB file (no ATOM record: no chain at all), or whose coordinates do not parse
            ref_text = 'this is not a structure\nREMARK nothing here\n' if c['inputs_seed'] % 2 == 0 else \
                ''.join(l[:30] + '  x.yz  ' + l[38:] + '\n' for l in ref_text.split('\n') if l.startswith('ATOM'))
        open(os.path.join(wd, c['names'][0]), 'w').write(pdb_text(dec))
        open(os.path.join(wd, c['names'][1]), 'w').write(ref_text)
    paths = {'decoy': c['names'][0], 'ref': c['names'][1]}
    lay = c.get('layout', 'rel')
    if lay == 'subdir':                                    # inputs and zone file in sub-directories
        os.makedirs(os.path.join(wd, 'in'))
        os.makedirs(os.path.join(wd, 'cache'))
        open(os.path.join(wd, 'in', 'unrelated.txt'), 'w').write('unrelated\n')
        open(os.path.join(wd, 'cache', 'other.izone'), 'w').write('zone A1-A1\n')
        for k in ('decoy', 'ref'):
            os.rename(os.path.join(wd, paths[k]), os.path.join(wd, 'in', paths[k]))
            paths[k] = os.path.join('in', paths[k])
    elif lay == 'abs':
        for k in ('decoy', 'ref'):
            paths[k] = os.path.join(wd, paths[k])
    for m in c.get('missing', []):
        os.remove(os.path.join(wd, paths[m]))
    z = c.get('zone', 'none')
    if z != 'none':
        paths['zone'] = c['names'][2]
        if lay == 'subdir':
            paths['zone'] = os.path.join('cache', paths['zone'])
        elif lay == 'abs':
            paths['zone'] = os.path.join(wd, paths['zone'])
        if z == 'present':
            # a zone file as the library writes it (computed by a solo run elsewhere)
            open(os.path.join(wd, paths['zone']), 'w').write(c['zone_text'])
        elif z == 'garbage':
            open(os.path.join(wd, paths['zone']), 'w').write('zone Axx-Axx\n')
    if c.get('exports', 0):
        os.mkdir(os.path.join(wd, 'exp'))
        paths['exportdir'] = 'exp'
        paths['out1'] = 'pairs.pckl'
    if seeded:
        for n, data in SEED_FILES.items():
            if not os.path.exists(os.path.join(wd, n)):
                open(os.path.join(wd, n), 'wb').write(data)
    return paths


def zone_text_for(c):
    """what the library writes as zone file for the case's reference (computed once, outside tracing)"""
    SS, _, _, _ = _import_lib()
    rng = random.Random(c['inputs_seed'])
    if c.get('bundled'):
        ref_txt = open(os.path.join(vlib.REPO, 'test/pdb/1AK4/target.pdb')).read()
    else:
        ref = make_complex(rng, c['nA'], c['nB'], start=tuple(c.get('start', (1, 1))))
        ref_txt = pdb_text(ref)
    lines = [l for l in ref_txt.split('\n')]
    sim = SS(lines, lines)
    r = c['op'][len('effects_'):]
    if r.startswith('lrmsd') or r == 'lzone':
        d = sim.compute_lzone(save_file=False)
    else:
        d = sim.compute_izone(save_file=False)
    out = []
    for ch in d:
        for n in d[ch]:
            out.append('zone %s%d-%s%d\n' % (ch, n, ch, n))
    return ''.join(out)


def run_once(ctx, c, seeded, tag, reuse=False):
    wd = os.path.join(ctx.tmpdir(), 'c16_%s_%s_%d' % (tag, 's' if seeded else 'e', next(_COUNTER)))
    paths = _materialise(ctx, c, wd, seeded)
    cwd0 = os.getcwd()
    os.chdir(wd)
    try:
        before = snapshot(wd)
        roles = role_map(c, paths, wd)
        zone_abs = os.path.normpath(os.path.join(wd, paths['zone'])) if paths.get('zone') else None
        preexisting = {os.path.join(wd, k) for k in before}
        import io, contextlib
        with warnings.catch_warnings(), contextlib.redirect_stdout(io.StringIO()):
            warnings.simplefilter('ignore')
            sim = None
            if reuse:
                sim = make_sim(c, paths)
                run_priors(sim, c.get('prior', []))          # earlier calls on the same object, untraced
            val, events = traced(lambda: call_routine(c, paths, sim))
        after = snapshot(wd)
    finally:
        os.chdir(cwd0)
    trace = canon_trace(events, roles, wd, zone_abs, preexisting)
    # directory diff in roles
    rel_roles = {os.path.relpath(k, wd): v for k, v in roles.items()}
    created = sorted(rel_roles.get(k, 'other:' + k) for k in after if k not in before)
    deleted = sorted(rel_roles.get(k, 'other:' + k) for k in before if k not in after)
    modified = sorted(rel_roles.get(k, 'other:' + k) for k in before if k in after and before[k] != after[k])
    final = sorted(v for k, v in rel_roles.items() if k in after)
    tmp_left = sorted(k for k in after if k.endswith('.tmp') and k not in before)
    if val[0] == 'ok':
        outcome, value = 'ok', repr(val[1])
    else:
        outcome, value = exc_tag(val[1]), repr(val[1])[:200]
    shutil.rmtree(wd, ignore_errors=True)
    return {'trace': trace, 'outcome': outcome, 'value': value, 'created': created, 'deleted': deleted, 'modified': modified,
            'final': final, 'tmp_left': tmp_left}


_COUNTER = itertools.count()


def impl(ctx, c):
    a = run_once(ctx, c, False, 'a')
    b = run_once(ctx, c, True, 'b')
    c['trace'] = a['trace']                       # the Spec driver judges the observed trace
    out = {'empty': a, 'seeded': b}
    if c.get('prior'):
        out['reused'] = run_once(ctx, c, False, 'r', reuse=True)      # same call on an object that has been used before
    return out


def driver_line(c):
    line = {k: v for k, v in c.items() if k in ('op', 'check', 'zone', 'exports', 'missing', 'failstage', 'intersect', 'trace')}
    if c.get('fail') in ('onechain', 'garbage_ref'):
        # fxTie: the zone computation fails on this reference -> the hand model with `Work.computeErr` set (Driver/ExtFx.lean)
        line['op'] = 'effects_zonefail_' + c['op'][len('effects_'):]
    return line


def _allowed_writes(c):
    ok = set()
    if c.get('zone', 'none') in ('absent',) or (c['op'] in ('effects_lzone', 'effects_izone') and c.get('zone', 'none') != 'none'):
        ok.add('zone')
    n = c.get('exports', 0)
    if n >= 1:
        ok.add('out1')
    if n >= 2:
        ok.add('out2')
    return ok


def agree_model(c, out, model):
    for which in [k for k in ('empty', 'seeded', 'reused') if k in out]:
        o = out[which]
        if o['trace'] != model['trace']:
            k = next((i for i, (x, y) in enumerate(zip(o['trace'], model['trace'])) if x != y), min(len(o['trace']), len(model['trace'])))
            return f'{which} directory: trace differs from the model at event {k}: implementation {o["trace"][k:k + 3]} model {model["trace"][k:k + 3]}'
        mo = model['outcome']
        if o['outcome'] != mo and not (mo == 'ERR:Other' and o['outcome'].startswith('ERR:')):
            return f'{which} directory: outcome {o["outcome"]} ({o["value"]}) model {mo}'
        if o['final'] != sorted(x for x in model['final'] if x != 'tmp'):
            return f'{which} directory: files present at the end {o["final"]} model {model["final"]}'
        if 'tmp' in model['final'] or o['tmp_left']:
            return f'{which} directory: temp file left behind {o["tmp_left"]} model {model["final"]}'
    return True


def agree_spec(c, out, spec):
    """the property itself: footprint (judged by Spec.C16.traceOk in Lean), nothing but requested outputs touched,
    inputs unchanged, same value whatever else is in the directory"""
    if not spec['ok']:
        return f'action outside the footprint: {spec["bad"][:4]}'
    allowed = _allowed_writes(c)
    for which in [k for k in ('empty', 'seeded', 'reused') if k in out]:
        o = out[which]
        bad = [x for x in o['created'] if x not in allowed and not x.endswith('/')]
        if bad:
            return f'{which} directory: created {bad} (requested outputs: {sorted(allowed)})'
        if o['deleted']:
            return f'{which} directory: deleted {o["deleted"]}'
        badm = [x for x in o['modified'] if x not in allowed]
        if badm:
            return f'{which} directory: modified {badm}'
        if o['tmp_left']:
            return f'{which} directory: temp file left behind {o["tmp_left"]}'
    a, b = out['empty'], out['seeded']
    if (a['outcome'], a['value']) != (b['outcome'], b['value']):
        return f'value depends on the directory content: empty -> {a["outcome"]} {a["value"][:80]}, pre-seeded -> {b["outcome"]} {b["value"][:80]}'
    if a['trace'] != b['trace']:
        return 'effects depend on the directory content'
    if 'reused' in out:
        r = out['reused']
        if (a['outcome'], a['value']) != (r['outcome'], r['value']):
            return f'value depends on earlier calls {c["prior"]} on the same object: fresh -> {a["outcome"]} {a["value"][:80]}, reused -> {r["outcome"]} {r["value"][:80]}'
        if a['trace'] != r['trace']:
            return f'effects depend on earlier calls {c["prior"]} on the same object'
    return True


def nontrivial_key(c, out):
    return [c['op'], c.get('check', True), c.get('zone', 'none'), c.get('exports', 0), c.get('missing', []), c.get('fail'),
            c.get('layout', 'rel'), c.get('zone_kind', 'str'), c.get('method'), bool(c.get('prior')), c.get('variant'),
            os.path.splitext(c['names'][0])[1],
            hashlib.sha1(json.dumps(out['empty']['trace']).encode()).hexdigest()[:10]]


def classify(c, out, spec):
    return None


def distribution(recs):
    d, oc, ln = {}, {}, []
    for r in recs:
        c = r['case']
        k = c['op'] + ':zone=' + c.get('zone', 'none') + ':exports=' + str(c.get('exports', 0))
        d[k] = d.get(k, 0) + 1
        if isinstance(r['impl'], dict) and 'empty' in r['impl']:
            o = r['impl']['empty']['outcome']
            oc[o] = oc.get(o, 0) + 1
            ln.append(len(r['impl']['empty']['trace']))
    return {'configs': d, 'outcomes': oc, 'trace_lengths': {'min': min(ln) if ln else 0, 'max': max(ln) if ln else 0}}


# ---------------------------------------------------------------------------------------------------------------
# cases
# ---------------------------------------------------------------------------------------------------------------

NAME_STYLES = ['pdb', 'pdb', 'pdb', 'noext', 'ent', 'upper', 'mid', 'dots', 'endsb']


def _names(rng, style=None):
    """input file names in the variants users have: x.pdb, no extension, .ent, upper-case .PDB, '.pdb' in the middle,
    several dots, a name ending in one of the letters of '.pdb' (str.rstrip territory)"""
    stem = lambda: ''.join(rng.choice('abcdefghkmnqrstuvwxyz') for _ in range(rng.randint(3, 7)))     # noqa
    a, b = stem(), stem()
    while b == a:
        b = stem()
    st = style or rng.choice(NAME_STYLES)
    def mk(x, tag):
        return {'pdb': x + '_' + tag + '.pdb', 'noext': 'model_' + x + '_' + tag, 'ent': 'pdb' + x + tag + '.ent', 'upper': x.upper() + tag.upper() + '.PDB',
                'mid': x + '.pdb.' + tag + '.bak', 'dots': x + '.' + tag + '.v2.pdb', 'endsb': x + tag + 'pdb'}[st]
    return [mk(a, 'dec'), mk(b, 'ref'), stem() + rng.choice(['.izone', '.lzone', '.zone', ''])]


def cases(ctx):
    rng = ctx.rng
    install()
    _import_lib()
    out = []
    reps = ctx.scale(1, 4)

    def add(op, name_style=None, **kw):
        c = {'op': 'effects_' + op, 'inputs_seed': rng.randrange(10 ** 9), 'nA': rng.randint(4, 7), 'nB': rng.randint(3, 6),
             'names': _names(rng, name_style)}
        if rng.random() < 0.3:
            c['start'] = [rng.randint(-3, 40), rng.randint(1, 90)]
        if c['nA'] == c['nB'] and rng.random() < 0.5:
            c['nB'] -= 1
        c.update(kw)
        if c.get('zone') == 'present':
            c['zone_text'] = zone_text_for(c)
        out.append(c)

    for _ in range(reps):
        for r in ('lrmsd_fast', 'irmsd_fast'):
            for check in (True, False):
                for z in ('none', 'absent', 'present'):
                    add(r, check=check, zone=z)
            add(r, check=True, zone='garbage')
            add(r, check=False, zone='absent', missing=['ref'])
            add(r, check=True, zone='present', missing=['decoy'])
            add(r, check=True, zone='absent', fail='residues', failstage=0)
        for z in ('none', 'absent', 'present', 'garbage'):
            for e in (0, 2):
                add('irmsd_sql', zone=z, exports=e)
        for e in (0, 2):
            add('lrmsd_sql', exports=e)
        add('lrmsd_sql', exports=0, missing=['decoy'])
        add('lrmsd_sql', exports=2, fail='residues', failstage=1)
        add('lrmsd_sql', exports=2, fail='chains', failstage=0)
        add('irmsd_sql', exports=2, zone='present', fail='chains', failstage=0)
        for r in ('fnat_fast', 'fnat_sql', 'clashes', 'contacts'):
            add(r)
        add('fnat_fast', missing=['decoy'])
        add('fnat_sql', missing=['ref'])
        add('clashes', missing=['decoy'])
        for r in ('superpose', 'align', 'pairs_ref'):
            for e in (0, 1):
                add(r, exports=e)
        for r in ('lzone', 'izone'):
            for z in ('none', 'absent', 'present'):
                add(r, zone=z)
        # fxTie: the failing-zone path -- a reference with one chain / a reference that is not a structure, zone file not named or
        # named but absent: ValueError after the reference is read, no zone file, no temp file (model: Work.computeErr)
        for fl in ('onechain', 'garbage_ref'):
            for r in ('lrmsd_fast', 'irmsd_fast'):
                for z in ('none', 'absent'):
                    add(r, check=rng.random() < 0.5, zone=z, fail=fl, layout=rng.choice(['rel', 'rel', 'subdir', 'abs']))
            for r in ('lzone', 'izone'):
                add(r, zone=rng.choice(['none', 'absent']), fail=fl)
        # --- blind-spot families: object reuse, zone given as Path, absolute / sub-directory names, the warn-only
        # residue-mismatch branch, the quaternion method
        score = ['lrmsd_fast', 'irmsd_fast', 'lrmsd_sql', 'irmsd_sql', 'fnat_fast', 'fnat_sql']
        for r in score:
            pri = rng.sample(PRIORS, rng.randint(1, 3))
            kw = {}
            if r in ('lrmsd_fast', 'irmsd_fast'):
                kw = dict(check=rng.random() < 0.5, zone=rng.choice(['none', 'absent', 'present']))
            elif r == 'irmsd_sql':
                kw = dict(zone=rng.choice(['none', 'present']), exports=rng.choice([0, 2]))
            elif r == 'lrmsd_sql':
                kw = dict(exports=rng.choice([0, 2]))
            add(r, prior=pri, **kw)
        add('lrmsd_fast', check=True, zone='absent', prior=['raise_missing_izone', 'raise_chainid_kw'])
        add('irmsd_fast', check=True, zone='present', prior=['raise_missing_izone', 'irmsd_fast_quaternion'])
        for lay in ('abs', 'subdir'):
            for r, kw in (('lrmsd_fast', dict(check=False, zone='absent')), ('irmsd_fast', dict(check=True, zone='absent')),
                          ('irmsd_fast', dict(check=False, zone='present')), ('irmsd_sql', dict(zone='present', exports=2)),
                          ('lrmsd_sql', dict(exports=2)), ('superpose', dict(exports=1)), ('align', dict(exports=1)),
                          ('izone', dict(zone='absent')), ('fnat_fast', {})):
                add(r, layout=lay, **kw)
        for r in ('lrmsd_fast', 'irmsd_fast'):
            for z in ('absent', 'present'):
                add(r, check=rng.random() < 0.5, zone=z, zone_kind='path', layout=rng.choice(['rel', 'subdir']))
        add('irmsd_sql', zone='present', zone_kind='path')
        add('irmsd_sql', zone='absent', zone_kind='path')
        add('izone', zone='absent', zone_kind='path')
        for r, kw in (('lrmsd_fast', dict(check=True, zone='absent')), ('irmsd_fast', dict(check=True, zone='none')), ('lrmsd_sql', dict(exports=2)),
                      ('irmsd_sql', dict(exports=2)), ('fnat_fast', {}), ('fnat_sql', {}), ('superpose', dict(exports=1))):
            add(r, fail='residues_warn', intersect=(r == 'superpose'), **kw)
        for r, kw in (('lrmsd_fast', dict(check=True, zone='absent')), ('irmsd_fast', dict(check=False, zone='present')),
                      ('lrmsd_sql', dict(exports=2)), ('irmsd_sql', dict(zone='none', exports=2))):
            add(r, method='quaternion', **kw)
        # output names derived from input names: every name style x export on, for the routines that derive a name
        for st in ('noext', 'ent', 'upper', 'mid', 'dots', 'endsb'):
            lay = rng.choice(['rel', 'subdir', 'abs'])
            add('align', name_style=st, exports=1, layout=lay)
            add('align', name_style=st, exports=1, variant='interface', plane=rng.choice(['xy', 'xz', 'yz']), layout=rng.choice(['rel', 'subdir']))
            add('superpose', name_style=st, exports=1, layout=rng.choice(['rel', 'subdir', 'abs']))
        add('align', exports=1, variant='interface')
        add('align', exports=0, variant='interface')
    if ctx.thorough:
        for r, kw in (('lrmsd_fast', dict(check=True, zone='absent')), ('irmsd_fast', dict(check=True, zone='absent')),
                      ('irmsd_fast', dict(check=True, zone='present')), ('lrmsd_sql', dict(exports=2)), ('irmsd_sql', dict(zone='present', exports=2)),
                      ('fnat_fast', {}), ('fnat_sql', {}), ('clashes', {}), ('superpose', dict(exports=1)), ('align', dict(exports=1))):
            c = {'op': 'effects_' + r, 'inputs_seed': 1, 'bundled': True, 'names': ['1AK4_5w.pdb', 'target.pdb', '1AK4.zone'], 'nA': 0, 'nB': 0}
            c.update(kw)
            if c.get('zone') == 'present':
                c['zone_text'] = zone_text_for(c)
            out.append(c)
    return out


def search_cases(ctx):
    """used when a theorem or the correspondence breaks: the same families with fresh inputs, every routine"""
    sub = vlib.Ctx(ctx.pid, ctx.tier, ctx.seed + 7919)
    sub._tmp = ctx.tmpdir()
    return cases(sub)


# ---------------------------------------------------------------------------------------------------------------
# concurrency exploration (child process, watchdog)
# ---------------------------------------------------------------------------------------------------------------

class Hang(Exception):
    pass


class Scheduler:
    """Tasks run in threads; each blocks in `gate` before every recorded event until the scheduler lets it go.
    Decisions (which task moves next) are taken only when the running task is about to touch a *shared* file (the zone
    file or a temp file next to it): every other action is a read of an immutable input or a write to a private output
    and commutes with everything the other tasks do."""

    def __init__(self, fns, shared_pred, choices, wait=30.0, all_points=False):
        self.n = len(fns)
        self.fns = fns
        self.shared = shared_pred
        self.choices = list(choices)          # decision prefix; afterwards: keep running the current task
        self.wait = wait
        self.all_points = all_points
        self.cv = threading.Condition()
        self.state = ['new'] * self.n         # new | blocked | running | done
        self.pending = [None] * self.n
        self.turn = None
        self.results = [None] * self.n
        self.events = [[] for _ in range(self.n)]
        self.order = []                        # global order of performed events (task ids)
        self.decisions = []                    # at each decision point: (enabled tasks, chosen)
        self.preemptions = 0

    def _gate(self, i):
        def gate(ev):
            with self.cv:
                self.pending[i] = ev
                self.state[i] = 'blocked'
                self.cv.notify_all()
                t0 = time.time()
                while self.turn != i:
                    if not self.cv.wait(timeout=1.0) and time.time() - t0 > self.wait:
                        raise Hang(f'task {i} was never resumed')
                self.turn = None
                self.state[i] = 'running'
                self.order.append(i)
        return gate

    def _worker(self, i):
        val, events = traced(self.fns[i], gate=self._gate(i))
        with self.cv:
            self.results[i] = val
            self.events[i] = events
            self.state[i] = 'done'
            self.cv.notify_all()

    def _wait_quiescent(self):
        """until no task is running (every live task is blocked at its next event)"""
        t0 = time.time()
        while any(s in ('running', 'new') for s in self.state) or self.turn is not None:
            if not self.cv.wait(timeout=1.0) and time.time() - t0 > self.wait:
                raise Hang(f'tasks did not reach a yield point: {self.state}')

    def run(self):
        threads = [threading.Thread(target=self._worker, args=(i,), daemon=True) for i in range(self.n)]
        for t in threads:
            t.start()
        current = None
        k = 0
        with self.cv:
            while True:
                self._wait_quiescent()
                enabled = [i for i in range(self.n) if self.state[i] == 'blocked']
                if not enabled:
                    break
                at_decision = (current not in enabled) or self.all_points or self.shared(self.pending[current])
                if current in enabled and not at_decision:
                    nxt = current
                else:
                    if k < len(self.choices):
                        nxt = self.choices[k] if self.choices[k] in enabled else enabled[0]
                    else:
                        nxt = current if current in enabled else enabled[0]
                    self.decisions.append((tuple(enabled), nxt, current))
                    if current in enabled and nxt != current:
                        self.preemptions += 1
                    k += 1
                current = nxt
                self.turn = nxt
                self.state[nxt] = 'running'
                self.cv.notify_all()
        for t in threads:
            t.join(timeout=self.wait)
            if t.is_alive():
                raise Hang('a task thread did not finish')
        return self


def explore(make_run, max_preempt, budget, rng=None, all_points=False):
    """stateless DFS over decision sequences; make_run(choices) -> Scheduler (already run) + verdict"""
    stack = [[]]
    seen = set()
    runs = []
    while stack and len(runs) < budget:
        prefix = stack.pop()
        s, verdict = make_run(prefix, all_points)
        key = tuple(d[1] for d in s.decisions)
        if key in seen:
            continue
        seen.add(key)
        runs.append((key, s.preemptions, verdict, s))
        if verdict is not True:
            break
        # children: at every decision point at or after len(prefix), every alternative choice
        pre = 0
        for j, (enabled, chosen, cur) in enumerate(s.decisions):
            if j >= len(prefix):
                for alt in enabled:
                    if alt != chosen:
                        p2 = pre + (1 if (cur in enabled and alt != cur) else 0)
                        if p2 <= max_preempt:
                            stack.append(list(key[:j]) + [alt])
            if cur in enabled and chosen != cur:
                pre += 1
    return runs


def _explore_child(spec_path):
    """entry point of the child process: explores the pairs listed in the spec file, prints one JSON report"""
    spec = json.load(open(spec_path))
    warnings.simplefilter('ignore')
    install()
    _import_lib()
    rng = random.Random(spec['seed'])
    root = spec['root']
    report = {'pairs': [], 'violations': [], 'schedules': 0, 'model_lines': []}
    cnt = itertools.count()
    for pair in spec['pairs']:
        tasks = pair['tasks']
        # inputs: one reference, one decoy per task
        rr = random.Random(pair['inputs_seed'])
        ref = make_complex(rr, pair['nA'], pair['nB'])
        decs = [perturb(rr, ref) for _ in tasks]
        ref_txt = pdb_text(ref)

        def setup(zone_state, seeded):
            wd = os.path.join(root, 'x%d' % next(cnt))
            os.makedirs(wd)
            open(os.path.join(wd, 'ref.pdb'), 'w').write(ref_txt)
            for i, d in enumerate(decs):
                open(os.path.join(wd, 'dec%d.pdb' % i), 'w').write(pdb_text(d))
            if zone_state == 'present':
                open(os.path.join(wd, pair['zone_name']), 'w').write(pair['zone_text'])
            if seeded:
                for n, data in SEED_FILES.items():
                    if not os.path.exists(os.path.join(wd, n)):
                        open(os.path.join(wd, n), 'wb').write(data)
            return wd

        def cfg_for(i, t):
            c = {'op': 'effects_' + t['routine'], 'check': t.get('check', True), 'zone': 'absent' if t.get('zone', True) else 'none',
                 'exports': t.get('exports', 0)}
            paths = {'decoy': 'dec%d.pdb' % i, 'ref': 'ref.pdb', 'zone': pair['zone_name'] if t.get('zone', True) else None,
                     'exportdir': 'exp%d' % i, 'out1': 'pairs%d.pckl' % i}
            return c, paths

        def fn_for(i, t):
            c, paths = cfg_for(i, t)

            def f():
                with warnings.catch_warnings():
                    warnings.simplefilter('ignore')
                    return call_routine(c, paths)
            return f

        for zone_state in pair['zone_states']:
            # solo values (each task alone, same initial directory)
            solo = []
            for i, t in enumerate(tasks):
                wd = setup(zone_state, False)
                os.chdir(wd)
                for j in range(len(tasks)):
                    os.makedirs('exp%d' % j, exist_ok=True)
                v, _ = traced(fn_for(i, t))
                solo.append(('ok', repr(v[1])) if v[0] == 'ok' else ('exc', exc_tag(v[1])))
                zone_solo = open(pair['zone_name']).read() if os.path.exists(pair['zone_name']) else None
                os.chdir(root)
                shutil.rmtree(wd, ignore_errors=True)
            zone_expected = pair['zone_text']

            def shared(ev, zn=pair['zone_name']):
                if ev is None:
                    return False
                for a in ev[1:3]:
                    if isinstance(a, (str, bytes)):
                        s = os.fsdecode(a) if isinstance(a, bytes) else a
                        b = os.path.basename(s)
                        if b == zn or (b.startswith(zn + '.') and b.endswith('.tmp')):
                            return True
                    elif isinstance(a, int) and ev[0] == 'open':
                        return True                      # fdopen on the temp descriptor
                return False

            def make_run(choices, all_points, zone_state=zone_state):
                seeded = rng.random() < 0.5
                wd = setup(zone_state, seeded)
                os.chdir(wd)
                for j in range(len(tasks)):
                    os.makedirs('exp%d' % j, exist_ok=True)
                before = snapshot(wd)
                s = Scheduler([fn_for(i, t) for i, t in enumerate(tasks)], shared, choices, wait=spec['wait'], all_points=all_points)
                s.run()
                after = snapshot(wd)
                os.chdir(root)
                verdict = True
                why = []
                for i, t in enumerate(tasks):
                    v = s.results[i]
                    got = ('ok', repr(v[1])) if v[0] == 'ok' else ('exc', exc_tag(v[1]))
                    if got != solo[i]:
                        why.append(f'task {i} ({t["routine"]}): {got} but alone {solo[i]}' + (f' [{v[1]!r}]' if v[0] == 'exc' else ''))
                allowed_new = {pair['zone_name']} if any(t.get('zone', True) for t in tasks) else set()
                for k2 in after:
                    if k2 not in before and k2 not in allowed_new and not k2.startswith('exp') and not re.match(r'pairs\d+\.pckl$', k2) \
                            and not re.match(r'dec\d+_superposed_on_ref\.pdb$', k2) and not re.match(r'dec\d+_aligned\.pdb$', k2):
                        why.append(f'stray file {k2}')
                for k2 in before:
                    if k2 not in after:
                        why.append(f'deleted {k2}')
                    elif before[k2] != after[k2] and not k2.startswith('exp'):
                        why.append(f'modified {k2}')
                if pair['zone_name'] in after and any(t.get('zone', True) for t in tasks):
                    ztxt = open(os.path.join(wd, pair['zone_name'])).read()
                    if ztxt != zone_expected:
                        why.append('zone file content differs from the solo zone')
                if why:
                    verdict = why
                # the model's prediction for this interleaving: global order of visible events
                per_task = []
                for i in range(len(tasks)):
                    ci, pi = cfg_for(i, tasks[i])
                    roles = role_map(ci, pi, wd)
                    roles = {k3: (v3 + str(i) if v3 in ('decoy', 'out1', 'out2') else v3) for k3, v3 in roles.items()}
                    tr = canon_trace(s.events[i], roles, wd, os.path.join(wd, pair['zone_name']), {os.path.join(wd, k3) for k3 in before})
                    tr = [[x if x != 'tmp' else 'tmp%d' % i for x in e] for e in tr if e[0] != 'append']
                    per_task.append(tr)
                s.per_task = per_task
                # order of *visible canonical* events: audit events that were dropped by canon_trace (fdopen, the os.open
                # inside mkstemp) are steps of the same task between two visible ones; drop them from the order
                vis = []
                idx = [0] * len(tasks)
                raw_i = [0] * len(tasks)
                for tid in s.order:
                    ev = s.events[tid][raw_i[tid]] if raw_i[tid] < len(s.events[tid]) else None
                    raw_i[tid] += 1
                    if ev is None:
                        continue
                    keep = not (ev[0] == 'write' or (ev[0] == 'open' and (isinstance(ev[1], int) or ev[2] is None)))
                    if keep:
                        vis.append(tid)
                s.visible_order = vis
                shutil.rmtree(wd, ignore_errors=True)
                return s, verdict

            runs = explore(make_run, pair['max_preempt'], pair['budget'], all_points=False)
            extra = []
            if pair.get('random_all_points', 0):
                # random schedules preempting at arbitrary events
                for _ in range(pair['random_all_points']):
                    ch = [rng.randrange(len(tasks)) for _ in range(400)]
                    s, verdict = make_run(ch, True)
                    extra.append((tuple(), s.preemptions, verdict, s))
            n_ok = 0
            for key, pre, verdict, s in runs + extra:
                report['schedules'] += 1
                if verdict is not True:
                    report['violations'].append({'pair': [t['routine'] for t in tasks], 'zone_state': zone_state, 'decisions': list(key),
                                                 'order': s.order[:400], 'why': verdict})
                else:
                    n_ok += 1
                if len(report['model_lines']) < spec['max_model_lines']:
                    report['model_lines'].append({'line': {'op': 'sched_run', 'zone': zone_state,
                                                           'tasks': [{'routine': 'effects_' + t['routine'], 'check': t.get('check', True), 'zone': t.get('zone', True), 'exports': t.get('exports', 0)} for t in tasks],
                                                           'sched': s.visible_order},
                                                  'observed': s.per_task})
            report['pairs'].append({'tasks': [t['routine'] for t in tasks], 'zone_state': zone_state, 'schedules': len(runs) + len(extra),
                                    'ok': n_ok, 'max_preemptions_seen': max([r[1] for r in runs + extra] or [0]), 'solo': solo})
    print('REPORT ' + json.dumps(report))
    return 0


def _pairs(ctx):
    rng = ctx.rng
    quick = [
        [{'routine': 'irmsd_fast', 'check': False}, {'routine': 'irmsd_fast', 'check': False}],
        [{'routine': 'lrmsd_fast', 'check': False}, {'routine': 'lrmsd_fast', 'check': True}],
        [{'routine': 'irmsd_fast', 'check': True}, {'routine': 'izone'}],
    ]
    more = [
        [{'routine': 'irmsd_fast', 'check': False}, {'routine': 'lrmsd_sql', 'zone': False, 'exports': 2}],
        [{'routine': 'lrmsd_fast', 'check': False}, {'routine': 'lzone'}],
        [{'routine': 'irmsd_fast', 'check': False}, {'routine': 'fnat_fast', 'zone': False}],
        [{'routine': 'irmsd_fast', 'check': False}, {'routine': 'superpose', 'zone': False, 'exports': 1}],
        [{'routine': 'lrmsd_fast', 'check': False}, {'routine': 'align', 'zone': False, 'exports': 1}],
        [{'routine': 'izone'}, {'routine': 'izone'}],
        [{'routine': 'irmsd_fast', 'check': False}, {'routine': 'irmsd_fast', 'check': False}, {'routine': 'irmsd_fast', 'check': True}],
        [{'routine': 'lrmsd_fast', 'check': False}, {'routine': 'lrmsd_fast', 'check': False}, {'routine': 'clashes', 'zone': False}],
    ]
    out = []
    for tasks in quick + (more if ctx.thorough else []):
        nA, nB = rng.randint(4, 6), rng.randint(3, 4)
        if nA == nB:
            nB -= 1
        seed = rng.randrange(10 ** 9)
        zr = 'lrmsd_fast' if any(t['routine'].startswith('l') and t['routine'] != 'lrmsd_sql' for t in tasks) else 'irmsd_fast'
        zt = zone_text_for({'op': 'effects_' + zr, 'inputs_seed': seed, 'nA': nA, 'nB': nB})
        out.append({'tasks': tasks, 'nA': nA, 'nB': nB, 'inputs_seed': seed, 'zone_name': 'shared.' + ('lzone' if zr[0] == 'l' else 'izone'),
                    'zone_text': zt, 'zone_states': ['absent'] + (['present'] if ctx.thorough or len(out) == 0 else []),
                    'max_preempt': 2 if not ctx.thorough else (3 if len(tasks) == 2 else 2),
                    'budget': ctx.scale(60, 600), 'random_all_points': ctx.scale(3, 40)})
    return out



# ===== fxTie: translated effect programs (Gen/Fx.lean) vs the real calls ============================================
class _FxStop(Exception):
    pass


def fx_tie_checks(ctx):
    """implementation = generated: `_write_zone`, the file part of `read_zone`, the zone-file branches of the fast routines,
    `get_izone_rowID`, the save branches, the pickle branch and the export branches are run for real with every file call
    recorded (audit hook, wrappers; callee methods replaced by recording markers), and the TRANSLATED programs (GenF.*, driver op
    fx_run) are run in a world with the same files: same calls, same arguments, same order, same text left in the files."""
    SS, _, _, _ = _import_lib()
    import pdb2sql.pdb2sql_base as base_mod
    rng = ctx.rng
    install()
    recs, lines = [], []
    root = os.path.join(ctx.tmpdir(), 'c16fx')
    os.makedirs(root, exist_ok=True)

    def rel(p, wd):
        p = os.fsdecode(p) if isinstance(p, bytes) else str(p)
        return os.path.relpath(p, wd) if os.path.isabs(p) else os.path.normpath(p)

    def canon(events, wd):
        """real events -> the alphabet of the driver (consecutive write/flush/close notes of one file = one 'append')"""
        out, mk, last = [], set(), None
        for ev in events:
            k = ev[0]
            if k == 'write':
                if last != ev[1]:
                    out.append(['append', rel(ev[1], wd)])
                last = ev[1]
                continue
            if k == 'open' and (isinstance(ev[1], int) or (ev[2] is None and os.path.normpath(os.path.join(wd, str(ev[1]))) in mk)):
                continue
            last = None
            if k == 'isfile':
                out.append(['isfile', rel(ev[1], wd)])
            elif k == 'exists':
                out.append(['exists', rel(ev[1], wd)])
            elif k == 'marker':
                out.append(['exists', ev[1]])
            elif k == 'tempfile.mkstemp':
                mk.add(os.path.normpath(os.path.join(wd, str(ev[1]))))
                out.append(['mkstemp', rel(ev[1], wd)])
            elif k == 'open':
                mode = ev[2]
                out.append(['open', rel(ev[1], wd), mode if mode in ('w', 'a', 'wb') else 'r'])
            elif k == 'os.rename':
                out.append(['replace', rel(ev[1], wd), rel(ev[2], wd)])
            elif k in ('os.remove', 'os.unlink'):
                out.append(['remove', rel(ev[1], wd)])
            elif k == 'sqlite3.connect':
                out.append(['connect', str(ev[1])])
            elif k == 'closemark':
                out.append(['close', ev[1]])
            else:
                out.append(['foreign:' + k, str(ev[1])[:60]])
        return out

    def lean_canon(evs, wd):
        npth = lambda x: rel(x, wd)        # noqa: E731
        out, last = [], None
        for e in evs:
            k = e[0]
            if k in ('write', 'fclose'):
                if last != e[1]:
                    out.append(['append', npth(e[1])])
                last = e[1]
                continue
            last = None
            if k in ('isfile',):
                out.append(['isfile', npth(e[1])])
            elif k == 'exists':
                out.append(['exists', e[1]])
            elif k == 'mkstemp':
                out.append(['mkstemp', npth(e[4])])
            elif k == 'open':
                out.append(['open', npth(e[1]), e[2].replace('b', '')])        # the audit event reports the mode without 'b'
            elif k == 'readlines':
                out.append(['open', npth(e[1]), 'r'])
            elif k == 'replace':
                out.append(['replace', npth(e[1]), npth(e[2])])
            elif k == 'remove':
                out.append(['remove', npth(e[1])])
            elif k in ('connect', 'close', 'cursor', 'commit'):
                out.append([k, e[1]])
            else:
                out.append(list(e))
        return out

    def snapshot_text(wd):
        out = {}
        for d, _, fs in os.walk(wd):
            for f in fs:
                pth = os.path.join(d, f)
                out[os.path.relpath(pth, wd)] = open(pth, 'rb').read().decode('latin-1')
        return out

    def run_real(wd, call):
        cwd0 = os.getcwd()
        os.chdir(wd)
        try:
            import io, contextlib
            with warnings.catch_warnings(), contextlib.redirect_stdout(io.StringIO()):
                warnings.simplefilter('ignore')
                val, ev = traced(call)
        finally:
            os.chdir(cwd0)
        return val, ev

    def newdir():
        wd = os.path.join(root, 'd%d' % next(_COUNTER))
        os.makedirs(os.path.join(wd, 'sub'))
        return wd

    def add(name, line, wd, val, ev, check_files=None, post=None):
        recs.append({'name': name, 'line': line, 'wd': wd, 'real': canon(ev, wd), 'outcome': 'ok' if val[0] == 'ok' or isinstance(val[1], _FxStop) else exc_tag(val[1]),
                     'files': check_files, 'post': post, 'raw': [str(e)[:120] for e in ev][:12]})
        lines.append(line)

    zones = [[], [['A', 5]], [['A', 1], ['A', 2], ['B', -3], ['B', 0]], [['X', 1234], ['X', -999]]]
    # ---- _write_zone -------------------------------------------------------------------------------------------
    for fname in ('x.izone', 'sub/ref.lzone', './y.zone', 'noext', 'sub//z.izone'):
        for data in zones:
            wd = newdir()
            if rng.random() < 0.4:
                open(os.path.join(wd, os.path.normpath(fname)), 'w').write('zone Q1-Q1\n')        # an older zone file is replaced
            val, ev = run_real(wd, lambda: SS._write_zone(fname, [tuple(x) for x in data]))
            tmp = next((e[1] for e in ev if e[0] == 'os.rename'), None)
            mk = next((e[1] for e in ev if e[0] == 'tempfile.mkstemp'), None)
            line = {'op': 'fx_run', 'fn': 'write_zone', 'filename': fname, 'data': data, 'tmpname': tmp or 'TMP', 'files': []}
            add('_write_zone', line, wd, val, ev, check_files={os.path.normpath(fname): snapshot_text(wd).get(os.path.normpath(fname))},
                post={'mkstemp_arg': mk, 'returned': tmp})
    # ---- file part of read_zone; get_izone_rowID -------------------------------------------------------------------
    for present in (True, False):
        for fname in ('x.izone', 'sub/ref.lzone'):
            wd = newdir()
            if present:
                open(os.path.join(wd, fname), 'w').write('zone A5-A5\nzone B-3-B-3\n')
            files = [[fname, ['zone A5-A5\n', 'zone B-3-B-3\n']]] if present else []
            val, ev = run_real(wd, lambda: SS.read_zone(fname))
            add('read_zone', {'op': 'fx_run', 'fn': 'read_zone_io', 'filename': fname, 'files': files}, wd, val, ev)
            sim = SS.__new__(SS)

            def rz_mark(z):
                _note(('marker', 'read_zone(%s)' % z))
                raise _FxStop()
            sim.read_zone = rz_mark
            val, ev = run_real(wd, lambda: sim.get_izone_rowID(None, fname))
            add('get_izone_rowID', {'op': 'fx_run', 'fn': 'izone_rowid', 'zone': fname, 'files': files}, wd, val, ev)
    # ---- zone branches of the fast routines --------------------------------------------------------------------------
    for which, fn in (('lrmsd_zone', 'compute_lrmsd_fast'), ('irmsd_zone', 'compute_irmsd_fast')):
        for zone, present in ((None, False), ('z.zone', False), ('z.zone', True), ('sub/q.izone', False), ('sub/q.izone', True)):
            wd = newdir()
            if present:
                open(os.path.join(wd, zone), 'w').write('zone A5-A5\n')
            sim = SS.__new__(SS)
            sim.enforce_residue_matching = False
            tag = 'compute_lzone' if which == 'lrmsd_zone' else 'compute_izone'

            def comp(*a, save_file=True, filename=None, _tag=tag):
                _note(('marker', '%s(save_file=%s,filename=%s)' % (_tag, save_file, filename)))
                raise _FxStop()

            def rz_mark(z):
                _note(('marker', 'read_zone(%s)' % z))
                raise _FxStop()
            setattr(sim, tag, comp)
            sim.read_zone = rz_mark
            kw = {('lzone' if which == 'lrmsd_zone' else 'izone'): zone}
            val, ev = run_real(wd, lambda: getattr(sim, fn)(**kw))
            line = {'op': 'fx_run', 'fn': which, 'files': [[zone, ['zone A5-A5\n']]] if present else []}
            if zone is not None:
                line['zone'] = zone
            add(fn + ' zone branch', line, wd, val, ev)
    # ---- save branches of compute_lzone / compute_izone, pickle branch ---------------------------------------------------
    ref = make_complex(random.Random(5), 5, 4)
    for which, meth, suffix in (('lzone_save', 'compute_lzone', '.lzone'), ('izone_save', 'compute_izone', '.izone')):
        for save, filename, refname in ((True, 'out.zone', 'r.pdb'), (True, None, 'r.v2.pdb'), (False, 'out.zone', 'r.pdb'), (True, 'sub/o.z', 'sub/r.pdb'), (True, None, 'noext')):
            wd = newdir()
            open(os.path.join(wd, refname), 'w').write(pdb_text(ref))
            sim = SS(refname, refname)
            got = {}

            def wz(fn_, data, _got=got):
                _got['filename'], _got['data'] = fn_, [list(x) for x in data]
                _note(('marker', '_write_zone'))
            sim._write_zone = wz
            val, ev = run_real(wd, lambda: getattr(sim, meth)(save_file=save, filename=filename))
            line = {'op': 'fx_run', 'fn': which, 'ref': refname, 'save_file': save, 'data': got.get('data', []), 'tmpname': 'TMP', 'files': []}
            if filename is not None:
                line['filename'] = filename
            recs.append({'name': meth + ' save branch', 'line': line, 'wd': wd, 'real': None, 'outcome': 'ok' if val[0] == 'ok' else exc_tag(val[1]),
                         'files': None, 'post': {'write_zone_target': got.get('filename')}, 'raw': []})
            lines.append(line)
    for save, filename, refname in ((True, 'p.pckl', 'r.pdb'), (True, None, 'r.v2.pdb'), (False, None, 'r.pdb'), (True, 'sub/p.bin', 'sub/r.pdb')):
        wd = newdir()
        open(os.path.join(wd, refname), 'w').write(pdb_text(ref))
        sim = SS(refname, refname)
        before = set(snapshot_text(wd))
        val, ev = run_real(wd, lambda: sim.compute_residue_pairs_ref(save_file=save, filename=filename))
        # only the events of the save branch: those after the last `connect` of the interface object
        k = max([i for i, e in enumerate(ev) if e[0] == 'sqlite3.connect'] + [-1])
        ev2 = [e for e in ev[k + 1:] if not (e[0] in ('exists', 'isfile') or (e[0] == 'open' and e[2] in ('r', None)))]
        line = {'op': 'fx_run', 'fn': 'pairs_save', 'ref': refname, 'save_file': save, 'files': []}
        if filename is not None:
            line['filename'] = filename
        add('compute_residue_pairs_ref save branch', line, wd, val, ev2, post={'created': sorted(set(snapshot_text(wd)) - before)})
    # ---- export branches of the _pdb2sql routes: exportpdb / _close of the two objects replaced by recording markers ----
    dec = perturb(random.Random(6), ref)
    for which, meth in (('lrmsd_export', 'compute_lrmsd_pdb2sql'), ('irmsd_export', 'compute_irmsd_pdb2sql')):
        for exportpath in (None, 'exp', 'sub/e'):
            wd = newdir()
            open(os.path.join(wd, 'd.pdb'), 'w').write(pdb_text(dec))
            open(os.path.join(wd, 'r.pdb'), 'w').write(pdb_text(ref))
            if exportpath:
                os.makedirs(os.path.join(wd, exportpath), exist_ok=True)
            sim = SS('d.pdb', 'r.pdb', enforce_residue_matching=False)
            o_exp, o_close = base_mod.pdb2sql_base.exportpdb, base_mod.pdb2sql_base._close
            seen_kw = {}

            def who(obj):
                return 'sql_decoy' if obj.pdbfile == 'd.pdb' else 'sql_ref'

            def m_exp(self, fname, append=False, tablename='atom', **kwargs):
                f = open(fname, 'a' if append else 'w')
                f.write('%s.exportpdb(tablename=%s%s)' % (who(self), tablename, ''.join(',%s=%s' % (k_, 'index_contact_' + who(self)[4:]) for k_ in kwargs)))
                f.close()

            def m_close(self, rmdb=True):
                if getattr(_tls, 'rec', None) is not None and getattr(self, '_fx_main', True):
                    _note(('closemark', '%s._close(rmdb=%s)' % (who(self), rmdb)))
                return o_close(self, rmdb)
            base_mod.pdb2sql_base.exportpdb, base_mod.pdb2sql_base._close = m_exp, m_close
            try:
                val, ev = run_real(wd, lambda: getattr(sim, meth)(exportpath=exportpath))
            finally:
                base_mod.pdb2sql_base.exportpdb, base_mod.pdb2sql_base._close = o_exp, o_close
            # the export branch and what follows it: everything after the last read of an input
            k = max([i for i, e in enumerate(ev) if e[0] in ('sqlite3.connect', 'exists', 'isfile') or (e[0] == 'open' and e[2] in ('r', None))] + [-1])
            ev2 = ev[k + 1:]
            # check_residues closes its own two objects before the branch: keep the LAST two close marks only
            closes = [i for i, e in enumerate(ev2) if e[0] == 'closemark']
            ev2 = [e for i, e in enumerate(ev2) if e[0] != 'closemark' or i in closes[-2:]]
            line = {'op': 'fx_run', 'fn': which, 'files': []}
            if exportpath:
                line['exportpath'] = exportpath
            files = {os.path.join(exportpath, f): t for f, t in ()} if exportpath else None
            add(meth + ' export branch', line, wd, val, ev2, check_files={k_: v for k_, v in snapshot_text(wd).items() if exportpath and k_.startswith(exportpath)} if exportpath else None)
    # ---- compare -----------------------------------------------------------------------------------------------------
    answers = vlib.run_driver(lines, which='model', cluster=CLUSTER)
    bad = None
    for r, a in zip(recs, answers):
        m = a.get('model') or {}
        why = None
        lean_files = {os.path.normpath(f[0]): f[1] for f in m.get('files', [])}
        if a.get('driver_error'):
            why = 'driver error ' + str(a)[:300]
        elif r['real'] is not None and lean_canon(m.get('events', []), r['wd']) != r['real']:
            why = 'calls differ: real %s translated %s (raw %s)' % (r['real'], lean_canon(m.get('events', []), r['wd']), r['raw'])
        elif (m.get('outcome') == 'ok') != (r['outcome'] == 'ok'):
            why = 'outcome: real %s translated %s' % (r['outcome'], m.get('outcome'))
        elif r['files'] is not None and any(lean_files.get(k) != v for k, v in r['files'].items()):
            why = 'text left in the file: real %r translated %r' % (r['files'], lean_files)
        elif r['post'] and 'mkstemp_arg' in r['post']:
            e = next((e for e in m.get('events', []) if e[0] == 'mkstemp'), None)
            arg = r['post']['mkstemp_arg']
            if e is None or arg is None:
                why = 'no mkstemp'
            else:
                d_, pre, suf = e[1], e[2], e[3]
                b = os.path.basename(arg)
                if os.path.normpath(os.path.dirname(arg)) != os.path.normpath(os.path.join(r['wd'], d_)):
                    why = 'mkstemp directory: real %r translated dir=%r' % (arg, d_)
                elif not (b.startswith(pre) and b.endswith(suf) and len(b) > len(pre) + len(suf)):
                    why = 'mkstemp name: real %r translated prefix=%r suffix=%r' % (arg, pre, suf)
        elif r['post'] and 'write_zone_target' in r['post']:
            e = next((e for e in m.get('events', []) if e[0] == 'replace'), None)
            tgt = r['post']['write_zone_target']
            if (e[2] if e else None) != tgt:
                why = '_write_zone target: real %r translated %r' % (tgt, e[2] if e else None)
        elif r['post'] and 'created' in r['post']:
            if sorted(os.path.normpath(f) for f in lean_files) != sorted(r['post']['created']):
                why = 'files created: real %r translated %r' % (r['post']['created'], sorted(lean_files))
        if why and bad is None:
            bad = {'what': r['name'], 'line': r['line'], 'why': why}
    shutil.rmtree(root, ignore_errors=True)
    return [{'name': 'translated _write_zone / read_zone / zone branches / save, pickle and export branches (GenF) make the calls of the real code, same arguments, same order, same text (%d runs)' % len(recs),
             'ok': bad is None, 'case': bad, 'detail': 'implementation and generated effect program disagree', 'replay_kind': 'input', 'kind': None}]
# ===== end fxTie ===================================================================================================

def extra_checks(ctx):
    res = []
    root = os.path.join(ctx.tmpdir(), 'explore')
    os.makedirs(root, exist_ok=True)
    spec = {'seed': ctx.seed, 'root': root, 'pairs': _pairs(ctx), 'wait': 60.0, 'max_model_lines': ctx.scale(150, 1500)}
    spec_path = os.path.join(root, 'spec.json')
    json.dump(spec, open(spec_path, 'w'))
    here = os.path.dirname(os.path.abspath(__file__))
    env = dict(os.environ, PYTHONPATH=os.path.dirname(here) + os.pathsep + os.environ.get('PYTHONPATH', ''))
    # watchdog: a hang is a TimeoutExpired / non-zero exit -> the check exits 2, never a VIOLATION
    p = subprocess.run([sys.executable, '-c', 'import sys; from props import c16; sys.exit(c16._explore_child(sys.argv[1]))', spec_path],
                       capture_output=True, text=True, timeout=ctx.scale(240, 2400), env=env, cwd=root)
    rep = None
    for line in p.stdout.splitlines():
        if line.startswith('REPORT '):
            rep = json.loads(line[7:])
    if p.returncode != 0 or rep is None:
        raise RuntimeError('exploration child failed (machinery, not a verdict): rc=%s %s' % (p.returncode, (p.stderr or p.stdout)[-1500:]))
    ctx.notes.append({'exploration': rep['pairs'], 'schedules': rep['schedules']})
    for pr in rep['pairs']:
        res.append({'name': 'exploration %s zone=%s: %d schedules, each task = its solo value, no stray file' % ('+'.join(pr['tasks']), pr['zone_state'], pr['schedules']),
                    'ok': pr['ok'] == pr['schedules'], 'case': next((v for v in rep['violations'] if v['pair'] == pr['tasks'] and v['zone_state'] == pr['zone_state']), None),
                    'detail': 'a task returned a different value / failed / left a file under some interleaving', 'replay_kind': 'schedule'})
    # the model replays every explored interleaving: per-task traces must be what the real tasks did
    lines = [m['line'] for m in rep['model_lines']]
    bad = None
    if lines:
        answers = vlib.run_driver(lines, which='model', cluster=CLUSTER)
        for m, a in zip(rep['model_lines'], answers):
            mod = a.get('model') or {}
            if a.get('driver_error'):
                raise RuntimeError('driver error on sched_run: ' + str(a))
            if mod.get('traces') != m['observed'] or any(o != 'ok' for o in mod.get('outcomes', [])):
                bad = {'line': m['line'], 'observed': m['observed'], 'model': mod}
                break
    res.append({'name': 'model replays %d explored interleavings: per-task effect traces agree' % len(lines), 'ok': bad is None, 'case': bad,
                'detail': 'Sys.run under the observed schedule predicts different observations than the real tasks made', 'replay_kind': 'schedule',
                'kind': None})
    _EXPLORE_STATS.update({'schedules': rep['schedules'], 'pairs': len(rep['pairs']), 'replayed_in_model': len(lines)})
    res += fx_tie_checks(ctx)                       # fxTie
    return res


_EXPLORE_STATS = {}


if __name__ == '__main__':
    sys.exit(_explore_child(sys.argv[1]))
