"""C13 -- superpose(): one rigid motion of the whole structure, optimal on the selection."""
import os, math, json, itertools, shutil
from fractions import Fraction
import numpy as np
import vlib
from vlib import rat, unrat, exc_tag
import complexgen as cg
from pdb2sql import pdb2sql
import importlib
SP = importlib.import_module('pdb2sql.superpose')     # the package re-exports the function under the module's name

ID = 'C13'
LEVEL = 'proof'
CLUSTER = 'G'
GEN_UNITS = ['Consts', 'data2pdb_line', '_format_atomname', '_format_xyz', 'record_loop', 'rotate', '_format_pdb_linelength', 'superpose_selection', 'get_trans_vect',
             'sup_runtime', 'sup_get_intersection', 'sup_superpose']
MODELS = ['Model.SupDb.superpose', 'Model.SupDb.getIntersection', 'Model.superposeSelection']
RULE = ('target = synthetic two-chain complex (complexgen: 3-12 residues per chain, side chains, optional hydrogens, all numbering styles); mobile = '
        'target jittered / rigidly displaced (random rotation + translation, rounded to the text precision; or lattice rotation + millesimal '
        'translation = exactly displaced copy) / with residues or atoms deleted on the mobile side, the target side or both (unequal selection '
        'sizes; equal sizes but different atoms: one residue deleted at different places, shifted residue windows) / records permuted; selections: '
        'everything, one chain, a residue-number list, an atom-name list, an excluded-name list, a residue-name list; only_backbone on/off; methods '
        'svd and quaternion; export on/off with file-backed databases (names ending in letters of ".pdb" included) in a fresh working directory; '
        'databases built from files or from line lists; mobile/target passed as database objects or as file names. Error stream: name given with '
        'only_backbone, unknown method, empty selection on one or both sides, empty selection together with an unknown method (the ValueError of the dispatch comes first), disjoint selections, export with a database built from lines. '
        'Point mutants: a residue with the same chain and number but another residue name in one of the two structures (either side), its atoms '
        'displaced by 2-4 A relative to the rest, equal and unequal selection sizes, both methods, only_backbone on/off -- its atoms are not shared atoms '
        '(identity = chain, residue number, residue NAME, atom name) and must not enter the fit. Few-atom selections (dedicated family, every case with both methods): exactly three atoms (three backbone atoms of one residue; one atom of three '
        'residues) = a plane, where the cross-covariance is singular and the reflection guard of the kernel decides, and exactly two atoms (a line), '
        'on exactly displaced, displaced-and-rounded and jittered copies; plus one-atom selections. Observed: mobile.get("*") and target.get("*") before/after, the matrix returned by '
        'get_rotation_matrix (wrapped, not modified), the files that appeared in the working directory. A case is non-trivial when distinct by '
        '(family, selection, options, number of shared atoms, route).')
ASSUMPTIONS = ['single-model files (no ENDMDL)',
               'the rotation kernel is a parameter of the model: the harness hands the model the matrix NumPy returned (exact rationals) and checks '
               'separately that it is orthogonal with determinant +1 within 1e-8 -- the motion is fitted as an AFFINE map on four non-coplanar atoms of the whole structure and the signed volume of those four atoms is compared before/after exactly in the Spec driver, so a mirror image is seen -- and that the resulting RMSD over the shared selected atoms equals '
               'the independent optimum (Horn/eigh in complexgen.min_rmsd) within 1e-6 (positional pairing) or 2e-3 (pairing through the exported '
               '3-decimal text)',
               'new coordinates are compared with the model within 1e-8 A (NumPy evaluates mean / dot in binary64, the model in exact rationals)',
               'SQLite returns the rows of the INNER JOIN in an unspecified order: the pairing is compared as a multiset (through the resulting motion)',
               'the text round trip of the selected atoms (sql2pdb -> parse) keeps their identities: reported per case by the model (text_stable) and '
               'required to hold on every generated intersection case']
TRUSTED = ['the published backbone atom names N, CA, C, O are given to the Spec by the harness (constant BACKBONE); the Model takes them from the source '
           '(Gen.superpose_backbone)']

BACKBONE = ['CA', 'C', 'N', 'O']
_RUN = [0]
_HEAVY = {}        # run id -> tables before/after and file contents (kept out of the reported outputs: they are large)


# ----------------------------------------------------------------------------------------------------------------
# cases
# ----------------------------------------------------------------------------------------------------------------

def pick_selection(rng, target, only_backbone):
    """(kwargs as a JSON-able dict, label)"""
    chains = target.chains()
    nums = sorted({r['resSeq'] for r in target.residues})
    kind = rng.choice(['all', 'all', 'chain', 'chain', 'resSeq', 'resSeq+chain', 'name', 'no_name', 'resName'])
    if kind == 'all':
        return {}, 'all'
    if kind == 'chain':
        return {'chainID': [rng.choice(chains)]}, 'chain'
    if kind == 'resSeq':
        k = rng.randint(2, max(2, len(nums) - 1))
        return {'resSeq': sorted(rng.sample(nums, min(k, len(nums))))}, 'resSeq'
    if kind == 'resSeq+chain':
        c = rng.choice(chains)
        cn = sorted({r['resSeq'] for r in target.residues if r['chain'] == c})
        return {'chainID': [c], 'resSeq': sorted(rng.sample(cn, min(len(cn), max(2, len(cn) // 2))))}, 'resSeq+chain'
    if kind == 'name':
        if only_backbone:
            return {}, 'all'
        return {'name': rng.choice([['CA'], ['CA', 'CB'], ['N', 'CA', 'C', 'O', 'CB'], ['CA', 'C', 'N']])}, 'name'
    if kind == 'no_name':
        if only_backbone:
            return {'no_resName': [rng.choice(cg.RESN)]}, 'no_resName'
        return {'no_name': ['H', 'HA', '1HB', 'HD21', 'O']}, 'no_name'
    return {'resName': rng.sample(cg.RESN, 4)}, 'resName'


def shifted_window(rng, target):
    """target keeps residues [0..n-2] of each chain, mobile keeps [1..n-1]: same sizes when the residues have the same atoms, different identities"""
    tar, mob = target.copy(), target.copy()
    by = {}
    for i, r in enumerate(target.residues):
        by.setdefault(r['chain'], []).append(i)
    drop_t = [ix[-1] for ix in by.values() if len(ix) > 2]
    drop_m = [ix[0] for ix in by.values() if len(ix) > 2]
    tar.residues = [r for i, r in enumerate(tar.residues) if i not in drop_t]
    mob.residues = [r for i, r in enumerate(mob.residues) if i not in drop_m]
    return tar, mob


FAMILIES = ['jitter', 'displaced', 'displaced_exact', 'del_mobile', 'del_target', 'del_both', 'window', 'permuted', 'atoms_missing']


def make_pair(rng, family):
    target = cg.make_complex(rng, hydrogens=rng.random() < 0.4)
    if family == 'jitter':
        mobile = cg.rigid_move(rng, cg.jitter(rng, target, rng.choice([0.2, 0.6, 1.5])))
    elif family == 'displaced':
        mobile = cg.rigid_move(rng, target)
    elif family == 'displaced_exact':
        mobile = cg.rigid_move(rng, target, exact=True)
    elif family == 'del_mobile':
        mobile = cg.delete_some(rng, cg.rigid_move(rng, cg.jitter(rng, target, 0.3)), n_res=rng.randint(1, 3), n_atoms=rng.randint(0, 2))
    elif family == 'del_target':
        mobile = cg.rigid_move(rng, cg.jitter(rng, target, 0.3))
        target = cg.delete_some(rng, target, n_res=rng.randint(1, 3), n_atoms=rng.randint(0, 2))
    elif family == 'del_both':
        mobile = cg.delete_some(rng, cg.rigid_move(rng, cg.jitter(rng, target, 0.3)), n_res=1)
        target = cg.delete_some(rng, target, n_res=1)
    elif family == 'window':
        target, mobile = shifted_window(rng, target)
        mobile = cg.rigid_move(rng, cg.jitter(rng, mobile, rng.choice([0.0, 0.3])))
    elif family == 'permuted':
        mobile = cg.permute(rng, cg.rigid_move(rng, cg.jitter(rng, target, 0.3)), rng.choice(['atoms', 'residues', 'chains']))
    else:  # atoms_missing
        mobile = cg.delete_some(rng, cg.rigid_move(rng, target), n_res=0, n_atoms=rng.randint(1, 5))
        target = cg.delete_some(rng, target, n_res=0, n_atoms=rng.randint(0, 3))
    return target, mobile


NAMES = [('mobile.pdb', 'target.pdb'), ('decoy_5w.pdb', 'ref.pdb'), ('model_b.pdb', 'xtal_d.pdb'), ('mob', 'tar.ent'), ('a.b.pdb', 'pdb.pdb')]


def mk(target, mobile, sel, family, only_backbone=True, method='svd', export=False, source='file', by_name=False, names=None, expect_error=False,
       sel_label='', exact_copy=False):
    return {'op': 'superpose', 'target': target, 'mobile': mobile, 'sel': sel, 'only_backbone': only_backbone, 'method': method, 'export': export,
            'source': source, 'by_name': by_name, 'names': list(names or NAMES[0]), 'family': family, 'expect_error': expect_error, 'sel_label': sel_label,
            'exact_copy': exact_copy}


def cases(ctx):
    rng = ctx.rng
    out = []
    n = ctx.scale(10, 60)
    for fam in FAMILIES:
        for k in range(n):
            target, mobile = make_pair(rng, fam)
            ob = rng.random() < 0.5
            sel, label = pick_selection(rng, target, ob)
            export = rng.random() < 0.35
            source = 'file' if export else rng.choice(['file', 'lines'])
            out.append(mk(target.lines(), mobile.lines(), sel, fam, only_backbone=ob, method=rng.choice(['svd', 'quaternion']), export=export,
                          source=source, by_name=(source == 'file' and rng.random() < 0.2), names=rng.choice(NAMES), sel_label=label,
                          exact_copy=(fam == 'displaced_exact')))
    out += few_atom_cases(ctx, ctx.scale(8, 40))
    # one-element conditions given as bare scalars, among them the falsy residue number 0 (round-4 seed C13-r4m2: empty-looking
    # keywords dropped with `if val`, which also drops resSeq=0): numbering shifted so that a selected residue IS number 0
    for k in range(ctx.scale(8, 40)):
        target, mobile = make_pair(rng, rng.choice(['jitter', 'displaced', 'del_mobile', 'del_target']))
        nums = sorted({r['resSeq'] for r in target.residues if any(m['chain'] == r['chain'] and m['resSeq'] == r['resSeq'] for m in mobile.residues)})
        pick = rng.choice(nums)
        if k % 2 == 0 and all(-999 <= r['resSeq'] - pick <= 9999 for cx in (target, mobile) for r in cx.residues):
            for cx in (target, mobile):
                for r in cx.residues:
                    r['resSeq'] -= pick                      # the picked residue becomes residue 0 in both structures
            pick = 0
        ch = rng.choice(sorted({r['chain'] for r in target.residues if r['resSeq'] == pick}))
        sel, sk = rng.choice([({'resSeq': [pick]}, ['resSeq']), ({'chainID': [ch], 'resSeq': [pick]}, ['resSeq']),
                              ({'chainID': [ch], 'resSeq': [pick]}, ['chainID', 'resSeq'])] + ([({'chainID': [ch]}, ['chainID'])] if pick != 0 else []))
        ob = rng.random() < 0.5
        if k % 4 == 3:
            # a bare multi-character STRING (name='CA', resName='ALA'): one value, not a sequence of characters
            # (round-8 seed C13-r8m1: `list(v)` applied to every keyword value turns 'CA' into ['C', 'A'])
            if rng.random() < 0.6:
                sel, sk, ob = {'name': [rng.choice(['CA', 'CB', 'CA'])]}, ['name'], False
            else:
                sel, sk = {'resName': [rng.choice(sorted({r['resName'] for r in target.residues}))]}, ['resName']
        out.append(mk(target.lines(), mobile.lines(), sel, 'scalar-selection', only_backbone=ob, method=rng.choice(['svd', 'quaternion']),
                      source=rng.choice(['file', 'lines']), sel_label='scalar:' + '+'.join(sk) + (':zero' if pick == 0 and 'resSeq' in sel else '')))
        out[-1]['scalar_keys'] = sk
    out += point_mutant_cases(ctx, ctx.scale(12, 60))
    # degenerate selections
    for k in range(ctx.scale(3, 12)):
        target, mobile = make_pair(rng, rng.choice(['jitter', 'displaced', 'del_mobile']))
        r = rng.choice([r for r in target.residues if any(m['chain'] == r['chain'] and m['resSeq'] == r['resSeq'] for m in mobile.residues)])
        out.append(mk(target.lines(), mobile.lines(), {'chainID': [r['chain']], 'resSeq': [r['resSeq']], 'name': ['CA']}, 'one-atom',
                      only_backbone=False, method=rng.choice(['svd', 'quaternion']), sel_label='one atom'))
        out.append(mk(target.lines(), mobile.lines(), {'chainID': [r['chain']], 'resSeq': [r['resSeq']], 'name': ['CA', 'N']}, 'two-atoms',
                      only_backbone=False, method=rng.choice(['svd', 'quaternion']), sel_label='two atoms'))
    # error stream
    for k in range(ctx.scale(2, 8)):
        target, mobile = make_pair(rng, 'jitter')
        T, M = target.lines(), mobile.lines()
        ch = target.chains()
        out.append(mk(T, M, {'name': ['CA']}, 'name+only_backbone', only_backbone=True, expect_error=True))
        out.append(mk(T, M, {}, 'unknown-method', method='foo', expect_error=True))
        out.append(mk(T, M, {'chainID': ['Q']}, 'empty-both', expect_error=True))
        out.append(mk(T, [l for l in M if l[21] == ch[0]], {'chainID': [ch[1]]}, 'empty-mobile', expect_error=True))
        out.append(mk([l for l in T if l[21] == ch[0]], M, {'chainID': [ch[1]]}, 'empty-target', expect_error=True))
        out.append(mk([l for l in T if l[21] == ch[0]], [l for l in M if l[21] == ch[1]], {}, 'disjoint', expect_error=True))
        out.append(mk(T, M, {}, 'export-from-lines', export=True, source='lines', expect_error=True))
        # empty selection AND unknown method: superpose_selection still calls the kernel, whose dispatch raises ValueError (before any TypeError)
        out.append(mk(T, M, {'chainID': ['Q']}, 'empty+unknown-method', method=rng.choice(['foo', 'kabsch', '']), only_backbone=rng.random() < 0.5,
                      expect_error=True))
    return out


def point_mutant_pair(rng):
    """target / mobile that differ by a point mutation: one residue keeps chain and number but carries another residue name in one of the two
    structures, and its atoms sit elsewhere (shifted by ~4 A relative to the rest); optionally another residue is missing on one side (unequal
    selection sizes); the mobile is then moved rigidly.  The mutated residue's atoms are NOT shared atoms (the residue name differs)."""
    base = cg.make_complex(rng, hydrogens=rng.random() < 0.3)
    target, mobile = base.copy(), base.copy()
    side = rng.choice(['mobile', 'target'])
    cx = mobile if side == 'mobile' else target
    for _ in range(rng.choice([1, 1, 2])):
        r = rng.choice(cx.residues)
        r['resName'] = rng.choice([n for n in cg.RESN + ['PHE', 'LYS'] if n != r['resName']])
        d = [rng.choice([-1, 1]) * rng.uniform(2.0, 4.0) for _ in range(3)]
        r['atoms'] = [(n, e, tuple(round(v + dv, 3) for v, dv in zip(xyz, d))) for (n, e, xyz) in r['atoms']]
    sizes = rng.choice(['equal', 'equal', 'unequal'])
    if sizes == 'unequal':
        other = rng.choice([mobile, target])
        cand = [i for i, r in enumerate(other.residues) if r['resName'] in cg.RESN]
        if len(cand) > 3:
            del other.residues[rng.choice(cand)]
    mobile = cg.rigid_move(rng, mobile, exact=rng.random() < 0.5)
    if rng.random() < 0.3:
        mobile = cg.jitter(rng, mobile, 0.05)
    return target, mobile, side, sizes


def point_mutant_cases(ctx, n, family='point_mutant'):
    rng = ctx.rng
    out = []
    for k in range(n):
        target, mobile, side, sizes = point_mutant_pair(rng)
        T, M = target.lines(), mobile.lines()
        ob = (k % 2 == 0)
        sel, label = rng.choice([({}, 'all'), ({}, 'all'), ({'chainID': [rng.choice(target.chains())]}, 'chain')])
        for method in ('svd', 'quaternion'):
            out.append(mk(T, M, sel, family, only_backbone=ob, method=method, source=rng.choice(['file', 'lines']),
                          sel_label=f'{label}; mutation on the {side} side; {sizes} sizes'))
    return out


def few_atom_selections(rng, target, mobile):
    """(selection, label) of exactly three atoms (a plane: the cross-covariance handed to the kernel is singular) and of exactly two atoms
    (a line), all present in both structures"""
    common = [r for r in target.residues if len(r['atoms']) >= 4 and
              any(m['chain'] == r['chain'] and m['resSeq'] == r['resSeq'] and len(m['atoms']) >= 4 for m in mobile.residues)]
    out = []
    rs = rng.sample(common, min(2, len(common)))
    for r in rs[:2]:
        out.append(({'chainID': [r['chain']], 'resSeq': [r['resSeq']], 'name': rng.choice([['N', 'CA', 'C'], ['CA', 'C', 'O'], ['N', 'C', 'O']])},
                    'three atoms of one residue'))
    for ch in target.chains():
        cr = [r for r in common if r['chain'] == ch]
        if len(cr) >= 3:
            trio = rng.sample(cr, 3)
            out.append(({'chainID': [ch], 'resSeq': sorted(r['resSeq'] for r in trio), 'name': [rng.choice(['CA', 'N', 'O'])]},
                        'one atom of three residues'))
            break
    if rs:
        r = rs[0]
        out.append(({'chainID': [r['chain']], 'resSeq': [r['resSeq']], 'name': rng.choice([['CA', 'N'], ['C', 'O'], ['N', 'O']])}, 'two atoms of one residue'))
    for ch in target.chains():
        cr = [r for r in common if r['chain'] == ch]
        if len(cr) >= 2:
            duo = rng.sample(cr, 2)
            out.append(({'chainID': [ch], 'resSeq': sorted(r['resSeq'] for r in duo), 'name': ['CA']}, 'one atom of two residues'))
            break
    return out


def few_atom_cases(ctx, n_complexes, family='few-atoms'):
    """selections of exactly three / exactly two atoms x both methods; mobiles: exactly displaced copies (must land back as a whole when three
    atoms are selected), displaced-and-rounded copies, jittered copies"""
    rng = ctx.rng
    out = []
    for k in range(n_complexes):
        target = cg.make_complex(rng, hydrogens=rng.random() < 0.3)
        kind = ['exact', 'exact', 'rounded', 'jitter'][k % 4]
        if kind == 'exact':
            mobile = cg.rigid_move(rng, target, exact=True)
        elif kind == 'rounded':
            mobile = cg.rigid_move(rng, target)
        else:
            mobile = cg.rigid_move(rng, cg.jitter(rng, target, rng.choice([0.2, 0.6])))
        T, M = target.lines(), mobile.lines()
        for sel, label in few_atom_selections(rng, target, mobile):
            for method in ('svd', 'quaternion'):
                out.append(mk(T, M, sel, family, only_backbone=False, method=method, source=rng.choice(['file', 'lines']), sel_label=label,
                              exact_copy=(kind == 'exact')))
    return out


def search_cases(ctx):
    rng = ctx.rng
    out = few_atom_cases(ctx, 12, family='search-few-atoms')
    out += point_mutant_cases(ctx, 24, family='search-point_mutant')
    for fam in ('del_both', 'window', 'permuted', 'displaced_exact', 'del_mobile', 'del_target'):
        for k in range(12):
            target, mobile = make_pair(rng, fam)
            for ob in (True, False):
                out.append(mk(target.lines(), mobile.lines(), {}, 'search-' + fam, only_backbone=ob, method=rng.choice(['svd', 'quaternion']),
                              exact_copy=(fam == 'displaced_exact')))
    return out


# ----------------------------------------------------------------------------------------------------------------
# running the real code
# ----------------------------------------------------------------------------------------------------------------

def table_of(db):
    out = []
    for r in db.get('*'):
        out.append([int(r[0]), r[1], r[2], r[3], r[4], int(r[5]), r[6], rat(float(r[7])), rat(float(r[8])), rat(float(r[9])),
                    rat(float(r[10])), rat(float(r[11])), r[12], int(r[13])])
    return out


def kwargs_of(sel, scalar_keys=()):
    # a one-element condition may be passed as a bare scalar (C03: a scalar acts as a one-element list); the model always sees the list
    return {k: (v[0] if k in scalar_keys and len(v) == 1 else list(v)) for k, v in sel.items()}


def impl(ctx, c):
    _RUN[0] += 1
    work = os.path.join(ctx.tmpdir(), f'run{_RUN[0]}')
    os.makedirs(os.path.join(work, 'in'))
    cwd = os.getcwd()
    os.chdir(work)
    seen = {}
    orig_rot, orig_int = SP.get_rotation_matrix, SP.get_intersection

    def rot(p, q, method='svd'):
        seen['n_pairs'] = int(np.asarray(p).shape[0]) if np.asarray(p).ndim == 2 else 0
        try:
            R = orig_rot(p, q, method=method)
        except Exception as e:
            seen['kernel'] = {'err': exc_tag(e)}
            raise
        seen['kernel'] = {'R': [rat(float(v)) for v in np.asarray(R, float).flatten()]}
        return R

    def inter(db1, db2, **kw):
        seen['route'] = 'intersection'
        return orig_int(db1, db2, **kw)

    out = {'error': None, 'kernel': None, 'route': 'positional', 'n_pairs': None, 'files': {}}
    try:
        mfile = os.path.join('in', c['names'][0])
        tfile = os.path.join('in', c['names'][1])
        if c['source'] == 'file':
            for p, ls in ((mfile, c['mobile']), (tfile, c['target'])):
                with open(p, 'w') as f:
                    f.write('\n'.join(ls) + '\n')
            dm, dt = pdb2sql(mfile), pdb2sql(tfile)
        else:
            dm, dt = pdb2sql(list(c['mobile'])), pdb2sql(list(c['target']))
        out['mobile_before'], out['target_before'] = table_of(dm), table_of(dt)
        SP.get_rotation_matrix, SP.get_intersection = rot, inter
        try:
            if c['by_name']:
                res = SP.superpose(mfile, tfile, method=c['method'], only_backbone=c['only_backbone'], export=c['export'], **kwargs_of(c['sel'], c.get('scalar_keys', ())))
                out['mobile_after'] = table_of(res)
                out['target_after'] = table_of(pdb2sql(tfile))          # the target database lives inside the call: the file is what remains
                out['returned_is_mobile'] = None
            else:
                res = SP.superpose(dm, dt, method=c['method'], only_backbone=c['only_backbone'], export=c['export'], **kwargs_of(c['sel'], c.get('scalar_keys', ())))
                out['returned_is_mobile'] = res is dm
        except Exception as e:
            out['error'] = exc_tag(e)
        finally:
            SP.get_rotation_matrix, SP.get_intersection = orig_rot, orig_int
        if 'mobile_after' not in out:
            out['mobile_after'], out['target_after'] = table_of(dm), table_of(dt)
        out['kernel'] = seen.get('kernel')
        out['route'] = seen.get('route', 'positional')
        out['n_pairs'] = seen.get('n_pairs')
        for fn in sorted(os.listdir('.')):
            if fn != 'in':
                with open(fn) as f:
                    out['files'][fn] = f.read().split('\n')
        # the input files must be as written
        if c['source'] == 'file':
            out['inputs_intact'] = open(mfile).read() == '\n'.join(c['mobile']) + '\n' and open(tfile).read() == '\n'.join(c['target']) + '\n' \
                and sorted(os.listdir('in')) == sorted(set(c['names']))
        heavy = {k: out.pop(k) for k in ('mobile_before', 'target_before', 'mobile_after', 'target_after') if k in out}
        heavy['files'] = out['files']
        out['files'] = sorted(out['files'])
        out['heavy'] = _RUN[0]
        _HEAVY[_RUN[0]] = heavy
        return out
    finally:
        SP.get_rotation_matrix, SP.get_intersection = orig_rot, orig_int
        os.chdir(cwd)
        shutil.rmtree(work, ignore_errors=True)


def xyz_of(table):
    return np.array([[float(unrat(r[7])), float(unrat(r[8])), float(unrat(r[9]))] for r in table], float)


def four_noncoplanar(X):
    """indices of four atoms spanning a volume (greedy: far apart, large area, large volume), or None"""
    if len(X) < 4:
        return None
    i0 = 0
    i1 = int(np.argmax(((X - X[i0]) ** 2).sum(1)))
    cr = np.cross(X - X[i0], X[i1] - X[i0])
    i2 = int(np.argmax((cr ** 2).sum(1)))
    nrm = np.cross(X[i1] - X[i0], X[i2] - X[i0])
    vol = np.abs((X - X[i0]) @ nrm)
    i3 = int(np.argmax(vol))
    return [i0, i1, i2, i3] if vol[i3] > 1e-2 else None


def fit_motion(X, Y):
    """(A, t, idx) with Y ~ A X + t: the AFFINE map through four non-coplanar atoms of the whole structure when there are such (so that a
    reflection shows up as det A = -1), otherwise the optimal rigid fit (idx None)"""
    n = len(X)
    idx = four_noncoplanar(X)
    if idx is not None:
        M = np.linalg.solve(np.hstack([X[idx], np.ones((4, 1))]), Y[idx])
        return M[:3].T, M[3], idx
    if n == 0:
        return np.eye(3), np.zeros(3), None
    cx, cy = X.mean(0), Y.mean(0)
    R = cg.optimal_rotation(X - cx, Y - cy) if n > 1 else np.eye(3)
    return R, cy - R @ cx, None


def driver_line(c, out):
    hv = _HEAVY.get(out.get('heavy'), {}) if isinstance(out, dict) else {}
    if 'mobile_before' not in hv:
        return {'op': 'superpose', 'mobile': [], 'target': [], 'mobile_after': [], 'target_after': [], 'sel': c['sel'], 'only_backbone': c['only_backbone'],
                'export': c['export'], 'kernel': {}, 'backbone': BACKBONE, 'fit_R': [rat(v) for v in np.eye(3).flatten()], 'fit_t': ['0/1'] * 3}
    A, t, idx = fit_motion(xyz_of(hv['mobile_before']), xyz_of(hv['mobile_after'])) if len(hv['mobile_before']) == len(hv['mobile_after']) \
        else (np.eye(3), np.zeros(3), None)
    line = {'op': 'superpose', 'mobile': hv['mobile_before'], 'target': hv['target_before'], 'mobile_after': hv['mobile_after'],
            'target_after': hv['target_after'], 'sel': c['sel'], 'only_backbone': c['only_backbone'], 'export': c['export'],
            'kernel': out['kernel'] or {}, 'backbone': BACKBONE,
            'fit_R': [rat(float(v)) for v in A.flatten()], 'fit_t': [rat(float(v)) for v in t]}
    if idx is not None:
        line['fit_idx'] = idx
    if c['source'] == 'file':
        line['mobile_file'] = os.path.join('in', c['names'][0])
        line['target_file'] = os.path.join('in', c['names'][1])
    return line


# ----------------------------------------------------------------------------------------------------------------
# comparison
# ----------------------------------------------------------------------------------------------------------------

def rows_close(a, b, tol):
    """None when equal up to `tol` in the float columns, else a description"""
    if len(a) != len(b):
        return f'{len(a)} rows vs {len(b)} rows'
    for i, (r, s) in enumerate(zip(a, b)):
        for k in range(14):
            if k in (7, 8, 9, 10, 11):
                if abs(unrat(r[k]) - unrat(s[k])) > tol:
                    return f'row {i} column {k}: {float(unrat(r[k]))!r} vs {float(unrat(s[k]))!r}'
            elif r[k] != s[k]:
                return f'row {i} column {k}: {r[k]!r} vs {s[k]!r}'
    return None


def lines_close(a, b):
    """True / 'discard' (a coordinate differs by one unit in the last printed decimal) / description"""
    a = [l for l in a if l != '']
    b = [l.rstrip('\n') for l in b]
    if a == b:
        return True
    if len(a) != len(b):
        return f'{len(a)} lines vs {len(b)} lines'
    for x, y in zip(a, b):
        if x == y:
            continue
        if x[:30] != y[:30] or x[54:] != y[54:]:
            return f'{x!r} vs {y!r}'
        for s in (slice(30, 38), slice(38, 46), slice(46, 54)):
            if abs(float(x[s]) - float(y[s])) > 0.0011:
                return f'{x!r} vs {y!r}'
    return 'discard'


def agree_model(c, out, model):
    res = model['result']
    if out['error'] is not None:
        if out['kernel'] is None and isinstance(res, str) and res.startswith('ERR:UNMODELLED'):
            return f'the model called the kernel, the implementation raised {out["error"]} before'
        return True if res == out['error'] else f'implementation raised {out["error"]}, model {str(res)[:200]}'
    if isinstance(res, str):
        return f'implementation returned, model {res}'
    hv = _HEAVY[out['heavy']]
    d = rows_close(hv['mobile_after'], res['mobile'], Fraction(1, 10 ** 8))
    if d:
        return 'mobile after: implementation vs model ' + d
    if hv['target_after'] != res['target']:
        return 'target after: implementation vs model differ'
    info = model['info']
    if info['route'] != out['route']:
        return f'pairing route: implementation {out["route"]}, model {info["route"]}'
    if out['n_pairs'] is not None and info['pairs'] != out['n_pairs']:
        return f'pairs handed to the kernel: implementation {out["n_pairs"]}, model {info["pairs"]}'
    if info['route'] == 'intersection' and info['text_stable'] is not True:
        return 'generator: the text round trip changed the identity of a selected atom'
    mf = {f[0]: f[1] for f in res['files']}
    if sorted(mf) != sorted(out['files']):
        return f'files: implementation {sorted(out["files"])}, model {sorted(mf)}'
    for fn in mf:
        v = lines_close(hv['files'][fn], mf[fn])
        if v is not True:
            return v if v == 'discard' else f'content of {fn}: ' + v
    return True


def agree_spec(c, out, spec):
    hv = _HEAVY.get(out.get('heavy'), {})
    if 'mobile_before' not in hv:
        return True
    # whatever happened: nothing but the mobile coordinates may have changed, and files only with export
    if not spec['count_same']:
        return 'the atom count of the mobile structure changed'
    if not spec['attrs_same']:
        return 'an attribute other than x,y,z of the mobile structure changed (or the atom order did)'
    if not spec['target_same']:
        return 'the target structure changed'
    if out.get('inputs_intact') is False:
        return 'an input file was modified or a file was written next to it'
    if not c['export'] and out['files']:
        return f'export=False but files appeared: {sorted(out["files"])}'
    if out['error'] is not None:
        if c['expect_error']:
            return True
        if spec['n_shared'] > 0:
            return f'the call raised {out["error"]} although the structures share {spec["n_shared"]} selected atoms'
        return True
    if c['export'] and len(out['files']) != 1:
        return f'export=True: {len(out["files"])} files appeared: {sorted(out["files"])}'
    if out.get('returned_is_mobile') is False:
        return 'superpose() did not return the mobile database it was given'
    # one rigid motion for all atoms
    if unrat(spec['orth_defect']) > Fraction(1, 10 ** 8) or unrat(spec['det_defect']) > Fraction(1, 10 ** 8):
        return f'the fitted motion is not a proper rotation: orthogonality defect {float(unrat(spec["orth_defect"])):.3g}, |det-1| {float(unrat(spec["det_defect"])):.3g}'
    tb, ta = unrat(spec['triple_before']), unrat(spec['triple_after'])
    if tb != 0 and (ta == 0 or (ta > 0) != (tb > 0)):
        return f'the mobile structure was mirrored: the signed volume of four of its atoms went from {float(tb):.3f} to {float(ta):.3f}'
    if tb != 0 and abs(abs(float(ta)) - abs(float(tb))) > 1e-6 * max(1.0, abs(float(tb))):
        return f'not a rigid motion: the volume spanned by four atoms changed from {float(tb):.6f} to {float(ta):.6f}'
    if unrat(spec['motion_defect']) > Fraction(1, 10 ** 12):
        return f'not one rigid motion: an atom is {math.sqrt(float(unrat(spec["motion_defect"]))):.3g} A away from the motion fitted on four others'
    # optimal on the shared selected atoms
    if spec['n_shared'] > 0 and spec['unique_ident']:
        P = np.array([[float(unrat(v)) for v in p[0]] for p in spec['shared_before']])
        Q = np.array([[float(unrat(v)) for v in p[1]] for p in spec['shared_before']])
        opt = cg.min_rmsd(P, Q)
        got = math.sqrt(float(unrat(spec['sq_dev_after'])) / spec['n_shared'])
        tol = 1e-6 if out['route'] == 'positional' else 2e-3
        if got > opt + tol:
            return f'RMSD over the {spec["n_shared"]} shared selected atoms after superposition {got:.6f}, attainable {opt:.6f} (route {out["route"]})'
        # a rigidly displaced copy lands back: ALL atoms, not only the selected ones, as soon as the selection fixes the rotation (rank >= 2)
        if c.get('exact_copy') and len(hv['mobile_after']) == len(hv['target_after']):
            A, Bt = xyz_of(hv['mobile_after']), xyz_of(hv['target_after'])
            if rank_of(Q) >= 2:
                dev = float(np.abs(A - Bt).max())
                if dev > 1e-6:
                    return f'exactly displaced copy does not land back: an atom (selected or not) is off by {dev:.3g} A'
            else:       # rank < 2: only the selected atoms are pinned down
                after_sel = {tuple(np.round(p, 6)) for p in Q}
                sel_dev = max((float(np.abs(a - b).max()) for a, b in zip(A, Bt) if tuple(np.round(b, 6)) in after_sel), default=0.0)
                if sel_dev > 1e-6:
                    return f'exactly displaced copy: a selected atom does not land back (off by {sel_dev:.3g} A)'
    return True


def rank_of(P):
    if len(P) < 2:
        return 0
    s = np.linalg.svd(P - P.mean(0), compute_uv=False)
    return int((s > 1e-3).sum())


def nontrivial_key(c, out):
    if not isinstance(out, dict):
        return None
    return [c['family'], json.dumps(c['sel'], sort_keys=True), c['only_backbone'], c['method'], c['export'], c['source'], out.get('route'),
            out.get('n_pairs'), out.get('error'), len(c['mobile']), len(c['target'])]


def distribution(recs):
    d = {'families': {}, 'routes': {}, 'selections': {}, 'methods': {}, 'export': {'on': 0, 'off': 0}, 'errors': {}, 'only_backbone': {'on': 0, 'off': 0},
         'equal_sizes_different_atoms': 0, 'pairs_handed_to_kernel': {'min': None, 'max': None}, 'shared_selected_atoms': {'min': None, 'max': None}}
    ns = []
    for r in recs:
        c, o = r['case'], r['impl']
        d['families'][c['family']] = d['families'].get(c['family'], 0) + 1
        d['selections'][c['sel_label'] or c['family']] = d['selections'].get(c['sel_label'] or c['family'], 0) + 1
        d['methods'][c['method']] = d['methods'].get(c['method'], 0) + 1
        d['export']['on' if c['export'] else 'off'] += 1
        d['only_backbone']['on' if c['only_backbone'] else 'off'] += 1
        if isinstance(o, dict):
            if o.get('error'):
                d['errors'][o['error']] = d['errors'].get(o['error'], 0) + 1
            else:
                d['routes'][o.get('route')] = d['routes'].get(o.get('route'), 0) + 1
                if o.get('n_pairs') is not None:
                    ns.append(o['n_pairs'])
    if ns:
        d['pairs_handed_to_kernel'] = {'min': min(ns), 'max': max(ns)}
    sh = [r['spec']['n_shared'] for r in recs if isinstance(r.get('spec'), dict) and 'n_shared' in r['spec']]
    if sh:
        d['shared_selected_atoms'] = {'min': min(sh), 'max': max(sh)}
    # same number of selected atoms on both sides, yet different atoms (the case size-based pairing gets wrong)
    d['equal_sizes_different_atoms'] = sum(1 for r in recs if isinstance(r['impl'], dict) and r['impl'].get('route') == 'intersection'
                                           and isinstance(r.get('model'), dict) and r['case']['family'] in ('window', 'del_both'))
    return d


# ================================================================================================================
# supTie: the GENERATED superpose() / get_intersection (Gen/Sup.lean, translated from superpose.py on every run) against the real code
# ================================================================================================================

def gensup_checks(ctx):
    """implementation = generated = hand model.  Every case is run through the real `superpose()` (as `impl` does), and the same
    tables / options / keywords / kernel result go through the driver operation `gen_superpose`, which runs `GenSup.superpose` and
    `Model.SupDb.superpose`: the two must be EQUAL (exact rationals: this is `gensup_superpose_eq_model` on the sample), and the
    generated function must agree with the implementation (same exception class; coordinates within 1e-8; same files, same lines up
    to the last printed decimal).  `get_intersection` is compared on its own as a multiset of pairs (SQLite's join order is free)."""
    rng = ctx.rng
    res = []
    cs = []
    for fam in FAMILIES:
        for k in range(ctx.scale(3, 14)):
            target, mobile = make_pair(rng, fam)
            ob = rng.random() < 0.5
            sel, label = pick_selection(rng, target, ob)
            export = rng.random() < 0.4
            source = 'file' if export else rng.choice(['file', 'lines'])
            cs.append(mk(target.lines(), mobile.lines(), sel, 'gen-' + fam, only_backbone=ob, method=rng.choice(['svd', 'quaternion']), export=export,
                         source=source, by_name=(source == 'file' and rng.random() < 0.3), names=rng.choice(NAMES), sel_label=label))
    cs += [dict(c, family='gen-' + c['family']) for c in point_mutant_cases(ctx, ctx.scale(2, 8))]
    cs += [dict(c, family='gen-' + c['family']) for c in few_atom_cases(ctx, ctx.scale(1, 4))]
    for k in range(ctx.scale(1, 4)):        # the error stream, and keywords `get` rejects
        target, mobile = make_pair(rng, 'jitter')
        T, M = target.lines(), mobile.lines()
        ch = target.chains()
        cs.append(mk(T, M, {'name': ['CA']}, 'gen-name+only_backbone', only_backbone=True, expect_error=True))
        cs.append(mk(T, M, {'chainID': ['Q']}, 'gen-empty-both', expect_error=True))
        cs.append(mk(T, [l for l in M if l[21] == ch[0]], {'chainID': [ch[1]]}, 'gen-empty-mobile', expect_error=True))
        cs.append(mk([l for l in T if l[21] == ch[0]], [l for l in M if l[21] == ch[1]], {}, 'gen-disjoint', expect_error=True))
        cs.append(mk(T, M, {}, 'gen-export-from-lines', export=True, source='lines', expect_error=True))
        cs.append(mk(T, M, {'chainID': ['Q']}, 'gen-empty+unknown-method', method='foo', expect_error=True))
        cs.append(mk(T, M, {'colour': ['red']}, 'gen-unknown-keyword', only_backbone=False, expect_error=True))
        cs.append(mk(T, M, {'no_colour': ['red']}, 'gen-unknown-keyword', only_backbone=True, expect_error=True))
    lines, outs = [], []
    for c in cs:
        try:
            out = impl(ctx, c)
        except Exception as e:
            res.append({'name': 'generated superpose: harness', 'ok': False, 'case': {k: c[k] for k in ('family', 'sel', 'method')}, 'detail': repr(e)})
            continue
        ln = driver_line(c, out)
        ln['op'] = 'gen_superpose'
        ln['by_name'] = bool(c['by_name'])
        lines.append(ln); outs.append((c, out))
    bad_eq, bad_impl, n_ok, n_err, n_files, discards = None, None, 0, 0, 0, 0
    if lines:
        ans = vlib.run_driver(lines, which='model', cluster=CLUSTER)
        for (c, out), a in zip(outs, ans):
            m = a.get('model')
            brief = {k: c[k] for k in ('family', 'sel', 'only_backbone', 'method', 'export', 'source', 'by_name', 'names')}
            if not isinstance(m, dict):
                bad_impl = bad_impl or (brief, f'driver: {str(a)[:300]}')
                continue
            if m.get('equal') is not True and m.get('kw_check') is None:
                bad_eq = bad_eq or (brief, f'generated {str(m.get("gen"))[:200]} vs hand model {str(m.get("model"))[:200]}')
            v = _gensup_agree(c, out, m['gen'])
            if v == 'discard':
                discards += 1
            elif v is not True:
                bad_impl = bad_impl or (brief, v)
            elif out['error'] is None:
                n_ok += 1; n_files += len(out['files'])
            else:
                n_err += 1
    res.append({'name': f'generated superpose() = hand model on {len(lines)} cases (exact)', 'ok': bad_eq is None,
                'case': bad_eq[0] if bad_eq else None, 'detail': bad_eq[1] if bad_eq else ''})
    res.append({'name': f'generated superpose() = implementation on {len(lines)} cases ({n_ok} returned, {n_err} raised, {n_files} files, {discards} discarded)',
                'ok': bad_impl is None, 'case': bad_impl[0] if bad_impl else None, 'detail': bad_impl[1] if bad_impl else ''})
    # get_intersection on its own
    glines, gouts = [], []
    for k in range(ctx.scale(6, 30)):
        target, mobile = make_pair(rng, rng.choice(['del_mobile', 'del_target', 'del_both', 'window', 'atoms_missing', 'jitter']))
        sel, _ = pick_selection(rng, target, False)
        try:
            d1, d2 = pdb2sql(list(mobile.lines())), pdb2sql(list(target.lines()))
            t1, t2 = table_of(d1), table_of(d2)
            try:
                a, b = SP.get_intersection(d1, d2, **kwargs_of(sel))
                got = sorted((tuple(rat(float(v)) for v in p), tuple(rat(float(v)) for v in q)) for p, q in zip(np.asarray(a).tolist(), np.asarray(b).tolist())) \
                    if np.asarray(a).ndim == 2 else []
            except Exception as e:
                got = exc_tag(e)
        except Exception as e:
            res.append({'name': 'generated get_intersection: harness', 'ok': False, 'case': {'sel': sel}, 'detail': repr(e)})
            continue
        glines.append({'op': 'gen_get_intersection', 'db1': t1, 'db2': t2, 'sel': sel}); gouts.append((sel, got))
    badg = None
    if glines:
        for (sel, got), a in zip(gouts, vlib.run_driver(glines, which='model', cluster=CLUSTER)):
            m = a.get('model')
            if not isinstance(m, dict) or m.get('equal') is not True:
                badg = badg or ({'sel': sel}, f'generated vs hand model: {str(a)[:300]}')
                continue
            g = m['gen']
            if isinstance(g, str) or isinstance(got, str):
                if g != got:
                    badg = badg or ({'sel': sel}, f'implementation {str(got)[:100]}, generated {str(g)[:100]}')
                continue
            gen_pairs = sorted((tuple(p), tuple(q)) for p, q in zip(g[0], g[1]))
            if len(gen_pairs) != len(got) or any(max(abs(unrat(x) - unrat(y)) for x, y in zip(gp[0] + gp[1], ip[0] + ip[1])) > Fraction(1, 10 ** 9)
                                                   for gp, ip in zip(sorted(gen_pairs, key=_fkey), sorted(got, key=_fkey))):
                badg = badg or ({'sel': sel}, f'pairs differ: implementation {len(got)}, generated {len(gen_pairs)}')
    res.append({'name': f'generated get_intersection = hand model = implementation (multiset of pairs) on {len(glines)} pairs of structures',
                'ok': badg is None, 'case': badg[0] if badg else None, 'detail': badg[1] if badg else ''})
    return res


def _fkey(pair):
    return tuple(float(unrat(v)) for v in pair[0] + pair[1])


def _gensup_agree(c, out, res):
    """implementation vs the generated function's answer (as `agree_model`, without the model-only diagnostics)"""
    if out['error'] is not None:
        if isinstance(res, str) and res.startswith('ERR:UNMODELLED') and out['kernel'] is None:
            return f'the generated function called the kernel, the implementation raised {out["error"]} before'
        return True if res == out['error'] else f'implementation raised {out["error"]}, generated {str(res)[:200]}'
    if isinstance(res, str):
        return f'implementation returned, generated {res}'
    hv = _HEAVY[out['heavy']]
    d = rows_close(hv['mobile_after'], res['mobile'], Fraction(1, 10 ** 8))
    if d:
        return 'mobile after: implementation vs generated ' + d
    mf = {f[0]: f[1] for f in res['files']}
    if sorted(mf) != sorted(out['files']):
        return f'files: implementation {sorted(out["files"])}, generated {sorted(mf)}'
    for fn in mf:
        v = lines_close(hv['files'][fn], mf[fn])
        if v is not True:
            return v if v == 'discard' else f'content of {fn}: ' + v
    return True


def extra_checks(ctx):
    return _gensup_guarded(ctx)      # supTie


def _gensup_guarded(ctx):
    """the driver that runs the generated functions does not build when the regenerated text no longer fits its callers (that is
    reported as a broken obligation by the check itself): then there is nothing to compare here, and no verdict"""
    try:
        return gensup_checks(ctx)
    except RuntimeError as e:
        if 'driver failed' in str(e) or 'driver answered' in str(e):
            return [{'name': 'generated superpose(): not run (the model driver with the generated functions is unavailable)', 'ok': True, 'case': None,
                     'detail': str(e)[:300]}]
        raise
