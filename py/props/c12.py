"""C12 -- DockQ follows its formula; CAPRI class is total and equals the published table."""
import math, itertools
from fractions import Fraction
from vlib import rat, unrat, exc_tag
from pdb2sql import StructureSimilarity as SS

ID = 'C12'
LEVEL = 'proof'
CLUSTER = 'Z'
GEN_UNITS = ['compute_CapriClass', 'compute_DockQScore']
RULE = ('CAPRI: every cell of the arrangement induced by the thresholds (7 values per coordinate: each threshold and one '
        'point in each open interval between/beyond them; 343 cells, exhaustive) + the doubles adjacent to every threshold '
        '+ seeded random triples; DockQ: grid + seeded random points + custom scales + zero scales. A case is non-trivial '
        'when distinct by (op, arguments) and -- for CAPRI -- counted once per (class, cell signature).')
ASSUMPTIONS = ['C pow(x, 2.0) equals the correctly rounded x*x (compared bit-exactly on every sampled point; a mismatch '
               'within one unit of the sixth decimal is counted as a rounding-boundary discard, not a disagreement)',
               'binary64 rounding is Py.toDouble (proved monotone and exact on 0..3: flok_toDouble); subnormals/overflow are outside that model']
TRUSTED = ['Py.toDouble (driver-side binary64 rounding) is executable model code, validated only by the bit-exact agreement with CPython on the sampled DockQ points']

F_T, L_T, I_T = (0.1, 0.3, 0.5), (1.0, 5.0, 10.0), (1.0, 2.0, 4.0)


def cells(ts, lo, hi):
    vals = [lo + (ts[0] - lo) / 2, ts[0], (ts[0] + ts[1]) / 2, ts[1], (ts[1] + ts[2]) / 2, ts[2], hi]
    return vals


def neighbours(ts):
    out = []
    for t in ts:
        out += [math.nextafter(t, -math.inf), t, math.nextafter(t, math.inf)]
    return out


def cases(ctx):
    rng = ctx.rng
    out = []
    fs, ls, is_ = cells(F_T, 0.0, 0.75), cells(L_T, 0.0, 20.0), cells(I_T, 0.0, 8.0)
    for f, l, i in itertools.product(fs, ls, is_):
        out.append({'op': 'capri', 'f': rat(f), 'l': rat(l), 'i': rat(i), 'family': 'cell'})
    # doubles adjacent to each threshold, each coordinate, against representative values of the others
    reps_f, reps_l, reps_i = [0.05, 0.2, 0.4, 0.9], [0.5, 3.0, 7.0, 30.0], [0.5, 1.5, 3.0, 9.0]
    for f in neighbours(F_T) + [0.0, 1.0]:
        for l in reps_l:
            for i in reps_i:
                out.append({'op': 'capri', 'f': rat(f), 'l': rat(l), 'i': rat(i), 'family': 'adjacent-f'})
    for l in neighbours(L_T) + [0.0]:
        for f in reps_f:
            for i in reps_i:
                out.append({'op': 'capri', 'f': rat(f), 'l': rat(l), 'i': rat(i), 'family': 'adjacent-l'})
    for i in neighbours(I_T) + [0.0]:
        for f in reps_f:
            for l in reps_l:
                out.append({'op': 'capri', 'f': rat(f), 'l': rat(l), 'i': rat(i), 'family': 'adjacent-i'})
    n = ctx.scale(400, 20000)
    for _ in range(n):
        f = round(rng.random(), rng.choice([1, 2, 3, 6]))
        l = round(rng.expovariate(0.2), rng.choice([0, 1, 3]))
        i = round(rng.expovariate(0.5), rng.choice([0, 1, 3]))
        out.append({'op': 'capri', 'f': rat(f), 'l': rat(l), 'i': rat(i), 'family': 'random'})
    # DockQ
    grid_f = [0.0, 0.1, 0.25, 0.5, 0.727273, 1.0]
    grid_r = [0.0, 0.001, 0.5, 1.0, 1.5, 2.0, 4.0, 8.5, 10.0, 25.0, 100.0]
    for f in grid_f:
        for l in grid_r:
            for i in grid_r[::2]:
                out.append({'op': 'dockq', 'f': rat(f), 'l': rat(l), 'i': rat(i), 'd1': rat(8.5), 'd2': rat(1.5), 'family': 'grid'})
    for _ in range(ctx.scale(400, 20000)):
        f = rng.random() if rng.random() < 0.5 else round(rng.random(), 6)
        l = rng.expovariate(0.1) if rng.random() < 0.5 else round(rng.expovariate(0.1), 3)
        i = rng.expovariate(0.3) if rng.random() < 0.5 else round(rng.expovariate(0.3), 3)
        if rng.random() < 0.3:
            d1, d2 = rng.uniform(0.1, 20), rng.uniform(0.1, 20)
        else:
            d1, d2 = 8.5, 1.5
        out.append({'op': 'dockq', 'f': rat(f), 'l': rat(l), 'i': rat(i), 'd1': rat(d1), 'd2': rat(d2), 'family': 'random'})
    out.append({'op': 'dockq', 'f': rat(0.5), 'l': rat(1.0), 'i': rat(1.0), 'd1': rat(0.0), 'd2': rat(1.5), 'family': 'zero-scale'})
    out.append({'op': 'dockq', 'f': rat(0.5), 'l': rat(1.0), 'i': rat(1.0), 'd1': rat(8.5), 'd2': rat(0.0), 'family': 'zero-scale'})
    out.append({'op': 'dockq', 'f': rat(1.0), 'l': rat(0.0), 'i': rat(0.0), 'd1': rat(8.5), 'd2': rat(1.5), 'family': 'perfect'})
    return out


search_cases = None  # defined below


def _search_cases(ctx):
    """targeted families used when a proof obligation or the correspondence breaks"""
    out = []
    fs = sorted(set(neighbours(F_T) + cells(F_T, 0.0, 1.0)))
    ls = sorted(set(neighbours(L_T) + cells(L_T, 0.0, 50.0)))
    is_ = sorted(set(neighbours(I_T) + cells(I_T, 0.0, 50.0)))
    for f, l, i in itertools.product(fs, ls, is_):
        out.append({'op': 'capri', 'f': rat(f), 'l': rat(l), 'i': rat(i), 'family': 'search-cells'})
    for f in [0.0, 0.3, 1.0]:
        for l in [0.0, 1.0, 8.5, 17.0, 1e3]:
            for i in [0.0, 1.5, 3.0, 1e3]:
                for d1, d2 in ((8.5, 1.5), (1.0, 1.0), (20.0, 0.5)):
                    out.append({'op': 'dockq', 'f': rat(f), 'l': rat(l), 'i': rat(i), 'd1': rat(d1), 'd2': rat(d2), 'family': 'search-grid'})
    return out


search_cases = _search_cases


def driver_line(c):
    return {k: v for k, v in c.items() if k != 'family'}


def impl(ctx, c):
    try:
        if c['op'] == 'capri':
            return SS.compute_CapriClass(float(unrat(c['f'])), float(unrat(c['l'])), float(unrat(c['i'])))
        r = SS.compute_DockQScore(float(unrat(c['f'])), float(unrat(c['l'])), float(unrat(c['i'])),
                                  float(unrat(c['d1'])), float(unrat(c['d2'])))
        return rat(float(r))
    except Exception as e:
        return exc_tag(e)


def agree_model(c, out, model):
    if c['op'] == 'capri':
        return True if out == model else f'implementation {out!r} model {model!r}'
    if out.startswith('ERR') or str(model).startswith('ERR'):
        return True if out == model else f'implementation {out!r} model {model!r}'
    a, b = unrat(out), unrat(model)
    if a == b:
        return True
    if abs(a - b) <= Fraction(1000001, 10**12):
        return 'discard'
    return f'implementation {float(a)!r} model {float(b)!r}'


def agree_spec(c, out, spec):
    if c['op'] == 'capri':
        if out == spec['best'] and out == spec['table']:
            return True
        return f'implementation {out!r}; published table {spec["table"]!r}; best class {spec["best"]!r}'
    if str(spec).startswith('ERR'):
        return True if out == spec else f'implementation {out!r} spec {spec!r}'
    if out.startswith('ERR'):
        return f'implementation raised {out} where the formula is defined'
    a, b = unrat(out), unrat(spec)
    if abs(a - b) <= Fraction(1000001, 10**12):
        return True
    return f'implementation {float(a)!r} formula {float(b)!r}'


def nontrivial_key(c, out):
    if c['op'] == 'capri':
        def sig(v, ts):
            v = unrat(v)
            return tuple((v > Fraction(t)) - (v < Fraction(t)) for t in ts)
        return ['capri', out, sig(c['f'], F_T), sig(c['l'], L_T), sig(c['i'], I_T)]
    return ['dockq', c['f'], c['l'], c['i'], c['d1'], c['d2']]


def distribution(recs):
    d = {}
    for r in recs:
        k = r['case']['op'] + ':' + r['case'].get('family', '')
        d[k] = d.get(k, 0) + 1
    cls = {}
    for r in recs:
        if r['case']['op'] == 'capri':
            cls[str(r['impl'])] = cls.get(str(r['impl']), 0) + 1
    return {'families': d, 'capri_classes': cls}


def extra_checks(ctx):
    """properties of the implementation itself (range, perfect model, monotone) on seeded points"""
    rng = ctx.rng
    res = []
    bad = None
    n = ctx.scale(2000, 50000)
    for _ in range(n):
        f, l, i = rng.random(), rng.expovariate(0.1), rng.expovariate(0.3)
        v = SS.compute_DockQScore(f, l, i)
        if not (0.0 <= v <= 1.0):
            bad = {'f': f, 'l': l, 'i': i, 'value': v}; break
        f2, l2, i2 = min(1.0, f + rng.random() * 0.3), l * rng.random(), i * rng.random()
        v2 = SS.compute_DockQScore(f2, l2, i2)
        if v2 < v:
            bad = {'from': [f, l, i, v], 'to': [f2, l2, i2, v2]}; break
        rk = {'incorrect': 0, 'acceptable': 1, 'medium': 2, 'high': 3}
        c1, c2 = SS.compute_CapriClass(f, l, i), SS.compute_CapriClass(f2, l2, i2)
        if rk[c2] < rk[c1]:
            bad = {'from': [f, l, i, c1], 'to': [f2, l2, i2, c2]}; break
    res.append({'name': f'range-and-monotone on {n} seeded pairs', 'ok': bad is None, 'case': bad, 'detail': 'DockQ outside [0,1] or a score/class got worse when every measure improved'})
    p = SS.compute_DockQScore(1.0, 0.0, 0.0)
    res.append({'name': 'perfect model scores 1', 'ok': p == 1.0, 'case': {'value': p}, 'detail': ''})
    res.append(history_independence(ctx))
    return res


def history_independence(ctx):
    """Both scores are functions of their arguments: the class of (Fnat, L, i) and the DockQ value do not depend on what was
    asked before in the same process.  Sweep the cells, make 'foreign' calls (every short string constant of the module as the
    `system` argument, other scales, out-of-range and non-numeric arguments, all inside try/except), sweep again, compare.
    (Round-4 seed C12-r4m2: a peptide criteria table merged into the shared protein-protein table by `dict.update`; the main
    cases never pass another `system`, so only a history shows it.)"""
    import ast, inspect, sys
    fs, ls, is_ = cells(F_T, 0.0, 0.75), cells(L_T, 0.0, 20.0), cells(I_T, 0.0, 8.0)
    grid = list(itertools.product(fs, ls, is_))

    def sweep():
        out = []
        for f, l, i in grid:
            try:
                out.append((SS.compute_CapriClass(f, l, i), SS.compute_DockQScore(f, l, i)))
            except Exception as e:
                out.append(exc_tag(e))
        return out
    first = sweep()
    consts = set()
    try:
        src = inspect.getsource(sys.modules[SS.__module__])
        for node in ast.walk(ast.parse(src)):
            if isinstance(node, ast.Constant) and isinstance(node.value, str) and 0 < len(node.value) <= 30 and '\n' not in node.value:
                consts.add(node.value)
    except Exception:
        pass
    consts |= {'protein-peptide', 'protein-protein', 'protein-DNA', 'protein-RNA', 'protein-nucleic', 'peptide', 'antibody-antigen', ''}
    foreign = []
    for sname in sorted(consts):
        foreign.append(('capri', (0.35, 4.5, 3.0), {'system': sname}))
    foreign += [('dockq', (0.5, 3.0, 2.0), {'d1': 5.0, 'd2': 1.0}), ('dockq', (0.5, 3.0, 2.0), {'d1': 8.5, 'd2': 1.5}),
                ('capri', (2.0, -1.0, -1.0), {}), ('capri', (None, None, None), {}), ('dockq', (None, None, None), {}),
                ('capri', ('0.5', '1', '1'), {}), ('capri', (float('nan'), 1.0, 1.0), {}), ('dockq', (1.0, 0.0, 0.0), {'d1': 0.0, 'd2': 0.0})]
    import warnings
    done = []
    for kind, args, kw in foreign:
        try:
            with warnings.catch_warnings():
                warnings.simplefilter('ignore')
                (SS.compute_CapriClass if kind == 'capri' else SS.compute_DockQScore)(*args, **kw)
            done.append([kind, [repr(a) for a in args], kw, 'returned'])
        except BaseException as e:
            done.append([kind, [repr(a) for a in args], kw, type(e).__name__])
    second = sweep()
    bad = None
    for (f, l, i), a, b in zip(grid, first, second):
        if a != b:
            bad = {'arguments': [f, l, i], 'before the foreign calls': a, 'after the foreign calls': b,
                   'foreign calls that returned': [d for d in done if d[3] == 'returned'][:12]}
            break
    return {'name': f'history independence: {len(grid)} cells give the same class and DockQ before and after {len(foreign)} foreign calls '
                    f'({sum(1 for d in done if d[3] == "returned")} returned, the others raised)',
            'ok': bad is None, 'case': bad, 'detail': 'the class / score of the same arguments changed after other calls in the same process'}
