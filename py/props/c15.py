"""C15 -- derived databases are faithful snapshots and independent afterwards (histories over a growing family of objects)."""
import numpy as np
from props import c03 as B
from props.c03 import (STD, KIND, POOL, COLNAMES, build, jval, unjval, jrow, db_json, jkw, kw_py, canon, call, is_err, short, rand_table)
from props import c04 as H
from pdb2sql import pdb2sql, many2sql, interface, transform

ID = 'C15'
LEVEL = 'proof'
CLUSTER = 'B'
GEN_UNITS = ['Consts']
RULE = ('Histories of 5-25 steps over a growing family of at most 6 database objects (pdb2sql, interface, many2sql); half of the initial '
        'objects are constructed with the non-default options fix_chainID=True, verbose=True on inputs whose chains are C,D / 1,A / X / '
        'B,A,D / c,C,Z (renamed at load; objects derived from them must keep the chains they were given: later renames through update / '
        'update_column, sub-selections of chain subsets, interface(db), many2sql([db, ...])); each step is a '
        'modification of one object (update / update_xyz / update_column / add_column / _fix_chainID, on any of its tables) or a '
        'derivation from live objects (db(**selection), interface(db), many2sql([db, ...])). After EVERY step the content of EVERY '
        'table of EVERY live object (SELECT * through its own connection) and its column names are compared with the model world '
        '(Model.wstep) and with the reference world of the property (C04 reference model per object + round-tripped snapshot at '
        'derivation). Modifications include the transform `transform.translation(db, vect[, chainID=...])` (said to the model as the '
        'update_xyz of the values the object holds plus the vector). Coordinates cover every band of the 8-column format: the usual '
        'small values, values that need all 8 columns with three decimals (>= 999.5 up to 9999.375, <= -99.5 down to -999.375; in the '
        'initial structures, in written values and as results of translations) and larger magnitudes up to 5e7 / -9999999 where only '
        '2 / 1 / 0 decimals fit. All written values are exactly representable in the PDB columns (`representable`: all their digits '
        'are printed), so the text round trip changes nothing but the '
        'model number (not exported) and the added columns (dropped). Non-trivial: at least one derivation followed by a modification '
        'of the source or of the derivative.')
ASSUMPTIONS = ['the text round trip is the identity on the values generated (multiples of 1/8 in (-999.5, 9999.5), of 1/4, 1/2, 1 in the '
               'bands where 2, 1, 0 decimals fit; short names): what it does on values that are rounded is C01/C02; here snapshot time, '
               'independence and the precision of the snapshot over the whole coordinate range are at stake']
TRUSTED = ['the Model driver runs the CONCRETE round trip Model.textRoundtrip (translated data2pdb, then the record loop of C01); the '
           'Spec driver uses its value on representable tables (Driver.B.roundtripRepresentable: model number reset, added columns '
           'dropped) -- Props.C15.roundtrip_is_readBack relates the two']

MODCOLS = ['name', 'resName', 'chainID', 'resSeq', 'x', 'y', 'z', 'serial', 'element', 'altLoc', 'iCode']
PDBPOOL = dict(POOL)
PDBPOOL['occ'] = [1.0, 0.5, 0.25]
PDBPOOL['temp'] = [0.0, 10.0, 2.5, 12.0]


# ---- coordinates "to PDB text precision" over the whole range the 8 columns can hold -----------------------------------------------
# Every value below is written by the export with ALL its digits (so the snapshot must hold it exactly), fills the field in a
# different way (sign column used or free, 3 / 2 / 1 / 0 decimals) and is exact in float32 (the carriers of update_xyz).
SMALL = [0.0, 0.5, 1.25, -3.0, 7.75, 100.125, 2.0, 12.0, -0.125]
WIDE3 = [999.5, 1000.0, 1234.125, 2048.875, 5000.625, 9999.375, -99.5, -100.0, -123.375, -512.625, -999.375]       # three decimals, no column to spare
WIDE = [9999.5, 10000.0, 12345.25, 99999.25, 99999.5, 123456.5, 999999.0, 1234567.0, 9999999.0, 50000000.0,
        -999.5, -1000.0, -1234.25, -9999.25, -9999.5, -12345.5, -99999.0, -123456.0, -9999999.0]                  # as many decimals as fit


def decimals_that_fit(v):
    """the property (C02): three decimals in (-999.5, 9999.5), beyond that as many as fit the 8 columns; one fewer within half a unit
    of a power of ten (there the implementation may already have switched)"""
    n = len(str(int(abs(v) + 0.5)))
    return max(0, min(3, (6 if v < 0 else 7) - n))


def representable(v):
    """v is written with all its digits: the text round trip is the identity on it"""
    from fractions import Fraction
    return -1e7 + 0.5 < v < 1e8 - 0.5 and (Fraction(v) * 10 ** decimals_that_fit(v)).denominator == 1


assert all(representable(v) and float(np.float32(v)) == v for v in SMALL + WIDE3 + WIDE)
assert all(-999.5 < v < 9999.5 for v in WIDE3)


def wide(v):
    return v >= 999.5 or v <= -99.5


TVECT = [0.0, 0.0, 0.125, -0.5, 1.0, 12.0, -100.0, -250.25, 1000.0, 1234.5, 5000.0, -1000.0, 9000.375, 20000.0, 123000.5, -12000.0, 2000000.0]
assert all(float(np.float32(v)) == v for v in TVECT)


def translate_step(db, op, rec):
    """the REAL `transform.translation(db, vect, **selection)`.  What it must do is said to the model as the `update_xyz` of the values
    the object holds NOW (read through its own `get`; the state was compared with the model after the previous step) plus the vector,
    added here in plain Python (exact: multiples of 1/8 far below 2**53).  When a result would not be written with all its digits
    (possible only if the generator's running copy has drifted from the object) the step degrades to the zero vector on all rows."""
    kwj, kw = op['kw'], kw_py(op['kw'])
    vect = [unjval(v) for v in op['vect']]
    names = db._get_table_names()
    tn = next((n for n in names if n.lower() == 'atom'), 'ATOM')
    before = [list(r) for r in db.get('x,y,z', **kw)]
    new = [[a + b for a, b in zip(r, vect)] for r in before]
    if not new or not all(isinstance(x, float) and representable(x) for r in new for x in r):
        kwj, kw, vect = [], {}, [0.0, 0.0, 0.0]
        new = [list(r) for r in db.get('x,y,z')]
    rec['as'] = {'name': 'update_xyz', 'values': [jrow(r) for r in new], 'tn': tn, 'kw': kwj}
    return transform.translation(db, np.array(vect), **kw)


def pv(rng, key):
    if KIND[key] == 'real':
        u = rng.random()
        return rng.choice(SMALL if u < 0.6 else WIDE3 if u < 0.85 else WIDE)
    if KIND[key] == 'int':
        return rng.choice([0, 1, 2, 3, 7, 12, -4, 250])
    pool = {'name': ['CA', 'N', 'C', 'O', 'CB', 'H1', '1'], 'resName': ['ALA', 'GLY', 'TRP', 'X'], 'chainID': ['A', 'B', 'X', 'c', '1'],
            'element': ['C', 'N', 'O', 'H', 'FE'], 'altLoc': ['', 'A', 'B'], 'iCode': ['', 'B']}[key]
    return rng.choice(pool)


class Track:
    """the generator's own running copy of an object (shapes the supplied values only)"""
    def __init__(self, kind, names, tables):
        self.kind, self.names, self.tables, self.extras = kind, names, [[list(r) for r in t] for t in tables], []


CHAINSETS = [['A', 'B'], ['C', 'D'], ['1', 'A'], ['X'], ['B', 'A', 'D'], ['c', 'C', 'Z']]


def start_table(rng, n):
    rows = rand_table(rng, n)
    if rng.random() < 0.35:
        # a structure far from the origin / a very large assembly: coordinates that fill all 8 columns ('%8.3f' still holds them)
        for r in rows:
            for j in (7, 8, 9):
                if rng.random() < 0.5:
                    r[j] = rng.choice(WIDE3)
    chains = rng.choice(CHAINSETS)
    for i, r in enumerate(rows):
        r[4] = chains[(i * len(chains)) // max(n, 1)] if rng.random() < 0.8 else rng.choice(chains)
    return rows


def fix_rows(rows):
    ids = sorted(set(r[4] for r in rows))
    for r in rows:
        r[4] = 'ABCDEFGHIJKLMNOPQRSTUVWXYZ'[ids.index(r[4])]


def gen_world(rng, nsteps):
    n0 = rng.choice([3, 5, 8, 12])
    objs = [Track('single', ['atom'], [start_table(rng, n0)])]
    if rng.random() < 0.4:
        objs.append(Track('single', ['atom'], [start_table(rng, rng.choice([2, 4, 9]))]))
    # sources constructed with the non-default options fix_chainID=True, verbose=True: the chains are renamed at load
    # (the model applies `_fix_chainID` as a first step); objects derived from them must NOT be renamed again
    init = [{'kind': 'single', 'db': db_json([('atom', t.tables[0])]), 'fix': rng.random() < 0.5} for t in objs]
    for t, o in zip(objs, init):
        if o['fix']:
            fix_rows(t.tables[0])
    ops = []
    for _ in range(nsteps):
        u = rng.random()
        if u < 0.55 or len(objs) >= 6:
            k = rng.randrange(len(objs))
            o = objs[k]
            ti = rng.randrange(len(o.tables))
            tn, rows = o.names[ti], o.tables[ti]
            n = len(rows)
            extras = o.extras if ti == 0 else []
            v = rng.random()
            low = [x.lower() for x in o.names]
            if 'atom' in low and rng.random() < 0.12:
                # a transform: transform.translation(db, vect[, chainID=...]) -- it reads and writes the table ATOM; the vector moves
                # the (tracked) coordinates across the bands of the coordinate format while every result keeps all its digits
                trows = o.tables[low.index('atom')]
                kws = []
                present = sorted(set(r[4] for r in trows))
                if present and rng.random() < 0.4:
                    kws = [('chainID', rng.sample(present, rng.randrange(1, len(present) + 1)))]
                sel = [i for i in range(len(trows)) if H.py_holds(trows, i, kws, [])]
                vect = [0.0, 0.0, 0.0]
                for _ in range(12):
                    cand = [rng.choice(TVECT) for _ in range(3)]
                    if all(representable(trows[i][7 + j] + cand[j]) for i in sel for j in range(3)):
                        vect = cand
                        break
                for i in sel:
                    for j in range(3):
                        trows[i][7 + j] += vect[j]
                op = {'name': 'translate', 'vect': jrow(vect), 'kw': jkw(kws)}
            elif v < 0.45:
                cols = rng.sample(MODCOLS, rng.choice([1, 1, 2, 3]))
                kws = [H.same_type_cond(rng, rows, n, extras) for _ in range(rng.choice([0, 1, 1]))]
                sel = [i for i in range(n) if H.py_holds(rows, i, kws, extras)]
                bad = rng.random() < 0.15
                nrow = len(sel) + (1 if bad else 0)
                if nrow == 0:
                    nrow = 1
                    bad = True
                block = [[pv(rng, c) for c in cols] for _ in range(nrow)]
                op = {'name': 'update', 'columns': ','.join(cols), 'values': [jrow(r) for r in block], 'tn': tn, 'kw': jkw(kws),
                      'carrier': rng.choice(['list', 'tuple', 'npscalar'])}
                if not bad:
                    for r, i in zip(block, sel):
                        for c, x in zip(cols, r):
                            rows[i][STD.index(c)] = x
            elif v < 0.65:
                kws = [H.same_type_cond(rng, rows, n, extras) for _ in range(rng.choice([0, 1]))]
                sel = [i for i in range(n) if H.py_holds(rows, i, kws, extras)]
                if not sel:
                    kws, sel = [], list(range(n))
                block = [[pv(rng, 'x') for _ in range(3)] for _ in sel] or [[0.0, 0.0, 0.0]]
                op = {'name': 'update_xyz', 'values': [jrow(r) for r in block], 'tn': tn, 'kw': jkw(kws), 'carrier': rng.choice(['list', 'f64', 'f32'])}
                for r, i in zip(block, sel):
                    rows[i][7:10] = r
            elif v < 0.85:
                c = rng.choice(MODCOLS)
                idx = rng.sample(range(n), rng.randrange(0, n + 1)) if (n and rng.random() < 0.6) else None
                m = len(idx) if idx is not None else n
                vals = [pv(rng, c) for _ in range(m)]
                op = {'name': 'update_column', 'colname': c, 'values': jrow(vals), 'tn': tn, 'carrier': 'list', 'icarrier': rng.choice(['list', 'i64'])}
                if idx is not None:
                    op['index'] = idx
                for x, i in zip(vals, idx if idx is not None else range(n)):
                    rows[i][STD.index(c)] = x
            elif v < 0.93 and o.kind == 'single':
                name = rng.choice(['foo', 'bar', 'score'])
                op = {'name': 'add_column', 'colname': name, 'coltype': rng.choice(['FLOAT', 'INT', 'TEXT']), 'value': jval(rng.choice([0, 1.5, 7])), 'tn': tn}
                if name not in o.extras:
                    o.extras.append(name)
                    for r in rows:
                        r.append(0)
            else:
                op = {'name': 'fix_chainID'}
                t0 = o.tables[o.names.index('ATOM')] if 'ATOM' in o.names else o.tables[0]
                ids = sorted(set(r[4] for r in t0))
                for r in t0:
                    r[4] = 'ABCDEFGHIJKLMNOPQRSTUVWXYZ'[ids.index(r[4])]
            ops.append({'w': 'modify', 'k': k, 'op': op})
        else:
            w = rng.random()
            k = rng.randrange(len(objs))
            o = objs[k]
            if w < 0.45:
                kws = [H.same_type_cond(rng, o.tables[0], len(o.tables[0]), []) for _ in range(rng.choice([0, 1, 1, 2]))]
                if len(set(x for x, _ in kws)) < len(kws):
                    kws = kws[:1]
                kws = [(a, b) for a, b in kws if (a[3:] if a.startswith('no_') else a) in COLNAMES]
                if rng.random() < 0.45:
                    present = sorted(set(r[4] for r in o.tables[0]))
                    sub = rng.sample(present, rng.randrange(1, len(present) + 1)) if present else ['A']
                    kws = [(rng.choice(['chainID', 'chainID', 'no_chainID']), sub)]
                ops.append({'w': 'sub', 'k': k, 'kw': jkw(kws)})
                tabs = o.tables[:1] if o.kind == 'single' else o.tables
                new = [[list(r[:13]) + [0] for i, r in enumerate(t) if H.py_holds(t, i, kws, [])] for t in tabs]
                if all(new):
                    objs.append(Track(o.kind, o.names[:len(new)], new))
            elif w < 0.7:
                ops.append({'w': 'interface', 'k': k})
                src = o.tables[[x.lower() for x in o.names].index('atom')] if 'atom' in [x.lower() for x in o.names] else None
                if src:
                    objs.append(Track('single', ['atom'], [[list(r[:13]) + [0] for r in src]]))
            else:
                ks = [rng.randrange(len(objs)) for _ in range(rng.choice([1, 2, 2, 3]))]
                # the SAME source list again, after whatever happened in between (round-4 seed C15-r4m1: many2sql replaced the
                # databases in the caller's list by their text at that moment; a second derivation from that list was stale)
                earlier = [x['ks'] for x in ops if x['w'] == 'many']
                if earlier and rng.random() < 0.5:
                    ks = list(rng.choice(earlier))
                ops.append({'w': 'many', 'ks': ks})
                srcs = []
                for kk in ks:
                    oo = objs[kk]
                    low = [x.lower() for x in oo.names]
                    srcs.append(oo.tables[low.index('atom')] if 'atom' in low else None)
                if all(srcs):
                    objs.append(Track('many', ['ATOM'] + ['ATOM%d' % i for i in range(1, len(ks))], [[list(r[:13]) + [0] for r in s] for s in srcs]))
    return init, ops


def cases(ctx):
    rng = ctx.rng
    out = []
    for h in range(ctx.scale(400, 4000)):
        init, ops = gen_world(rng, rng.randrange(5, 26))
        out.append({'op': 'world', 'objs': init, 'ops': ops, 'family': 'history'})
    return out


def search_cases(ctx):
    rng = ctx.rng
    out = []
    for h in range(ctx.scale(200, 1500)):
        init, ops = gen_world(rng, rng.randrange(3, 8))
        out.append({'op': 'world', 'objs': init, 'ops': ops, 'family': 'short-history'})
    return out


def nfix(c):
    return sum(1 for o in c['objs'] if o.get('fix'))


def driver_line(c, out=None):
    steps = out if isinstance(out, list) else []
    off = 1 if nfix(c) else 0

    def strip(i, o):
        if o['w'] == 'modify':
            op = o['op']
            if op['name'] == 'translate':
                # the model is told what the translation must write (see translate_step); a step that failed before it got there is
                # sent as an update of nothing (an object that does not exist is IndexError on both sides; anything else disagrees)
                st = steps[i + off] if i + off < len(steps) and isinstance(steps[i + off], dict) else {}
                op = st.get('as') or {'name': 'update_xyz', 'values': [], 'tn': 'ATOM', 'kw': []}
            return {'w': 'modify', 'k': o['k'], 'op': {k: v for k, v in op.items() if k not in ('carrier', 'icarrier', 'kind')}}
        return o
    # construction with fix_chainID=True = `_fix_chainID` applied to the freshly loaded table
    lead = [{'w': 'modify', 'k': k, 'op': {'name': 'fix_chainID'}} for k, o in enumerate(c['objs']) if o.get('fix')]
    return {'op': 'world', 'objs': [{'kind': o['kind'], 'db': o['db']} for o in c['objs']], 'ops': lead + [strip(i, o) for i, o in enumerate(c['ops'])]}


def lead_ops(c):
    return [{'w': 'load(fix_chainID=True)'}] if nfix(c) else []


def aligned_steps(c, answers):
    """the driver answers one record per leading `_fix_chainID`; the objects are observed once, after all were loaded"""
    k = nfix(c)
    return answers[k - 1:] if k > 1 else answers


def observe(objs):
    out = []
    for db in objs:
        out.append({'tabs': [{'rows': canon(db.c.execute(f'select * from {n}').fetchall())} for n in db._get_table_names()],
                    'colnames': db.get_colnames()})
    return out


def impl(ctx, c):
    objs = []
    for o in c['objs']:
        rows = [[unjval(v) for v in r] for r in o['db']['tabs'][0]['rows']]
        if o.get('fix'):
            db = call(lambda: build(rows, fix_chainID=True, verbose=True))
            if is_err(db):
                raise RuntimeError(f'construction with fix_chainID=True raised {db}')
        else:
            db = build(rows)
            B.check_parse(db, rows, tn='atom')
        objs.append(db)
    steps = []
    many_lists = {}
    if nfix(c):
        steps.append({'out': 'ok', 'objs': observe(objs)})
    for o in c['ops']:
        rec = {}
        if o['w'] == 'modify' and o['op']['name'] == 'translate':
            r = call(lambda: translate_step(objs[o['k']], o['op'], rec))
        elif o['w'] == 'modify':
            r = call(lambda: H.apply_op(objs[o['k']], o['op']))
        elif o['w'] == 'sub':
            r = call(lambda: objs[o['k']](**kw_py(o['kw'])))
        elif o['w'] == 'interface':
            r = call(lambda: interface(objs[o['k']]))
        else:
            # one list object per distinct choice of sources, passed again when the history derives from the same sources again
            # (the list is built inside `call`: when an earlier derivation failed, an index may be out of range -- an outcome, not a crash)
            r = call(lambda: many2sql(many_lists[tuple(o['ks'])] if tuple(o['ks']) in many_lists
                                      else many_lists.setdefault(tuple(o['ks']), [objs[k] for k in o['ks']])))
        if not is_err(r) and o['w'] != 'modify':
            objs.append(r)
        steps.append({'out': r if is_err(r) else 'ok', 'objs': observe(objs)})
        if 'as' in rec:
            steps[-1]['as'] = rec['as']
    return steps


def agree_model(c, out, model):
    model = aligned_steps(c, model)
    ops = lead_ops(c) + c['ops']
    c = dict(c, ops=ops)
    for k, (a, m) in enumerate(zip(out, model)):
        if isinstance(m['out'], str) and m['out'].startswith('ERR:UNMODELLED'):
            return 'discard'
        what = f'step {k} ({c["ops"][k]["w"]})'
        if a['out'] != m['out']:
            return f'{what}: implementation {a["out"]} model {m["out"]}'
        mo = [H.strip_names(d) for d in m['objs']]
        if a['objs'] != mo:
            bad = [i for i in range(max(len(mo), len(a['objs']))) if i >= len(mo) or i >= len(a['objs']) or mo[i] != a['objs'][i]]
            return f'{what}: objects {bad} differ: implementation {short([a["objs"][i] for i in bad if i < len(a["objs"])])} model {short([mo[i] for i in bad if i < len(mo)])}'
    return True


def agree_spec(c, out, spec):
    if nfix(c) and any(s['out'] == 'outside' for s in spec[:nfix(c)]):
        return True
    spec = aligned_steps(c, spec)
    c = dict(c, ops=lead_ops(c) + c['ops'])
    prev = [{'tabs': [{'rows': o['db']['tabs'][0]['rows']}], 'colnames': COLNAMES} for o in c['objs']]
    for k, (a, s) in enumerate(zip(out, spec)):
        what = f'step {k} ({c["ops"][k]["w"]})'
        if s['out'] == 'outside':
            return True
        if s['out'] == 'reject':
            if a['out'] == 'ok':
                return f'{what}: accepted where the property demands an error'
            if not H.eqv(a['objs'], prev):
                return f'{what}: raised {a["out"]} after changing some object'
        else:
            if a['out'] != 'ok':
                return f'{what}: raised {a["out"]} on a well-formed step'
            so = [H.strip_names(d) for d in s['objs']]
            if not H.eqv(a['objs'], so):
                bad = [i for i in range(max(len(so), len(a['objs']))) if i >= len(so) or i >= len(a['objs']) or not H.eqv(so[i], a['objs'][i])]
                return f'{what}: objects {bad} differ from their reference tables'
        prev = a['objs']
    return True


def nontrivial_key(c, out):
    seen_derive = False
    for o, st in zip(lead_ops(c) + c['ops'], out):
        if o['w'] != 'modify' and st['out'] == 'ok':
            seen_derive = True
        elif o['w'] == 'modify' and seen_derive and st['out'] == 'ok':
            import vlib
            return vlib.case_hash({'objs': c['objs'], 'ops': c['ops']})
    return None


def distribution(recs):
    nsteps, kinds, outs, nobj, classes = {}, {}, {}, {}, {}
    for r in recs:
        c = r['case']
        nsteps[len(c['ops'])] = nsteps.get(len(c['ops']), 0) + 1
        for o, st in zip(lead_ops(c) + c['ops'], r['impl'] if isinstance(r['impl'], list) else []):
            k = o['w'] + (':' + o['op']['name'] if o['w'] == 'modify' else '')
            kinds[k] = kinds.get(k, 0) + 1
            outs[st['out']] = outs.get(st['out'], 0) + 1
        if isinstance(r['impl'], list) and r['impl']:
            n = len(r['impl'][-1]['objs'])
            nobj[n] = nobj.get(n, 0) + 1
            for o in r['impl'][-1]['objs']:
                t = len(o['tabs'])
                classes['%d table(s)' % t] = classes.get('%d table(s)' % t, 0) + 1
    # derivations whose snapshot holds coordinates that fill the 8 columns (sign column used by a digit / fewer than three decimals fit)
    bands = {'derivations': 0, 'with a coordinate >= 999.5 (three decimals, sign column used)': 0, 'with a coordinate <= -99.5 (three decimals)': 0,
             'with a coordinate outside (-999.5, 9999.5) (fewer decimals fit)': 0}
    for r in recs:
        c = r['case']
        for o, st in zip(lead_ops(c) + c['ops'], r['impl'] if isinstance(r['impl'], list) else []):
            if o['w'] in ('sub', 'interface', 'many') and st['out'] == 'ok' and st['objs']:
                try:
                    vals = [float(B.unrat(row[j]['r'])) for t in st['objs'][-1]['tabs'] for row in t['rows'] for j in (7, 8, 9)
                            if isinstance(row[j], dict) and 'r' in row[j]]      # rows of SELECT *: the standard columns
                except Exception:                                             # noqa: evidence only
                    vals = []
                bands['derivations'] += 1
                bands['with a coordinate >= 999.5 (three decimals, sign column used)'] += any(999.5 <= v < 9999.5 for v in vals)
                bands['with a coordinate <= -99.5 (three decimals)'] += any(-999.5 < v <= -99.5 for v in vals)
                bands['with a coordinate outside (-999.5, 9999.5) (fewer decimals fit)'] += any(v >= 9999.5 or v <= -999.5 for v in vals)
    fixed = {'sources loaded with fix_chainID=True, verbose=True': sum(nfix(r['case']) for r in recs),
             'default sources': sum(len(r['case']['objs']) - nfix(r['case']) for r in recs)}
    return {'initial_objects': fixed, 'snapshots_by_coordinate_band': bands, 'history_lengths': dict(sorted(nsteps.items())), 'steps_by_kind': dict(sorted(kinds.items())), 'step_outcomes': outs,
            'live_objects_at_end': dict(sorted(nobj.items())), 'objects_by_table_count': classes}


# ======================================================================================================================
# BEGIN manyTie -- translated-code tie: GENERATED many2sql.__init__ / __call__ / convert_input and interface.__init__
# (Gen/Many.lean, namespace GenM, run by the driver ops genm_* of Driver/ExtMany.lean with the text side GenM.Ext.text)
# against the REAL code on the same generated inputs; every mismatch is an entry.  Stay inside this block.
# ======================================================================================================================
GEN_UNITS = GEN_UNITS + ['many_defaults', 'many_runtime', 'many_convert_input', 'many_init', 'many_call', 'many_interface_init']


def genm_many_checks(ctx):
    import vlib
    rng = ctx.rng

    def observe_db(db):
        """a real object -> {'names', 'tabs', 'nModel'} in protocol values"""
        names = db._get_table_names()
        return {'names': list(names), 'tabs': [canon(db.c.execute(f'select * from {n}').fetchall()) for n in names], 'nModel': int(db._nModel)}

    def of_driver(m):
        if isinstance(m, str):
            return m
        return {'names': [t['name'] for t in m['tabs']], 'tabs': [t['rows'] for t in m['tabs']], 'nModel': m['nModel']}

    def src_json(db):
        o = observe_db(db)
        return {'tabs': [{'name': n, 'rows': r} for n, r in zip(o['names'], o['tabs'])], 'extra': [], 'nModel': o['nModel']}

    def fresh_rows(n):
        rows = start_table(rng, n)
        return rows

    def lines_of(rows, endmdl=0):
        ls = [B.atom_line(r) for r in rows]
        for _ in range(endmdl):
            ls.insert(rng.randrange(len(ls) + 1), 'ENDMDL')
        if rng.random() < 0.3:
            ls.insert(0, 'REMARK generated')
        return ls

    def make_obj(n):
        rows = fresh_rows(n)
        db = build(rows)
        if rng.random() < 0.5 and n:       # a pending modification: the derivation must see it
            c = rng.choice(['x', 'resSeq', 'name', 'chainID'])
            call(lambda: db.update_column(c, [pv(rng, c) for _ in range(n)]))
        return db

    lines, real, meta = [], [], []

    def add(op, case, f):
        r = call(f)
        real.append(r if is_err(r) else (observe_db(r) if not isinstance(r, (list, dict)) else r))
        lines.append(dict(case, op=op))
        meta.append(op)

    BAD = [('tuple', lambda l: tuple(l)), ('none', lambda l: None), ('str', lambda l: 'abc'), ('int', lambda l: 5)]
    # DETERMINISTIC (every seed, no random choice): an existing table name TOGETHER WITH an unreadable input at the same position.
    # `_create_table` executes CREATE TABLE before read_pdb, so the name wins: sqlite3.OperationalError; the same input under a new name
    # raises its own error (ValueError for an invalid type / a line that cannot be parsed, IndexError for an empty list of lines)
    FIX = [[1, 'CA', '', 'ALA', 'A', 1, '', 1.0, 2.0, 3.0, 1.0, 0.0, 'C', 0], [2, 'N', '', 'GLY', 'B', 2, '', 0.5, -1.0, 3.0, 1.0, 0.0, 'N', 0]]
    good = [B.atom_line(r) for r in FIX]
    order_cases = []
    for bad_py, bad_j in ((3.5, {'other': True}), ([], {'lines': []}), (['ATOM  xxxxx  CA  ALA A   1       1.000   2.000   3.000  1.00  0.00           C  '],
                                                                     {'lines': ['ATOM  xxxxx  CA  ALA A   1       1.000   2.000   3.000  1.00  0.00           C  ']})):
        for first, second in (('b2', 'B2'), ('a-b', 'a_b'), ('wt', 'wt'), ('b2', 'c3')):
            for npdb in (2, 4):
                pf_py = [list(good) for _ in range(npdb - 1)] + [bad_py]
                pf_j = [{'lines': list(good)} for _ in range(npdb - 1)] + [bad_j]
                names = (['mutant', first, 'model_10'][:npdb - 1] if npdb == 4 else [first]) + [second]
                if npdb == 4:
                    names = ['mutant', first, 'model_10', second]
                want_dup = (first, second) != ('b2', 'c3')
                order_cases.append((len(lines), want_dup))
                add('genm_init', {'pdbfiles': pf_j, 'tablenames': list(names)}, lambda: many2sql(pf_py, tablenames=list(names)))
    n_init = ctx.scale(60, 500)
    for k in range(n_init):
        npdb = rng.choice([1, 1, 2, 2, 3, 4])
        elems_py, elems_j = [], []
        for i in range(npdb):
            u = rng.random()
            if u < 0.45:
                db = make_obj(rng.choice([1, 3, 6]))
                elems_py.append(db)
                elems_j.append({'obj': src_json(db)})
            elif u < 0.9:
                ls = lines_of(fresh_rows(rng.choice([1, 2, 5])), endmdl=rng.choice([0, 0, 0, 1, 2]))
                elems_py.append(ls)
                elems_j.append({'lines': ls})
            elif u < 0.95:
                elems_py.append([])              # an empty list of lines: IndexError in read_pdb
                elems_j.append({'lines': []})
            else:
                elems_py.append(3.5)             # not PDB data: ValueError in read_pdb
                elems_j.append({'other': True})
        v = rng.random()
        if v < 0.4:
            tn_py, tn_j = None, None
        elif v < 0.75:
            tn_py = rng.sample(['wildtype', 'mutant', 'apo', 'Zeta', 'b2', 'ATOM9', 'model_10', 'holo', 'a-b', 'x.y'], npdb + rng.choice([0, 0, 1]))
            if npdb >= 2 and rng.random() < 0.5:
                # a name that exists already: the same name, another letter case, or equal only after the clean-up of _create_table
                # (sqlite3.OperationalError `table ... already exists`, raised when the LATER table is created)
                i = rng.randrange(npdb - 1)
                j = rng.randrange(i + 1, npdb)
                tn_py[j] = rng.choice([tn_py[i], tn_py[i].upper(), tn_py[i].swapcase(), tn_py[i].replace('-', '_').replace('.', '+')])
            tn_j = list(tn_py)
        elif v < 0.8:
            tn_py = rng.sample(['wildtype', 'mutant', 'apo'], max(0, npdb - 1))      # too few names: IndexError
            tn_j = list(tn_py)
        elif v < 0.9:
            tn_py = ['t%d' % i for i in range(npdb)]
            j = rng.randrange(npdb)
            tn_py[j] = rng.choice([3, None, 2.5])                                   # not a str: TypeError
            tn_j = [x if isinstance(x, str) else {'other': True} for x in tn_py]
        else:
            tn_py, tn_j = rng.choice([('a', 'b'), 'names', 7]), {'other': True}      # not a list: TypeError
        pf_py, pf_j = elems_py, elems_j
        if rng.random() < 0.08:
            name, f = rng.choice(BAD)
            pf_py, pf_j = f(elems_py), ({'other': True} if name != 'none' else None)
        case = {'pdbfiles': pf_j, 'tablenames': tn_j}
        if tn_py is None and rng.random() < 0.5:
            add('genm_init', case, lambda: many2sql(pf_py))
        else:
            add('genm_init', case, lambda: many2sql(pf_py, tablenames=tn_py))
    # user-given table names on database objects: real code = generated function = HAND model (Model.manyNamed, driver op model_many_named)
    named_lines, named_real = [], []
    POOLN = ['wildtype', 'mutant', 'apo', 'Zeta', 'b2', 'ATOM9', 'model_10', 'holo', 'a-b', 'x.y', 'A_b', 'q+r']
    for k in range(ctx.scale(40, 300)):
        npdb = rng.choice([1, 2, 2, 3, 3, 4])
        dbs = [make_obj(rng.choice([0, 1, 3, 5]) if rng.random() < 0.15 else rng.choice([1, 3, 5])) for _ in range(npdb)]
        names = rng.sample(POOLN, npdb)
        u = rng.random()
        if u < 0.35 and npdb >= 2:
            i = rng.randrange(npdb - 1)
            j = rng.randrange(i + 1, npdb)
            names[j] = rng.choice([names[i], names[i].upper(), names[i].swapcase(), names[i].replace('-', '_').replace('.', '+').replace('+', '.')])
        elif u < 0.5:
            names = names[:rng.randrange(0, npdb)]                     # fewer names than structures
        elif u < 0.6:
            names = names + rng.sample(POOLN, 1)                       # a surplus name is never looked at
        r = call(lambda: many2sql(list(dbs), tablenames=list(names)))
        named_real.append(r if is_err(r) else observe_db(r))
        sj = [src_json(d) for d in dbs]
        named_lines.append({'op': 'model_many_named', 'srcs': sj, 'names': names})
        named_lines.append({'op': 'genm_init', 'pdbfiles': [{'obj': x} for x in sj], 'tablenames': names})
    # sub-selections of many2sql objects
    n_call = ctx.scale(40, 300)
    for k in range(n_call):
        ns = rng.choice([1, 2, 3])
        tabs = [fresh_rows(rng.choice([2, 4, 7])) for _ in range(ns)]
        names = None if rng.random() < 0.5 else rng.sample(['wildtype', 'mutant', 'apo', 'Zeta', 'b2'], ns)
        src = call(lambda: many2sql([[B.atom_line(r) for r in t] for t in tabs]) if names is None else
                   many2sql([[B.atom_line(r) for r in t] for t in tabs], tablenames=list(names)))
        if is_err(src):
            continue
        for _ in range(3):
            kws = [H.same_type_cond(rng, tabs[0], len(tabs[0]), []) for _ in range(rng.choice([0, 1, 1, 2]))]
            if len(set(x for x, _ in kws)) < len(kws):
                kws = kws[:1]
            kws = [(a, b) for a, b in kws if (a[3:] if a.startswith('no_') else a) in COLNAMES]
            if rng.random() < 0.4:
                present = sorted(set(r[4] for t in tabs for r in t))
                kws = [(rng.choice(['chainID', 'no_chainID']), rng.sample(present, rng.randrange(1, len(present) + 1)))]
            add('genm_call', {'db': src_json(src), 'kw': jkw(kws)}, lambda: src(**kw_py(jkw(kws))))
    # interface(...) and convert_input
    n_if = ctx.scale(40, 300)
    for k in range(n_if):
        u = rng.random()
        tn = rng.choice([None, None, 'atom', 'ATOM', 'mine'])
        if u < 0.6:
            db = make_obj(rng.choice([1, 3, 6]))
            pj, pp = {'obj': src_json(db)}, db
        elif u < 0.9:
            ls = lines_of(fresh_rows(rng.choice([1, 4])), endmdl=rng.choice([0, 0, 1]))
            pj, pp = {'lines': ls}, ls
        else:
            pj, pp = {'other': True}, 12
        case = {'pdb': pj}
        if tn is not None:
            case['tablename'] = tn
            add('genm_interface_init', case, lambda: interface(pp, tablename=tn))
        else:
            add('genm_interface_init', case, lambda: interface(pp))
        if k % 3 == 0:
            host = call(lambda: many2sql([[B.atom_line(r) for r in fresh_rows(2)]]))
            r = call(lambda: host.convert_input(pp))
            real.append(r if is_err(r) else ({'lines': list(r)} if isinstance(r, list) and all(isinstance(x, str) for x in r) else {'other': None}))
            lines.append({'op': 'genm_convert_input', 'pdb': pj})
            meta.append('genm_convert_input')
    ans = vlib.run_driver(lines + named_lines, which='model', cluster=CLUSTER) if lines else []
    ans, named_ans = ans[:len(lines)], ans[len(lines):]
    res = []
    bad, outcomes = None, {}
    for k, r in enumerate(named_real):
        hm, gm = of_driver(named_ans[2 * k].get('model')), of_driver(named_ans[2 * k + 1].get('model'))
        tag = r if is_err(r) else 'ok'
        outcomes[tag] = outcomes.get(tag, 0) + 1
        if isinstance(hm, str) and hm.startswith('ERR:UNMODELLED'):
            continue
        if not (r == hm == gm) and bad is None:
            bad = {'case': json_short(named_lines[2 * k]), 'real code': short(r), 'hand model (Model.manyNamed)': short(hm), 'generated (Gen/Many.lean)': short(gm)}
    res.append({'name': f'many2sql([db, ...], tablenames=[...]): real code = hand model Model.manyNamed = generated function on {len(named_real)} inputs, outcomes {dict(sorted(outcomes.items()))}',
                'ok': bad is None and len(named_real) >= 30 and outcomes.get('ERR:Other:OperationalError', 0) >= 2 and outcomes.get('ERR:IndexError', 0) >= 2,
                'case': bad, 'detail': 'names as given after the clean-up; an existing name (same / other letter case / equal after the clean-up) = sqlite3.OperationalError; '
                                       'fewer names than structures = IndexError; surplus names ignored', 'kind': 'genm'})
    bad = None
    for idx, want_dup in order_cases:
        g = ans[idx].get('model')
        ok1 = real[idx] == g and is_err(real[idx]) and (real[idx] == 'ERR:Other:OperationalError') == want_dup
        if not ok1 and bad is None:
            bad = {'case': json_short(lines[idx]), 'real code': short(real[idx]), 'generated (Gen/Many.lean)': short(g),
                   'expected': 'sqlite3.OperationalError (the name exists already)' if want_dup else 'the error of the unreadable input (not OperationalError)'}
    res.append({'name': f'order inside _create_table (CREATE TABLE before read_pdb): existing name + unreadable input at the same position, {len(order_cases)} fixed inputs at every seed',
                'ok': bad is None, 'case': bad, 'detail': 'real code = generated; OperationalError exactly when the name exists already', 'kind': 'genm'})
    for opname, label, floor in (('genm_init', 'many2sql.__init__', 40), ('genm_call', 'many2sql.__call__', 40),
                                 ('genm_interface_init', 'interface.__init__', 30), ('genm_convert_input', 'many2sql.convert_input', 8)):
        bad, n, disc, nerr, nexist = None, 0, 0, 0, 0
        for ln, r, a, o in zip(lines, real, ans, meta):
            if o != opname:
                continue
            g = a.get('model')
            if isinstance(g, str) and g.startswith('ERR:UNMODELLED'):
                disc += 1
                continue
            n += 1
            nerr += 1 if is_err(r) else 0
            nexist += 1 if r == 'ERR:Other:OperationalError' else 0
            g = of_driver(g) if opname != 'genm_convert_input' else g
            if g != r and bad is None:
                bad = {'case': json_short(ln), 'real code': short(r), 'generated (Gen/Many.lean)': short(g)}
        extra = f', {nexist} of them sqlite3.OperationalError for a table name that exists already' if opname == 'genm_init' else ''
        res.append({'name': f'{label}: real code = generated function on {n} inputs ({nerr} raising{extra}, {disc} outside the model)', 'ok': bad is None and n >= floor,
                    'case': bad, 'detail': 'implementation = generated (tables, names, _nModel, exception class)', 'kind': 'genm'})
    return res


def json_short(x, n=1500):
    import json as _json
    s = _json.dumps(x)
    return x if len(s) <= n else s[:n] + '...'


_manyTie_prev_extra_checks = globals().get('extra_checks')


def extra_checks(ctx):                  # noqa: F811  (extends the definition above, if there is one; its results come first, unchanged)
    return (_manyTie_prev_extra_checks(ctx) if _manyTie_prev_extra_checks else []) + genm_many_checks(ctx)
# ======================================================================================================================
# END manyTie
# ======================================================================================================================


# ======================================================================================================================
# BEGIN parseTie: translated `pdb2sql.__init__` / `pdb2sql.__call__` (Gen/ParseLoop.lean) against the real code
# ======================================================================================================================
GEN_UNITS = GEN_UNITS + ['parse_runtime', 'parse_read_pdb', 'parse_create_table', 'parse_init', 'parse_call', 'fx_data2pdb', 'fx_sql2pdb']      # Props/C15K genp_call_closed uses fxTie's translated sql2pdb
EXTRA_TARGETS = list(globals().get('EXTRA_TARGETS', [])) + ['PdbVerif.Driver.MainA']     # the generated functions are run by the cluster-A driver


def genp_init_call_checks(ctx):
    """implementation = generated.  `__init__`: the order of `_create_sql`, the cursor statements of `_create_table` and `_fix_chainID`
    (recorded by overriding / wrapping them) with and without the option, against `GenP.init`.  `__call__`: the new object `db(**kw)`
    REALLY is (table name, rows through its own connection, `_nModel`, options) against `GenP.call` given the table names and the
    lines `sql2pdb(tablename=names[0], **kw)` returns on the source."""
    import vlib
    from props.c01 import canon_rows, same_rows
    rng = ctx.rng
    out = []

    def record_init(lines, tablename, fix):
        log = []

        class Proxy:
            def __init__(self, real):
                self._real = real

            def execute(self, q, *a):
                log.append({'execute': q})
                return self._real.execute(q, *a)

            def executemany(self, q, data):
                data = [tuple(r) for r in data]
                if q.startswith('INSERT'):
                    log.append({'executemany': q, 'rows': canon_rows(data)})
                return self._real.executemany(q, data)

            def __getattr__(self, k):
                return getattr(self._real, k)

        class Rec(pdb2sql):
            def _create_sql(self, *a, **k):
                log.append({'method': '_create_sql'})
                pdb2sql._create_sql(self, *a, **k)
                self.c = Proxy(self.c)

            def _fix_chainID(self):
                log.append({'method': '_fix_chainID'})
                keep = list(log)
                try:
                    return pdb2sql._fix_chainID(self)      # what it does (and raises) is compared in C04; here: THAT and WHEN it is called
                except BaseException:
                    return None
                finally:
                    log[:] = keep                  # the statements of `get` / `update_column` inside are not `__init__`'s own
        r = call(lambda: Rec(lines, tablename=tablename, fix_chainID=fix))
        if is_err(r):
            return r
        n = r._nModel
        call(lambda: r._close())
        return {'fx': log, 'nModel': n}

    def same_fx(real, gen):
        if isinstance(real, str) or isinstance(gen, str):
            return real == gen
        g = [f for f in gen['fx'] if f.get('method') != 'super().__init__']      # the base-class initialiser is not observable
        if real['nModel'] != gen['nModel'] or len(real['fx']) != len(g):
            return False
        for a, b in zip(real['fx'], g):
            if set(a) != set(b):
                return False
            if 'rows' in a:
                if a['executemany'] != b['executemany'] or not same_rows(a['rows'], b['rows']):
                    return False
            elif a != b:
                return False
        return True

    # ---- __init__
    cs, lines_d, reals = [], [], []
    for k in range(ctx.scale(12, 400)):
        rows = rand_table(rng, rng.choice([1, 2, 3, 6, 10]), rng.choice([0, 0, 0, 2]))
        plines, _ = B.pdb_lines(rows)
        fix = k % 2 == 0
        tn = rng.choice(['atom', 'ATOM', 'a-b', 'x.y'])
        if fix and tn not in ('atom', 'ATOM'):
            tn = 'atom'                          # `_fix_chainID` reads the table ATOM
        reals.append(record_init(list(plines), tn, fix))
        lines_d.append({'op': 'gen_init', 'form': 'listStr', 'arg': list(plines), 'tablename': tn, 'fix_chainID': fix})
    init_lines, init_reals = lines_d, reals
    # ---- __call__ (its driver lines go through the same driver run)
    lines_d, reals = [], []
    ncall = ctx.scale(20, 600)
    for k in range(ncall + 1):
        rows = start_table(rng, rng.choice([1, 2, 4, 8, 12]))
        src_fix = rng.random() < 0.3
        db = call(lambda: build(rows, fix_chainID=src_fix))
        if is_err(db):
            continue
        sel = rng.choice([{}, {}, {'chainID': rng.choice(['A', 'B', 'X'])}, {'name': ['CA', 'N']}, {'no_resName': ['ALA']},
                          {'chainID': 'nochain'}, {'resSeq': [1, 2, 3]}])
        if k == ncall:
            sel = {'chainID': 'nochain'}             # one empty selection in every run
        names = call(lambda: db._get_table_names())
        exported = call(lambda: db.sql2pdb(tablename=names[0], **sel))
        new = call(lambda: db(**sel))
        if is_err(new):
            real = new
        else:
            nn = new._get_table_names()
            real = {'names': nn, 'rows': canon_rows([list(r) for r in new.c.execute(f'select * from {nn[0]}')]), 'nModel': new._nModel,
                    'fix': bool(new.fix_chainID)}
            call(lambda: new._close())
        call(lambda: db._close())
        reals.append(real)
        d = {'op': 'gen_call', 'names': names}
        if not is_err(exported):
            d['lines'] = list(exported)
        lines_d.append(d)
    all_ans = vlib.run_driver(init_lines + lines_d, which='model', cluster='A')
    ans, call_ans = all_ans[:len(init_lines)], all_ans[len(init_lines):]
    bad, nfixed = None, 0
    for line, real, a in zip(init_lines, init_reals, ans):
        g = a.get('model')
        nfixed += bool(line['fix_chainID'] and not isinstance(real, str))
        if a.get('driver_error') or not same_fx(real, g):
            bad = bad or {'line': short(line), 'real': short(real), 'generated': short(g if not a.get('driver_error') else a)}
    out.append({'name': f'gen:__init__ order of _create_sql / _create_table statements / _fix_chainID = implementation ({len(init_lines)} inputs, {nfixed} with the option)',
                'ok': bad is None and nfixed > 3, 'case': bad, 'detail': 'GenP.init (translated on this run)', 'kind': 'gen-init'})

    ans = call_ans
    bad, nok, nempty = None, 0, 0
    for line, real, a in zip(lines_d, reals, ans):
        g = a.get('model')
        if a.get('driver_error'):
            bad = bad or {'line': short(line), 'generated': short(a)}
            continue
        if isinstance(g, str) and g.startswith('ERR:UNMODELLED'):
            continue
        if isinstance(real, str) or isinstance(g, str):
            same = real == g
            nempty += real == 'ERR:IndexError'
        else:
            fx = g['fx']
            ins = [f for f in fx if 'executemany' in f]
            cre = [f for f in fx if 'execute' in f and 'rows' not in f]
            same = (len(ins) == 1 and len(cre) == 1 and cre[0]['execute'].startswith('CREATE TABLE ' + real['names'][0] + ' (')
                    and len(real['names']) == 1 and same_rows(real['rows'], ins[0]['rows']) and real['nModel'] == g['nModel']
                    and not real['fix'] and not any(f.get('method') == '_fix_chainID' for f in fx))
            nok += 1
        if not same:
            bad = bad or {'line': short(line), 'real': short(real), 'generated': short(g)}
    out.append({'name': f'gen:__call__ new object (table name, rows, _nModel, default options) = implementation ({len(lines_d)} derivations: {nok} new objects, {nempty} empty selections)',
                'ok': bad is None and nok > 5 and nempty > 0, 'case': bad, 'detail': 'GenP.call (translated on this run), `sql2pdb` output as a parameter',
                'kind': 'gen-call'})
    return out


_parseTie_prev_extra_checks = globals().get('extra_checks')


def extra_checks(ctx):                  # noqa: F811  (extends the definition above; its results come first, unchanged)
    return (_parseTie_prev_extra_checks(ctx) if _parseTie_prev_extra_checks else []) + genp_init_call_checks(ctx)
# ======================================================================================================================
# END parseTie
# ======================================================================================================================
