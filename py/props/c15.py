"""C15 -- derived databases are faithful snapshots and independent afterwards (histories over a growing family of objects)."""
import numpy as np
from props import c03 as B
from props.c03 import (STD, KIND, POOL, COLNAMES, build, jval, unjval, jrow, db_json, jkw, kw_py, canon, call, is_err, short, rand_table)
from props import c04 as H
from pdb2sql import pdb2sql, many2sql, interface

ID = 'C15'
LEVEL = 'proof'
CLUSTER = 'B'
GEN_UNITS = ['Consts']
RULE = ('Histories of 5-25 steps over a growing family of at most 6 database objects (pdb2sql, interface, many2sql); half of the initial '
        'objects are constructed with the non-default options fix_chainID=True, verbose=True on inputs whose chains are C,D / 1,A / X / '
        'B,A,D / c,C,Z (renamed at load; objects derived from them must keep the chains they were given: later renames through update / '
        'update_column, sub-selections of chain subsets, interface(db), many2sql([db, ...])); each step is a '
        'modification of one object (update / update_xyz / update_column / add_column / _fix_chainID, on any of its tables) or a '
        'derivation from live objects (db(**selection), interface(db), many2sql([db, ...])). After EVERY step the content of EVERY '
        'table of EVERY live object (SELECT * through its own connection) and its column names are compared with the model world '
        '(Model.wstep) and with the reference world of the property (C04 reference model per object + round-tripped snapshot at '
        'derivation). All written values are exactly representable in the PDB columns, so the text round trip changes nothing but the '
        'model number (not exported) and the added columns (dropped). Non-trivial: at least one derivation followed by a modification '
        'of the source or of the derivative.')
ASSUMPTIONS = ['the text round trip is the identity on the values generated (multiples of 1/8 within the coordinate columns, short '
               'names): what it does in general is C01/C02; here only snapshot time and independence are at stake']
TRUSTED = ['the Model driver runs the CONCRETE round trip Model.textRoundtrip (translated data2pdb, then the record loop of C01); the '
           'Spec driver uses its value on representable tables (Driver.B.roundtripRepresentable: model number reset, added columns '
           'dropped) -- Props.C15.roundtrip_is_readBack relates the two']

MODCOLS = ['name', 'resName', 'chainID', 'resSeq', 'x', 'y', 'z', 'serial', 'element', 'altLoc', 'iCode']
PDBPOOL = dict(POOL)
PDBPOOL['occ'] = [1.0, 0.5, 0.25]
PDBPOOL['temp'] = [0.0, 10.0, 2.5, 12.0]


def pv(rng, key):
    if KIND[key] == 'real':
        return rng.choice([0.0, 0.5, 1.25, -3.0, 7.75, 100.125, 2.0, 12.0, -0.125])
    if KIND[key] == 'int':
        return rng.choice([0, 1, 2, 3, 7, 12, -4, 250])
    pool = {'name': ['CA', 'N', 'C', 'O', 'CB', 'H1', '1'], 'resName': ['ALA', 'GLY', 'TRP', 'X'], 'chainID': ['A', 'B', 'X', 'c', '1'],
            'element': ['C', 'N', 'O', 'H', 'FE'], 'altLoc': ['', 'A', 'B'], 'iCode': ['', 'B']}[key]
    return rng.choice(pool)


class Track:
    """the generator's own running copy of an object (shapes the supplied values only)"""
    def __init__(self, kind, names, tables):
        self.kind, self.names, self.tables, self.extras = kind, names, [[list(r) for r in t] for t in tables], []


CHAINSETS = [['A', 'B'], ['C', 'D'], ['1', 'A'], ['X'], ['B', 'A', 'D'], ['c', 'C', 'Z']]


def start_table(rng, n):
    rows = rand_table(rng, n)
    chains = rng.choice(CHAINSETS)
    for i, r in enumerate(rows):
        r[4] = chains[(i * len(chains)) // max(n, 1)] if rng.random() < 0.8 else rng.choice(chains)
    return rows


def fix_rows(rows):
    ids = sorted(set(r[4] for r in rows))
    for r in rows:
        r[4] = 'ABCDEFGHIJKLMNOPQRSTUVWXYZ'[ids.index(r[4])]


def gen_world(rng, nsteps):
    n0 = rng.choice([3, 5, 8, 12])
    objs = [Track('single', ['atom'], [start_table(rng, n0)])]
    if rng.random() < 0.4:
        objs.append(Track('single', ['atom'], [start_table(rng, rng.choice([2, 4, 9]))]))
    # sources constructed with the non-default options fix_chainID=True, verbose=True: the chains are renamed at load
    # (the model applies `_fix_chainID` as a first step); objects derived from them must NOT be renamed again
    init = [{'kind': 'single', 'db': db_json([('atom', t.tables[0])]), 'fix': rng.random() < 0.5} for t in objs]
    for t, o in zip(objs, init):
        if o['fix']:
            fix_rows(t.tables[0])
    ops = []
    for _ in range(nsteps):
        u = rng.random()
        if u < 0.55 or len(objs) >= 6:
            k = rng.randrange(len(objs))
            o = objs[k]
            ti = rng.randrange(len(o.tables))
            tn, rows = o.names[ti], o.tables[ti]
            n = len(rows)
            extras = o.extras if ti == 0 else []
            v = rng.random()
            if v < 0.45:
                cols = rng.sample(MODCOLS, rng.choice([1, 1, 2, 3]))
                kws = [H.same_type_cond(rng, rows, n, extras) for _ in range(rng.choice([0, 1, 1]))]
                sel = [i for i in range(n) if H.py_holds(rows, i, kws, extras)]
                bad = rng.random() < 0.15
                nrow = len(sel) + (1 if bad else 0)
                if nrow == 0:
                    nrow = 1
                    bad = True
                block = [[pv(rng, c) for c in cols] for _ in range(nrow)]
                op = {'name': 'update', 'columns': ','.join(cols), 'values': [jrow(r) for r in block], 'tn': tn, 'kw': jkw(kws),
                      'carrier': rng.choice(['list', 'tuple', 'npscalar'])}
                if not bad:
                    for r, i in zip(block, sel):
                        for c, x in zip(cols, r):
                            rows[i][STD.index(c)] = x
            elif v < 0.65:
                kws = [H.same_type_cond(rng, rows, n, extras) for _ in range(rng.choice([0, 1]))]
                sel = [i for i in range(n) if H.py_holds(rows, i, kws, extras)]
                if not sel:
                    kws, sel = [], list(range(n))
                block = [[pv(rng, 'x') for _ in range(3)] for _ in sel] or [[0.0, 0.0, 0.0]]
                op = {'name': 'update_xyz', 'values': [jrow(r) for r in block], 'tn': tn, 'kw': jkw(kws), 'carrier': rng.choice(['list', 'f64', 'f32'])}
                for r, i in zip(block, sel):
                    rows[i][7:10] = r
            elif v < 0.85:
                c = rng.choice(MODCOLS)
                idx = rng.sample(range(n), rng.randrange(0, n + 1)) if (n and rng.random() < 0.6) else None
                m = len(idx) if idx is not None else n
                vals = [pv(rng, c) for _ in range(m)]
                op = {'name': 'update_column', 'colname': c, 'values': jrow(vals), 'tn': tn, 'carrier': 'list', 'icarrier': rng.choice(['list', 'i64'])}
                if idx is not None:
                    op['index'] = idx
                for x, i in zip(vals, idx if idx is not None else range(n)):
                    rows[i][STD.index(c)] = x
            elif v < 0.93 and o.kind == 'single':
                name = rng.choice(['foo', 'bar', 'score'])
                op = {'name': 'add_column', 'colname': name, 'coltype': rng.choice(['FLOAT', 'INT', 'TEXT']), 'value': jval(rng.choice([0, 1.5, 7])), 'tn': tn}
                if name not in o.extras:
                    o.extras.append(name)
                    for r in rows:
                        r.append(0)
            else:
                op = {'name': 'fix_chainID'}
                t0 = o.tables[o.names.index('ATOM')] if 'ATOM' in o.names else o.tables[0]
                ids = sorted(set(r[4] for r in t0))
                for r in t0:
                    r[4] = 'ABCDEFGHIJKLMNOPQRSTUVWXYZ'[ids.index(r[4])]
            ops.append({'w': 'modify', 'k': k, 'op': op})
        else:
            w = rng.random()
            k = rng.randrange(len(objs))
            o = objs[k]
            if w < 0.45:
                kws = [H.same_type_cond(rng, o.tables[0], len(o.tables[0]), []) for _ in range(rng.choice([0, 1, 1, 2]))]
                if len(set(x for x, _ in kws)) < len(kws):
                    kws = kws[:1]
                kws = [(a, b) for a, b in kws if (a[3:] if a.startswith('no_') else a) in COLNAMES]
                if rng.random() < 0.45:
                    present = sorted(set(r[4] for r in o.tables[0]))
                    sub = rng.sample(present, rng.randrange(1, len(present) + 1)) if present else ['A']
                    kws = [(rng.choice(['chainID', 'chainID', 'no_chainID']), sub)]
                ops.append({'w': 'sub', 'k': k, 'kw': jkw(kws)})
                tabs = o.tables[:1] if o.kind == 'single' else o.tables
                new = [[list(r[:13]) + [0] for i, r in enumerate(t) if H.py_holds(t, i, kws, [])] for t in tabs]
                if all(new):
                    objs.append(Track(o.kind, o.names[:len(new)], new))
            elif w < 0.7:
                ops.append({'w': 'interface', 'k': k})
                src = o.tables[[x.lower() for x in o.names].index('atom')] if 'atom' in [x.lower() for x in o.names] else None
                if src:
                    objs.append(Track('single', ['atom'], [[list(r[:13]) + [0] for r in src]]))
            else:
                ks = [rng.randrange(len(objs)) for _ in range(rng.choice([1, 2, 2, 3]))]
                ops.append({'w': 'many', 'ks': ks})
                srcs = []
                for kk in ks:
                    oo = objs[kk]
                    low = [x.lower() for x in oo.names]
                    srcs.append(oo.tables[low.index('atom')] if 'atom' in low else None)
                if all(srcs):
                    objs.append(Track('many', ['ATOM'] + ['ATOM%d' % i for i in range(1, len(ks))], [[list(r[:13]) + [0] for r in s] for s in srcs]))
    return init, ops


def cases(ctx):
    rng = ctx.rng
    out = []
    for h in range(ctx.scale(400, 4000)):
        init, ops = gen_world(rng, rng.randrange(5, 26))
        out.append({'op': 'world', 'objs': init, 'ops': ops, 'family': 'history'})
    return out


def search_cases(ctx):
    rng = ctx.rng
    out = []
    for h in range(ctx.scale(200, 1500)):
        init, ops = gen_world(rng, rng.randrange(3, 8))
        out.append({'op': 'world', 'objs': init, 'ops': ops, 'family': 'short-history'})
    return out


def nfix(c):
    return sum(1 for o in c['objs'] if o.get('fix'))


def driver_line(c):
    def strip(o):
        if o['w'] == 'modify':
            return {'w': 'modify', 'k': o['k'], 'op': {k: v for k, v in o['op'].items() if k not in ('carrier', 'icarrier', 'kind')}}
        return o
    # construction with fix_chainID=True = `_fix_chainID` applied to the freshly loaded table
    lead = [{'w': 'modify', 'k': k, 'op': {'name': 'fix_chainID'}} for k, o in enumerate(c['objs']) if o.get('fix')]
    return {'op': 'world', 'objs': [{'kind': o['kind'], 'db': o['db']} for o in c['objs']], 'ops': lead + [strip(o) for o in c['ops']]}


def lead_ops(c):
    return [{'w': 'load(fix_chainID=True)'}] if nfix(c) else []


def aligned_steps(c, answers):
    """the driver answers one record per leading `_fix_chainID`; the objects are observed once, after all were loaded"""
    k = nfix(c)
    return answers[k - 1:] if k > 1 else answers


def observe(objs):
    out = []
    for db in objs:
        out.append({'tabs': [{'rows': canon(db.c.execute(f'select * from {n}').fetchall())} for n in db._get_table_names()],
                    'colnames': db.get_colnames()})
    return out


def impl(ctx, c):
    objs = []
    for o in c['objs']:
        rows = [[unjval(v) for v in r] for r in o['db']['tabs'][0]['rows']]
        if o.get('fix'):
            db = call(lambda: build(rows, fix_chainID=True, verbose=True))
            if is_err(db):
                raise RuntimeError(f'construction with fix_chainID=True raised {db}')
        else:
            db = build(rows)
            B.check_parse(db, rows, tn='atom')
        objs.append(db)
    steps = []
    if nfix(c):
        steps.append({'out': 'ok', 'objs': observe(objs)})
    for o in c['ops']:
        if o['w'] == 'modify':
            r = call(lambda: H.apply_op(objs[o['k']], o['op']))
        elif o['w'] == 'sub':
            r = call(lambda: objs[o['k']](**kw_py(o['kw'])))
        elif o['w'] == 'interface':
            r = call(lambda: interface(objs[o['k']]))
        else:
            r = call(lambda: many2sql([objs[k] for k in o['ks']]))
        if not is_err(r) and o['w'] != 'modify':
            objs.append(r)
        steps.append({'out': r if is_err(r) else 'ok', 'objs': observe(objs)})
    return steps


def agree_model(c, out, model):
    model = aligned_steps(c, model)
    ops = lead_ops(c) + c['ops']
    c = dict(c, ops=ops)
    for k, (a, m) in enumerate(zip(out, model)):
        if isinstance(m['out'], str) and m['out'].startswith('ERR:UNMODELLED'):
            return 'discard'
        what = f'step {k} ({c["ops"][k]["w"]})'
        if a['out'] != m['out']:
            return f'{what}: implementation {a["out"]} model {m["out"]}'
        mo = [H.strip_names(d) for d in m['objs']]
        if a['objs'] != mo:
            bad = [i for i in range(max(len(mo), len(a['objs']))) if i >= len(mo) or i >= len(a['objs']) or mo[i] != a['objs'][i]]
            return f'{what}: objects {bad} differ: implementation {short([a["objs"][i] for i in bad if i < len(a["objs"])])} model {short([mo[i] for i in bad if i < len(mo)])}'
    return True


def agree_spec(c, out, spec):
    if nfix(c) and any(s['out'] == 'outside' for s in spec[:nfix(c)]):
        return True
    spec = aligned_steps(c, spec)
    c = dict(c, ops=lead_ops(c) + c['ops'])
    prev = [{'tabs': [{'rows': o['db']['tabs'][0]['rows']}], 'colnames': COLNAMES} for o in c['objs']]
    for k, (a, s) in enumerate(zip(out, spec)):
        what = f'step {k} ({c["ops"][k]["w"]})'
        if s['out'] == 'outside':
            return True
        if s['out'] == 'reject':
            if a['out'] == 'ok':
                return f'{what}: accepted where the property demands an error'
            if not H.eqv(a['objs'], prev):
                return f'{what}: raised {a["out"]} after changing some object'
        else:
            if a['out'] != 'ok':
                return f'{what}: raised {a["out"]} on a well-formed step'
            so = [H.strip_names(d) for d in s['objs']]
            if not H.eqv(a['objs'], so):
                bad = [i for i in range(max(len(so), len(a['objs']))) if i >= len(so) or i >= len(a['objs']) or not H.eqv(so[i], a['objs'][i])]
                return f'{what}: objects {bad} differ from their reference tables'
        prev = a['objs']
    return True


def nontrivial_key(c, out):
    seen_derive = False
    for o, st in zip(lead_ops(c) + c['ops'], out):
        if o['w'] != 'modify' and st['out'] == 'ok':
            seen_derive = True
        elif o['w'] == 'modify' and seen_derive and st['out'] == 'ok':
            import vlib
            return vlib.case_hash({'objs': c['objs'], 'ops': c['ops']})
    return None


def distribution(recs):
    nsteps, kinds, outs, nobj, classes = {}, {}, {}, {}, {}
    for r in recs:
        c = r['case']
        nsteps[len(c['ops'])] = nsteps.get(len(c['ops']), 0) + 1
        for o, st in zip(lead_ops(c) + c['ops'], r['impl'] if isinstance(r['impl'], list) else []):
            k = o['w'] + (':' + o['op']['name'] if o['w'] == 'modify' else '')
            kinds[k] = kinds.get(k, 0) + 1
            outs[st['out']] = outs.get(st['out'], 0) + 1
        if isinstance(r['impl'], list) and r['impl']:
            n = len(r['impl'][-1]['objs'])
            nobj[n] = nobj.get(n, 0) + 1
            for o in r['impl'][-1]['objs']:
                t = len(o['tabs'])
                classes['%d table(s)' % t] = classes.get('%d table(s)' % t, 0) + 1
    fixed = {'sources loaded with fix_chainID=True, verbose=True': sum(nfix(r['case']) for r in recs),
             'default sources': sum(len(r['case']['objs']) - nfix(r['case']) for r in recs)}
    return {'initial_objects': fixed, 'history_lengths': dict(sorted(nsteps.items())), 'steps_by_kind': dict(sorted(kinds.items())), 'step_outcomes': outs,
            'live_objects_at_end': dict(sorted(nobj.items())), 'objects_by_table_count': classes}
