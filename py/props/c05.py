"""C05 -- contact atoms: exactly the atoms within the cutoff of the other chain (also the shared generator of C14)."""
import os, itertools, json, hashlib
from fractions import Fraction
import numpy as np
from vlib import rat, unrat, exc_tag, REPO
from pdb2sql import interface

ID = 'C05'
LEVEL = 'proof'
CLUSTER = 'C'
GEN_UNITS = ['Consts', 'contacts_attrs', 'contacts_get_chains', 'contacts_extend_to_residue', 'contacts_get_contact_atoms']
RULE = ('synthetic structures of 2-5 chains (1-12 atoms each, table order contiguous or interleaved, chain IDs not in sorted order) on a '
        '1/4-Angstrom lattice: every atom of a later chain is placed relative to an atom of another chain by an offset that is EXACTLY a '
        'cutoff (integer solutions of a^2+b^2+c^2 = (4*cutoff)^2 for the cutoffs 3, 5, 7, 8.5, 9), one lattice step inside, one step outside, '
        'or random; some chains are placed 100 A away (no contact); atom names are backbone / side chain / hydrogens as written in PDB columns '
        '(" H  ", " HA ", "1HB ", "HD11") / names containing but not starting with H / blank; every structure is run with 2 cutoffs x all ordered '
        'chain pairs x the 8 combinations of only_backbone_atoms/excludeH/return_contact_pairs, and with allchains x the same 8; plus a malformed '
        'stream (unknown chain, chain paired with itself, single-chain allchains, negative and zero cutoff); HISTORIES: one live object, 2-4 calls '
        '(get_contact_atoms / get_contact_residues, varying options, chain pairs, cutoffs; identical calls repeated) alternating with edits of one chain '
        'through the public API (transform.translation, update_xyz, update, update_column by exact lattice vectors onto / next to a cutoff or 100 A away; '
        'renaming atoms; rot_axis), every call compared with Model and Spec on the table read back from the object at that moment; no-contact '
        'structures and structures whose contacting atoms are all filtered out for every option combination; and the bundled 3CRO at 8.5 / 6.0 A '
        '(thorough: further option combinations, all four chains of 3CRO, 3CRO_H, 1AK4 target and 10w; a few corpus structures run first); '
        'EXTENDED chains: 2-4 strands of 4-10 atoms along one of the 26 lattice directions (axes, face and space diagonals, equally often), several '
        'cutoffs long, a later chain starting exactly on / one step inside / outside the cutoff from an end or an inner atom of an earlier one '
        '(end to end on one line, side by side, corner to corner, crossing; some far away), cutoffs 3-8.5 A small compared with the chains, all ordered '
        'pairs and allchains x 8 option combinations (also in the swap / union / exactly-once relations). The model receives the exact rationals of the doubles the library parsed. A case is counted '
        'non-trivial when its result is non-empty or an exception, distinct by (structure, arguments).')
ASSUMPTIONS = ['single-model files (no ENDMDL): with models get() returns one list per model and get_contact_atoms is not defined',
               'floating-point distance equals the exact distance decision: generated distances are exactly on a cutoff (lattice values, exact in binary64) '
               'or at least 1e-6 away from it; cases of real files with a pair closer than 1e-6 to the cutoff are discarded and counted',
               'np.array() of the mixed rows converts each float to its shortest repr and back (exact round trip)',
               'SQLite returns the rows of `chainID = ?` / `rowID IN (...)` in table order (rowid order)']
TRUSTED = ['the published backbone atom names N, CA, C, O are given to the Spec by the harness (constant BACKBONE); the Model takes them from the source (Gen.backbone_atoms)',
           'translator plug-in py/translate_ext_contacts.py (Python ast -> Gen/Contacts.lean) and the runtime lean/PdbVerif/Py/Dict.lean that fixes what the translated dict / list / set / '
           'NumPy operations mean; cross-checked on every run: every case is answered by the hand model AND by the generated function (sets iterated in insertion order, and in reverse on '
           'small tables with extend_to_residue) and the implementation must equal all of them; Props/C05K, C14K prove generated = hand model for all inputs']

BACKBONE = ['CA', 'C', 'N', 'O']            # the convention the property refers to (not read from the library)
CUTS = [3.0, 5.0, 7.0, 8.5, 9.0]
PDBDIR = os.path.join(REPO, 'test', 'pdb')


# ----------------------------------------------------------------------------------------------------------------
# lattice geometry (quarter-Angstrom units)
# ----------------------------------------------------------------------------------------------------------------

def _exact_vectors():
    out = {}
    for c in CUTS:
        r2 = int(round((4 * c) ** 2))
        m = int(4 * c)
        sols = []
        for a in range(0, m + 1):
            for b in range(a, m + 1):
                cc2 = r2 - a * a - b * b
                if cc2 < b * b:
                    break
                c_ = int(round(cc2 ** 0.5))
                if c_ * c_ == cc2:
                    sols.append((a, b, c_))
        out[c] = sols
    return out


EXACT = _exact_vectors()


def pick_offset(rng, cutoff=None):
    """(offset in quarter units, mode)"""
    c = cutoff if cutoff is not None else rng.choice(CUTS)
    v = list(rng.choice(EXACT[c]))
    mode = rng.choice(['exact', 'exact', 'inside', 'outside', 'random'])
    if mode == 'random':
        return [rng.randint(-40, 40) for _ in range(3)], mode
    nz = [k for k in range(3) if v[k] != 0]
    k = rng.choice(nz)
    if mode == 'inside':
        v[k] -= 1
    elif mode == 'outside':
        v[k] += 1
    rng.shuffle(v)
    v = [x * rng.choice([-1, 1]) for x in v]
    return v, mode


# ----------------------------------------------------------------------------------------------------------------
# structures
# ----------------------------------------------------------------------------------------------------------------

NAMES_BB = [' CA ', ' C  ', ' N  ', ' O  ']
NAMES_SC = [' CB ', ' CG ', ' OG1', ' SD ', ' NZ ', ' CD1', ' OXT', ' OH ', ' NH1', ' CH2', ' P  ', " O5'"]
NAMES_H = [' H  ', ' HA ', ' HB2', 'HD11', ' HG ', ' HZ3', ' HH ']
NAMES_DIGIT_H = ['1HB ', '2HG1', '3HD2']           # hydrogens of old files: the stripped name starts with a digit
NAMES_BLANK = ['    ']
RESNAMES = ['ALA', 'GLY', 'SER', 'LYS', 'TRP', ' DA', '  G', 'HOH']
CHAIN_POOL = list('ABCDEFXYZabxy0159')


def atom_line(serial, name, resName, chain, resSeq, x, y, z, alt=' ', icode=' ', occ=1.0, temp=0.0, elem=' C'):
    return "ATOM  %5d %-4s%1s%3s %1s%4d%1s   %8.3f%8.3f%8.3f%6.2f%6.2f          %2s  " % (
        serial, name, alt, resName, chain, resSeq, icode, x, y, z, occ, temp, elem)


def pick_name(rng, blank_ok=True):
    r = rng.random()
    if r < 0.40:
        return rng.choice(NAMES_BB)
    if r < 0.62:
        return rng.choice(NAMES_SC)
    if r < 0.86:
        return rng.choice(NAMES_H)
    if r < 0.95 or not blank_ok:
        return rng.choice(NAMES_DIGIT_H)
    return rng.choice(NAMES_BLANK)


def gen_structure(rng, nchains=None, max_atoms=12, target_cutoff=None, residue_tricks=True):
    """list of atom dicts {chain, resSeq, resName, name, q:(quarter-unit ints)} in table order"""
    nchains = nchains or rng.choice([2, 2, 3, 3, 3, 4, 5])
    chains = rng.sample(CHAIN_POOL, nchains)
    per_chain = []
    placed = []                                   # non-isolated atoms placed so far
    shared_seq = rng.randint(-9, 40)
    for ci, ch in enumerate(chains):
        n = rng.randint(1, max_atoms)
        isolated = ci > 0 and rng.random() < 0.15
        base = [400 * (ci + 1) * (1 if isolated else 0) + rng.randint(-8, 8) for _ in range(3)]
        seq = shared_seq if (residue_tricks and rng.random() < 0.6) else rng.randint(-20, 60)
        resname = rng.choice(RESNAMES)
        left = rng.randint(1, 5)
        mine = []
        for k in range(n):
            if left == 0:
                left = rng.randint(1, 5)
                r = rng.random()
                if residue_tricks and r < 0.25:
                    resname = rng.choice([x for x in RESNAMES if x != resname])      # same number, other name
                elif r < 0.85:
                    seq += rng.choice([1, 1, 2, 7])
                    resname = rng.choice(RESNAMES)
                else:
                    seq -= rng.choice([1, 3])                                         # numbering going back
                    resname = rng.choice(RESNAMES)
            left -= 1
            others = [a for a in placed if a['chain'] != ch]
            if others and not isolated and rng.random() < 0.75:
                anchor = rng.choice(others)
                off, _ = pick_offset(rng, target_cutoff if rng.random() < 0.7 else None)
                q = [anchor['q'][i] + off[i] for i in range(3)]
            elif mine and rng.random() < 0.5:
                anchor = rng.choice(mine)
                q = [anchor['q'][i] + rng.randint(-6, 6) for i in range(3)]
            else:
                q = [base[i] + rng.randint(-16, 16) for i in range(3)]
            a = {'chain': ch, 'resSeq': seq, 'resName': resname, 'name': pick_name(rng), 'q': q}
            mine.append(a)
            if not isolated:
                placed.append(a)
        per_chain.append(mine)
    if rng.random() < 0.25:                        # interleave the chains in the table
        allat = [a for m in per_chain for a in m]
        order = list(range(len(allat)))
        rng.shuffle(order)
        table = [allat[i] for i in order]
    else:
        table = [a for m in per_chain for a in m]
    return table


DIRECTIONS = [d for d in itertools.product((-1, 0, 1), repeat=3) if any(d)]       # 6 axes, 12 face diagonals, 8 space diagonals


def gen_extended_structure(rng, target_cutoff, nchains=None):
    """EXTENDED chains: every chain is a strand of 4-10 atoms, `step` lattice units apart per coordinate along one of the 26 lattice
    directions (axes, face diagonals, space diagonals), so that a chain is several cutoffs long.  A later chain starts at an
    offset of exactly / just inside / just outside the cutoff (pick_offset) from an END atom or an inner atom of an earlier chain and
    runs along the same direction (end to end along the line, or side by side), the opposite one, or another direction (chains
    meeting corner to corner / crossing); some chains are placed far away.  The chains of the random family `gen_structure` are blobs
    of about one cutoff across; here the contacting atoms are typically at the ends of long chains, i.e. at the corners of their
    bounding boxes and far from their centres (any geometry is in the quantifier).  Returns (table, layout description)."""
    nchains = nchains or rng.choice([2, 2, 3, 3, 4])
    chains = rng.sample(CHAIN_POOL, nchains)
    kind = rng.choice([1, 2, 3])                                # an axis, a face diagonal, a space diagonal: equally often
    u = list(rng.choice([d for d in DIRECTIONS if sum(1 for x in d if x) == kind]))
    per_chain, layout = [], []
    shared_seq = rng.randint(-9, 40)
    for ci, ch in enumerate(chains):
        n = rng.randint(4, 10)
        step = rng.randint(6, 14)                               # 1.5 - 3.5 A per coordinate
        if ci == 0:
            start, d, how = [rng.randint(-8, 8) for _ in range(3)], u, 'first'
        else:
            r = rng.random()
            prev = per_chain[rng.randrange(len(per_chain))]
            if r < 0.12:
                how, anchor = 'far', [400 * (ci + 1) + rng.randint(-8, 8) for _ in range(3)]
                off = [0, 0, 0]
            else:
                how = 'end' if r < 0.65 else 'inner'
                a = prev[-1] if (how == 'end' and rng.random() < 0.7) else prev[0] if how == 'end' else rng.choice(prev)
                anchor = a['q']
                off, mode = pick_offset(rng, target_cutoff if rng.random() < 0.8 else None)
                how += ':' + mode
            start = [anchor[i] + off[i] for i in range(3)]
            r2 = rng.random()
            d = u if r2 < 0.55 else [-x for x in u] if r2 < 0.7 else list(rng.choice(DIRECTIONS))
        seq = shared_seq if rng.random() < 0.5 else rng.randint(-20, 60)
        resname = rng.choice(RESNAMES)
        left = rng.randint(1, 3)
        mine = []
        for k in range(n):
            if left == 0:
                left = rng.randint(1, 3)
                seq += rng.choice([1, 1, 2])
                resname = rng.choice(RESNAMES)
            left -= 1
            q = [start[i] + k * step * d[i] + (rng.randint(-1, 1) if k else 0) for i in range(3)]
            mine.append({'chain': ch, 'resSeq': seq, 'resName': resname, 'name': pick_name(rng), 'q': q})
        if rng.random() < 0.3:
            mine.reverse()                                      # the contacting end is the first / the last atom of the chain in the table
        per_chain.append(mine)
        layout.append([how, list(d), n, step])
    table = [a for m in per_chain for a in m]
    if rng.random() < 0.15:                                     # interleave the chains in the table
        rng.shuffle(table)
    return table, layout


def to_lines(table):
    return [atom_line(i + 1, a['name'], a['resName'], a['chain'], a['resSeq'], a['q'][0] / 4.0, a['q'][1] / 4.0, a['q'][2] / 4.0,
                      elem=' H' if a['name'].strip().lstrip('0123456789').startswith('H') else ' C')
            for i, a in enumerate(table)]


# ----------------------------------------------------------------------------------------------------------------
# running the real code
# ----------------------------------------------------------------------------------------------------------------

_DB = {}          # one live interface object (key of the structure (+ history) -> object)
_TABLE = {}       # key -> table the object holds at the moment of the final call, in driver form


def struct_key(c):
    if 'pdb' in c:
        return c['pdb']
    if c.get('history'):
        return json.dumps([c['lines'], c['history']])
    return json.dumps(c['lines'])


def call_kwargs(c):
    return dict(cutoff=float(unrat(c['cutoff'])), allchains=c['allchains'], chain1=c['chain1'], chain2=c['chain2'],
                only_backbone_atoms=c['bb'], excludeH=c['noH'], return_contact_pairs=c['pairs'])


def do_call(db, c):
    """the real call described by `c` (a case or a history step)"""
    kw = call_kwargs(c)
    if c['op'] == 'contact_atoms':
        return db.get_contact_atoms(extend_to_residue=c['extend'], **kw)
    return db.get_contact_residues(**kw)


def apply_edit(db, e):
    """edit the coordinates / names of one chain of a live object through the public API"""
    from pdb2sql import transform
    ch = e['chain']
    how = e['how']
    if how == 'rename':
        rows = [int(i) for i in db.get('rowID', chainID=ch)]
        db.update_column('name', list(e['names']), index=rows)
        return
    if how == 'rot_axis':
        transform.rot_axis(db, np.array([0.0, 0.0, 1.0]), np.pi / 2, chainID=ch)
        return
    v = np.array([q / 4.0 for q in e['vec']])
    if how == 'translation':
        transform.translation(db, v, chainID=ch)
    elif how == 'update_xyz':
        db.update_xyz(np.array(db.get('x,y,z', chainID=ch)) + v, chainID=ch)
    elif how == 'update':
        db.update('x,y,z', np.array(db.get('x,y,z', chainID=ch)) + v, chainID=ch)
    elif how == 'update_column':
        rows = [int(i) for i in db.get('rowID', chainID=ch)]
        for k, col in enumerate('xyz'):
            vals = [float(x) + float(v[k]) for x in db.get(col, chainID=ch)]
            db.update_column(col, vals, index=rows)
    else:
        raise ValueError('unknown edit ' + how)


def open_db(c):
    """a fresh object on which the case's history (earlier calls, whose results are dropped, and edits) has been replayed"""
    db = interface(c['pdb'] if 'pdb' in c else list(c['lines']))
    for st in c.get('history') or []:
        if st['kind'] == 'call':
            try:
                do_call(db, st)
            except Exception:
                pass                      # that call is a case of its own; here only its effect on the object matters
        else:
            apply_edit(db, st)
    return db


def get_db(c):
    k = struct_key(c)
    if k not in _DB:
        for old in list(_DB.values()):
            try:
                old._close()
            except Exception:
                pass
        _DB.clear()
        _DB[k] = open_db(c)
    return _DB[k]


def table_of(db):
    rows = db.get('*')
    out = []
    for r in rows:
        out.append([int(r[0]), r[1], r[2], r[3], r[4], int(r[5]), r[6], rat(float(r[7])), rat(float(r[8])), rat(float(r[9])),
                    rat(float(r[10])), rat(float(r[11])), r[12], int(r[13])])
    return out


def get_table(c):
    """the table the object holds at the moment of the case's call (never raises: an unreadable table is sent as empty)"""
    k = struct_key(c)
    if k not in _TABLE:
        if len(_TABLE) > 4:
            _TABLE.clear()
        try:
            _TABLE[k] = table_of(get_db(c))
        except Exception:
            _TABLE[k] = []
    return _TABLE[k]


# ---- canonical forms: total -- whatever comes back becomes a JSON value --------------------------------------------

def as_int(x):
    if isinstance(x, bool) or not isinstance(x, (int, np.integer)):
        raise TypeError('not an integer: %r' % (x,))
    return int(x)


def as_str(x):
    if not isinstance(x, str):
        raise TypeError('not a string: %r' % (x,))
    return str(x)


def as_res(x):
    if len(x) != 3:
        raise TypeError('not a residue triple: %r' % (x,))
    return [as_str(x[0]), as_int(x[1]), as_str(x[2])]


def canon_chains(d):
    return {'chains': [[k, [as_int(i) for i in v]] for k, v in sorted((as_str(k), v) for k, v in d.items())]}


def canon_pairs(d):
    return {'pairs': [[k, [as_int(i) for i in v]] for k, v in sorted((as_int(k), v) for k, v in d.items())]}


def canon_res_chains(d):
    return {'chains': [[k, [as_res(x) for x in v]] for k, v in sorted((as_str(k), v) for k, v in d.items())]}


def canon_res_pairs(d):
    return {'pairs': [[k, [as_res(x) for x in v]] for k, v in sorted((as_res(k), v) for k, v in d.items())]}


def canon(c, r):
    """canonical JSON value of what the call returned; any unexpected shape / key type becomes {'unexpected': ...}"""
    try:
        if not isinstance(r, dict):
            raise TypeError('not a dict')
        if c['op'] == 'contact_atoms':
            return canon_pairs(r) if c['pairs'] else canon_chains(r)
        return canon_res_pairs(r) if c['pairs'] else canon_res_chains(r)
    except Exception as e:
        return {'unexpected': repr(r)[:400], 'why': repr(e)[:200]}


def min_margin(c):
    """smallest | distance - cutoff | over the pairs of atoms that are not exactly on the cutoff (float arithmetic: its error is
    far below the 1e-6 band)"""
    k = ('margin', struct_key(c), c['cutoff'])
    if k in _MARGIN:
        return _MARGIN[k]
    t = get_table(c)
    best = np.inf
    if t:
        xyz = np.array([[float(unrat(r[7])), float(unrat(r[8])), float(unrat(r[9]))] for r in t])
        cut = float(unrat(c['cutoff']))
        for i in range(0, len(xyz), 512):
            d = np.sqrt(((xyz[i:i + 512, None, :] - xyz[None, :, :]) ** 2).sum(-1))
            m = np.abs(d - cut)
            m[d == cut] = np.inf
            best = min(best, float(m.min()))
    if len(_MARGIN) > 64:
        _MARGIN.clear()
    _MARGIN[k] = best
    return best


_MARGIN = {}


def exact_on_cutoff(c):
    """number of atom pairs of different chains at a distance of exactly the cutoff (exact rational arithmetic; synthetic structures only)"""
    t = get_table(c)
    if len(t) > 80:
        return 0
    cut2 = unrat(c['cutoff']) ** 2
    pts = [(r[4], unrat(r[7]), unrat(r[8]), unrat(r[9])) for r in t]
    n = 0
    for a, b in itertools.combinations(pts, 2):
        if a[0] != b[0] and (a[1] - b[1]) ** 2 + (a[2] - b[2]) ** 2 + (a[3] - b[3]) ** 2 == cut2:
            n += 1
    return n


def impl(ctx, c):
    """canonical outcome of the real call -- never raises: exceptions of the call become their tag, anything else that goes
    wrong (history replay, unexpected return value) becomes an {'unexpected': ...} value that disagrees with Model and Spec"""
    try:
        db = get_db(c)
        get_table(c)
    except Exception as e:
        return {'unexpected': 'building the object / replaying the history raised ' + repr(e)[:300]}
    try:
        r = do_call(db, c)
    except Exception as e:
        return exc_tag(e)
    return canon(c, r)


def driver_line(c):
    return {'op': c['op'], 'atoms': get_table(c), 'cutoff': c['cutoff'], 'allchains': c['allchains'], 'chain1': c['chain1'],
            'chain2': c['chain2'], 'extend': c['extend'], 'bb': c['bb'], 'noH': c['noH'], 'pairs': c['pairs'], 'backbone': BACKBONE,
            'gen': True}        # the Model driver answers with the hand model AND the generated translation (Gen/Contacts.lean)


# ----------------------------------------------------------------------------------------------------------------
# cases
# ----------------------------------------------------------------------------------------------------------------

def mk(op, src, cutoff, allchains, ch1, ch2, bb, noH, pairs, extend, family):
    c = {'op': op, 'cutoff': rat(float(cutoff)), 'allchains': allchains, 'chain1': ch1, 'chain2': ch2, 'bb': bb, 'noH': noH,
         'pairs': pairs, 'extend': extend, 'family': family}
    c.update(src)
    return c


def chains_of_lines(lines):
    seen = []
    for l in lines:
        if l[21] not in seen:
            seen.append(l[21])
    return seen


def option_cases(op, src, chains, cutoffs, family, extends=(False,), pair_limit=None, rng=None):
    out = []
    ordered = [(a, b) for a in chains for b in chains if a != b]
    if pair_limit is not None and len(ordered) > pair_limit:
        ordered = rng.sample(ordered, pair_limit)
    for cut in cutoffs:
        for bb, noH, pairs in itertools.product([False, True], repeat=3):
            for ext in extends:
                if ext and pairs and op == 'contact_atoms':
                    pass                      # legal combination: the pair map is returned unextended
                for a, b in ordered:
                    out.append(mk(op, src, cut, False, a, b, bb, noH, pairs, ext, family))
                out.append(mk(op, src, cut, True, chains[0], chains[-1], bb, noH, pairs, ext, family + ':allchains'))
    return out


def structure_cases(ctx, op, n_struct, family='lattice', extends=(False,), pair_limit=None):
    rng = ctx.rng
    out = []
    for _ in range(n_struct):
        target = rng.choice(CUTS)
        table = gen_structure(rng, target_cutoff=target)
        lines = to_lines(table)
        chains = chains_of_lines(lines)
        cuts = [target, rng.choice([c for c in CUTS if c != target])]
        if rng.random() < 0.15:
            cuts[1] = rng.choice([4.3, 6.0, 10.0, 2.25, 12.5])
        out += option_cases(op, {'lines': lines}, chains, cuts, family, extends, pair_limit, rng)
    return out


def extended_cases(ctx, op, n_struct, family='extended', extends=(False,), pair_limit=4):
    """extended chains (gen_extended_structure) with cutoffs that are small compared with the chains: the target cutoff (3 or 5 A
    mostly) and one other; all ordered chain pairs (at most `pair_limit` when there are more) x 8 option combinations, and allchains"""
    rng = ctx.rng
    out = []
    for _ in range(n_struct):
        target = rng.choice([3.0, 3.0, 5.0, 5.0, 7.0, 8.5])
        table, layout = gen_extended_structure(rng, target)
        lines = to_lines(table)
        chains = chains_of_lines(lines)
        cuts = [target, rng.choice([c for c in CUTS if c != target])]
        cs = option_cases(op, {'lines': lines}, chains, cuts, family, extends, pair_limit, rng)
        for c in cs:
            c['layout'] = layout
        out += cs
    return out


def malformed_cases(ctx, op, n):
    rng = ctx.rng
    out = []
    for _ in range(n):
        table = gen_structure(rng, nchains=rng.choice([2, 3]), max_atoms=5)
        lines = to_lines(table)
        chains = chains_of_lines(lines)
        src = {'lines': lines}
        unknown = rng.choice([x for x in 'QRSTUVW' if x not in chains])
        for bb, noH, pairs in [(False, False, False), (True, True, True), (False, True, True)]:
            out.append(mk(op, src, 5.0, False, chains[0], unknown, bb, noH, pairs, False, 'malformed:unknown-chain2'))
            out.append(mk(op, src, 5.0, False, unknown, chains[0], bb, noH, pairs, False, 'malformed:unknown-chain1'))
            out.append(mk(op, src, 5.0, False, chains[0], chains[0], bb, noH, pairs, False, 'malformed:same-chain'))
            out.append(mk(op, src, -5.0, False, chains[0], chains[1], bb, noH, pairs, False, 'malformed:negative-cutoff'))
            out.append(mk(op, src, 0.0, False, chains[0], chains[1], bb, noH, pairs, False, 'malformed:zero-cutoff'))
            out.append(mk(op, src, 0.0, True, chains[0], chains[1], bb, noH, pairs, False, 'malformed:zero-cutoff'))
        single = [l for l in lines if l[21] == chains[0]]
        out.append(mk(op, {'lines': single}, 5.0, True, chains[0], chains[0], False, False, False, False, 'malformed:single-chain-allchains'))
        out.append(mk(op, {'lines': single}, 5.0, True, chains[0], chains[0], False, False, True, False, 'malformed:single-chain-allchains'))
    # two atoms at the same place, cutoff 0
    l2 = [atom_line(1, ' CA ', 'ALA', 'A', 1, 1.0, 2.0, 3.0), atom_line(2, ' CA ', 'ALA', 'B', 1, 1.0, 2.0, 3.0), atom_line(3, ' CA ', 'ALA', 'B', 2, 1.0, 2.0, 3.25)]
    for pairs in (False, True):
        out.append(mk(op, {'lines': l2}, 0.0, False, 'A', 'B', False, False, pairs, False, 'malformed:zero-cutoff-coincident'))
    return out


def file_cases(ctx, op, extends=(False,), heavy=True):
    """bundled structures (set equality through the drivers). quick: 3CRO chains A/B at 8.5 and 6.0 A; thorough adds other
    option combinations, all chains of 3CRO (4 chains), 3CRO_H and 1AK4 (exact rational arithmetic on ~10^6 atom pairs per case:
    40-75 s each, hence only a few)"""
    out = []
    src = {'pdb': os.path.join(PDBDIR, '3CRO.pdb')}
    ext = extends[-1]
    out.append(mk(op, src, 8.5, False, 'A', 'B', False, False, False, ext, 'file:3CRO'))
    out.append(mk(op, src, 6.0, False, 'B', 'A', False, True, True, False, 'file:3CRO'))
    if ctx.thorough:
        out.append(mk(op, src, 6.0, False, 'A', 'B', False, False, False, ext, 'file:3CRO'))
        out.append(mk(op, src, 8.5, False, 'B', 'A', True, False, True, False, 'file:3CRO'))
        out.append(mk(op, src, 8.5, False, 'L', 'R', True, True, True, False, 'file:3CRO'))
        out.append(mk(op, src, 6.0, True, 'A', 'B', True, False, True, False, 'file:3CRO:allchains'))
        srch = {'pdb': os.path.join(PDBDIR, '3CRO_H.pdb')}
        out.append(mk(op, srch, 6.0, False, 'A', 'B', False, True, False, ext, 'file:3CRO_H'))
        out.append(mk(op, srch, 5.0, False, 'A', 'B', False, False, True, False, 'file:3CRO_H'))
        s2 = {'pdb': os.path.join(PDBDIR, '1AK4', 'target.pdb')}
        out.append(mk(op, s2, 5.0, False, 'B', 'A', False, True, True, False, 'file:1AK4'))
        if heavy:
            out.append(mk(op, src, 6.0, True, 'A', 'B', False, False, False, ext, 'file:3CRO:allchains'))
            out.append(mk(op, s2, 8.5, False, 'A', 'B', False, False, False, ext, 'file:1AK4'))
            s3 = {'pdb': os.path.join(PDBDIR, '1AK4', '1AK4_10w.pdb')}
            out.append(mk(op, s3, 5.0, False, 'A', 'B', False, True, True, False, 'file:1AK4'))
    return out


EDITS = ['translation', 'update_xyz', 'update', 'update_column']


def corpus(ctx, op='contact_atoms', extends=(False,)):
    """small hand-made structures, run first (so that a replay is small whenever a small structure shows the failure):
    two atoms exactly on / one lattice step inside / outside every cutoff; a hub atom in contact with two other chains;
    filters that differ on the two sides; residues that share a number but differ in name or chain"""
    out = []
    for c in CUTS:
        v = EXACT[c][len(EXACT[c]) // 2]
        for delta in (0, -1, 1):
            w = list(v)
            k = max(range(3), key=lambda i: w[i])
            w[k] += delta
            lines = [atom_line(1, ' CA ', 'ALA', 'A', 1, 0, 0, 0), atom_line(2, ' CA ', 'GLY', 'B', 1, w[0] / 4.0, w[1] / 4.0, w[2] / 4.0)]
            out += option_cases(op, {'lines': lines}, ['A', 'B'], [c], 'corpus:at-cutoff', extends)
    hub = [atom_line(1, ' CA ', 'LYS', 'A', 5, 0, 0, 0), atom_line(2, ' CA ', 'ALA', 'B', 1, 3, 4, 0), atom_line(3, ' HA ', 'ALA', 'B', 1, 3, 3.75, 0),
           atom_line(4, ' N  ', 'GLY', 'C', 5, 0, -3, -4), atom_line(5, ' CB ', 'GLY', 'C', 7, 40, 0, 0), atom_line(6, ' O  ', 'ALA', 'B', 2, 3.25, 4, 0)]
    out += option_cases(op, {'lines': hub}, ['A', 'B', 'C'], [5.0], 'corpus:hub', extends)
    hub2 = [hub[1], hub[3], hub[0], hub[2], hub[5], hub[4]]          # the hub's chain in the middle of the table
    out += option_cases(op, {'lines': hub2}, ['B', 'C', 'A'], [5.0], 'corpus:hub', extends)
    for n1, n2 in itertools.product([' CA ', ' H  ', '1HB ', ' CB '], repeat=2):
        lines = [atom_line(1, n1, 'ALA', 'A', 1, 0, 0, 0), atom_line(2, n2, 'ALA', 'B', 1, 3, 0, 0), atom_line(3, ' CA ', 'ALA', 'B', 2, 0, 3, 0),
                 atom_line(4, ' HA ', 'ALA', 'A', 2, 0, 0, 3)]
        out += option_cases(op, {'lines': lines}, ['A', 'B'], [3.0], 'corpus:filters-two-sides', extends)
    lines = [atom_line(1, ' CA ', 'ALA', 'A', 7, 0, 0, 0), atom_line(2, ' CB ', 'ALA', 'A', 7, 40, 0, 0), atom_line(3, ' CA ', 'GLY', 'A', 7, 80, 0, 0),
             atom_line(4, ' CA ', 'ALA', 'B', 7, 3, 0, 0), atom_line(5, ' O  ', 'ALA', 'B', 7, 90, 0, 0), atom_line(6, ' N  ', 'GLY', 'B', 7, 95, 0, 0),
             atom_line(7, ' CA ', 'ALA', 'C', -7, 0, 3, 0), atom_line(8, ' CB ', 'ALA', 'C', -7, 0, 60, 0)]
    out += option_cases(op, {'lines': lines}, ['A', 'B', 'C'], [3.0], 'corpus:residue-keys', extends)
    # no contact at all, for every option combination (two chains; three chains with allchains): the partner chain is far away
    far2 = [atom_line(1, ' CA ', 'ALA', 'A', 1, 0, 0, 0), atom_line(2, ' CB ', 'ALA', 'A', 1, 1, 0, 0), atom_line(3, ' CA ', 'GLY', 'B', 1, 100, 0, 0),
            atom_line(4, ' H  ', 'GLY', 'B', 1, 101, 0, 0)]
    out += option_cases(op, {'lines': far2}, ['A', 'B'], [5.0, 8.5], 'corpus:no-contact', extends)
    far3 = far2 + [atom_line(5, ' N  ', 'SER', 'C', 1, 0, 200, 0)]
    out += option_cases(op, {'lines': far3}, ['A', 'B', 'C'], [8.5], 'corpus:no-contact', extends)
    # atoms within the cutoff, but the filters remove every contacting atom (hydrogens only / side chain only on one side)
    onlyH = [atom_line(1, ' H  ', 'ALA', 'A', 1, 0, 0, 0), atom_line(2, ' HA ', 'ALA', 'A', 1, 0, 1, 0), atom_line(3, ' CB ', 'GLY', 'B', 1, 3, 0, 0),
             atom_line(4, ' CA ', 'GLY', 'B', 2, 60, 0, 0), atom_line(5, ' HB2', 'SER', 'C', 1, 0, 0, 3), atom_line(6, ' CG ', 'SER', 'C', 1, 0, 0, 4)]
    out += option_cases(op, {'lines': onlyH}, ['A', 'B', 'C'], [3.0, 5.0], 'corpus:filtered-out', extends)
    # long chains touching end to end: A and B on one line along a space diagonal / a face diagonal (their only contact is between the
    # last atom of A and the first atom of B, exactly on the cutoff resp. inside it, far from both chain centres); C runs beside A
    namesA, namesB, namesC = [' N  ', ' CB ', ' HA ', ' O  ', ' CA '], [' N  ', ' CA ', ' HB2', ' CG ', ' C  '], [' CA ', ' H  ', ' OG1', ' C  ']
    for d, offB, cut in (((1, 1, 1), (1, 2, 2), 3.0), ((1, -1, 0), (2, -2, 1), 5.0)):
        ext = [atom_line(k + 1, namesA[k], 'ALA', 'A', 1 + k // 2, 3 * k * d[0], 3 * k * d[1], 3 * k * d[2]) for k in range(5)]
        ext += [atom_line(k + 6, namesB[k], 'GLY', 'B', 1 + k // 2, 12 * d[0] + offB[0] + 3 * k * d[0], 12 * d[1] + offB[1] + 3 * k * d[1],
                          12 * d[2] + offB[2] + 3 * k * d[2]) for k in range(5)]
        out += option_cases(op, {'lines': list(ext)}, ['A', 'B'], [cut], 'corpus:end-to-end', extends)
        ext += [atom_line(k + 11, namesC[k], 'SER', 'C', 7, 3 * k * d[0] + 2, 3 * k * d[1] + 1, 3 * k * d[2] - 1) for k in range(4)]
        out += option_cases(op, {'lines': ext}, ['A', 'B', 'C'], [cut], 'corpus:end-to-end', extends, pair_limit=None)
    # the smallest histories: a call, chain B moved away (or back into contact) through each editing entry point, the same call again
    near = [atom_line(1, ' CA ', 'ALA', 'A', 1, 0, 0, 0), atom_line(2, ' CA ', 'GLY', 'B', 1, 3, 0, 0)]
    for how in EDITS:
        for vecs in ([[400, 0, 0]], [[400, 0, 0], [-400, 0, 0]]):
            for pairs in (False, True):
                call = {'kind': 'call', 'op': op, 'cutoff': rat(3.0), 'allchains': False, 'chain1': 'A', 'chain2': 'B', 'bb': False, 'noH': False,
                        'pairs': pairs, 'extend': extends[-1] if op == 'contact_atoms' else False}
                hist = [call]
                for v in vecs:
                    hist.append({'kind': 'edit', 'how': how, 'chain': 'B', 'vec': v})
                c = {k: v for k, v in call.items() if k != 'kind'}
                c.update({'lines': near, 'history': hist, 'family': 'corpus:history'})
                out.append(c)
    return out


# ----------------------------------------------------------------------------------------------------------------
# histories: one live object, calls alternating with edits of one chain through the public API
# ----------------------------------------------------------------------------------------------------------------



def random_call(rng, chains, call_ops, with_extend, cuts):
    op = rng.choice(call_ops)
    a, b = rng.sample(chains, 2)
    return {'kind': 'call', 'op': op, 'cutoff': rat(float(rng.choice(cuts))), 'allchains': rng.random() < 0.25, 'chain1': a, 'chain2': b,
            'bb': rng.random() < 0.3, 'noH': rng.random() < 0.4, 'pairs': rng.random() < 0.5,
            'extend': op == 'contact_atoms' and with_extend and rng.random() < 0.7}


def random_edit(rng, table, chains, target):
    """an edit of one chain, applied to the harness's own copy of the structure (`table`, quarter units) as well"""
    ch = rng.choice(chains)
    mine = [a for a in table if a['chain'] == ch]
    others = [a for a in table if a['chain'] != ch]
    r = rng.random()
    if r < 0.12:
        names = [pick_name(rng, blank_ok=False) for _ in mine]
        for a, n in zip(mine, names):
            a['name'] = n
        return {'kind': 'edit', 'how': 'rename', 'chain': ch, 'names': [n.strip() for n in names]}
    if r < 0.20:
        return {'kind': 'edit', 'how': 'rot_axis', 'chain': ch}          # inexact: such histories are protected by the 1e-6 band only
    if r < 0.35:
        vec = [rng.choice([-1, 1]) * 400, rng.randint(-8, 8), rng.randint(-8, 8)]      # far away: no contact any more
    else:
        a, b = rng.choice(mine), rng.choice(others)
        off, _ = pick_offset(rng, target if rng.random() < 0.8 else None)
        vec = [b['q'][i] + off[i] - a['q'][i] for i in range(3)]
    for a in mine:
        a['q'] = [a['q'][i] + vec[i] for i in range(3)]
    return {'kind': 'edit', 'how': rng.choice(EDITS), 'chain': ch, 'vec': vec}


def history_cases(ctx, ops, n_hist, family='history'):
    """`ops`: operations the calls are drawn from ('contact_atoms', 'contact_residues', and the flag 'extend').  One case per call of
    every history; the case carries the whole prefix (earlier calls and edits), which is replayed on a fresh object, so that every
    case is self-contained.  Model and Spec get the table read back from the object just before the call."""
    rng = ctx.rng
    out = []
    call_ops = [o for o in ops if o != 'extend']
    for _ in range(n_hist):
        target = rng.choice(CUTS)
        table = gen_structure(rng, nchains=rng.choice([2, 2, 3, 3, 4]), max_atoms=8, target_cutoff=target)
        lines = to_lines(table)
        chains = chains_of_lines(lines)
        cuts = [target, target, rng.choice(CUTS)]
        hist = []
        rotated = False
        nsteps = rng.randint(2, 4)
        last_call = None
        for k in range(nsteps):
            # a call
            r = rng.random()
            if last_call is not None and r < 0.2:
                call = dict(last_call)                                    # the identical call again
            elif last_call is not None and r < 0.45:
                call = dict(last_call)                                    # same options, other chain pair / cutoff
                call['chain1'], call['chain2'] = rng.sample(chains, 2)
                call['cutoff'] = rat(float(rng.choice(cuts)))
            else:
                call = random_call(rng, chains, call_ops, 'extend' in ops, cuts)
            c = {k2: v for k2, v in call.items() if k2 != 'kind'}
            c.update({'lines': lines, 'history': list(hist), 'family': family + (':after-rotation' if rotated else '') +
                      (':after-edit' if any(h['kind'] == 'edit' for h in hist) else ':no-edit-yet' if hist else ':first-call')})
            out.append(c)
            hist.append(call)
            last_call = call
            # an edit (not after the last call; sometimes none: consecutive calls on the unchanged object)
            if k < nsteps - 1 and rng.random() < 0.75:
                e = random_edit(rng, table, chains, target)
                rotated = rotated or e['how'] == 'rot_axis'
                hist.append(e)
    return out


def cases(ctx):
    out = structure_cases(ctx, 'contact_atoms', ctx.scale(36, 220))
    out += malformed_cases(ctx, 'contact_atoms', ctx.scale(6, 40))
    out += history_cases(ctx, ['contact_atoms', 'contact_residues'], ctx.scale(60, 600))
    out += file_cases(ctx, 'contact_atoms')
    out += extended_cases(ctx, 'contact_atoms', ctx.scale(8, 60))      # appended last: the cases above are unchanged for a given seed
    return out


# ----------------------------------------------------------------------------------------------------------------
# comparison
# ----------------------------------------------------------------------------------------------------------------

def near_boundary(c):
    try:
        return min_margin(c) < 1e-6
    except Exception:
        return False


def sort_values(o):
    if isinstance(o, dict) and ('pairs' in o or 'chains' in o):
        k = 'pairs' if 'pairs' in o else 'chains'
        try:
            return {k: [[e[0], sorted(e[1])] for e in o[k]]}
        except Exception:
            return o
    return o


def model_views(model):
    """the Model driver's answer: {'hand': hand-written model, 'gen': generated translation (sets iterated in insertion order),
    'gen_rev': the same with sets iterated in reverse (small tables with extend_to_residue)}; a bare value = the hand model only"""
    if isinstance(model, dict) and 'hand' in model and 'gen' in model:
        return [(k, model[k]) for k in ('hand', 'gen', 'gen_rev') if k in model]
    return [('hand', model)]


def agree_model(c, out, model):
    """implementation = hand model = generated translation"""
    try:
        views = model_views(model)
        bad = [(k, v) for k, v in views if out != v]
        if not bad:
            return True
        if near_boundary(c):
            return 'discard'
    except Exception as e:
        return f'comparison failed ({e!r}): implementation {json.dumps(out, default=str)[:300]}'
    names = {'hand': 'hand model (Model/Contacts.lean)', 'gen': 'generated translation (Gen/Contacts.lean)',
             'gen_rev': 'generated translation, sets iterated in reverse'}
    return f'implementation {json.dumps(out, default=str)[:300]} ' + ' '.join(f'{names[k]} {json.dumps(v, default=str)[:300]}' for k, v in bad)


def agree_spec(c, out, spec):
    try:
        if spec == 'NA':
            return True                      # outside what the property speaks about: compared with the Model only
        if isinstance(out, str):
            return f'implementation raised {out} on a case the property covers'
        if sort_values(out) == sort_values(spec):
            return True
        if near_boundary(c):
            return 'discard'
    except Exception as e:
        return f'comparison failed ({e!r}): implementation {json.dumps(out, default=str)[:300]}'
    return f'implementation {json.dumps(out, default=str)[:300]} property {json.dumps(spec, default=str)[:300]}'


def result_size(out):
    try:
        if isinstance(out, dict) and ('pairs' in out or 'chains' in out):
            k = 'pairs' if 'pairs' in out else 'chains'
            return sum(len(e[1]) for e in out[k])
    except Exception:
        pass
    return -1


def nontrivial_key(c, out):
    if result_size(out) == 0:
        return None
    return [c['pdb'] if 'pdb' in c else hashlib.sha1(struct_key(c).encode()).hexdigest()[:16], c['op'], c['cutoff'], c['allchains'], c['chain1'], c['chain2'],
            c['bb'], c['noH'], c['pairs'], c['extend']]


def distribution(recs):
    fam, res, opts = {}, {'empty': 0, 'nonempty': 0, 'exception': 0}, {}
    nch, on_cut = {}, 0
    seen = set()
    for r in recs:
        c = r['case']
        fam[c['family']] = fam.get(c['family'], 0) + 1
        s = result_size(r['impl'])
        res['exception' if s < 0 else 'empty' if s == 0 else 'nonempty'] += 1
        o = f"all={int(c['allchains'])} bb={int(c['bb'])} noH={int(c['noH'])} pairs={int(c['pairs'])} ext={int(c['extend'])}"
        opts[o] = opts.get(o, 0) + 1
        k = (struct_key(c), c['cutoff'])
        if k not in seen and 'lines' in c:
            seen.add(k)
            n = len(set(l[21] for l in c['lines']))
            nch[n] = nch.get(n, 0) + 1
            if exact_on_cutoff(c):
                on_cut += 1
    hist = {'calls_after_an_edit': 0, 'calls_repeated_without_edit': 0, 'edits': {}}
    for r in recs:
        h = r['case'].get('history')
        if h is None:
            continue
        if h and h[-1]['kind'] == 'edit':
            hist['calls_after_an_edit'] += 1
        elif h:
            hist['calls_repeated_without_edit'] += 1
        for st in h[-1:]:
            if st['kind'] == 'edit':
                hist['edits'][st['how']] = hist['edits'].get(st['how'], 0) + 1
    return {'families': fam, 'results': res, 'option_combinations': opts, 'structures_x_cutoffs_by_chain_count': nch,
            'structures_x_cutoffs_with_a_pair_exactly_on_the_cutoff': on_cut, 'histories': hist}


# ----------------------------------------------------------------------------------------------------------------
# search families (run against the Spec when a proof or the correspondence breaks)
# ----------------------------------------------------------------------------------------------------------------

def search_cases(ctx, op='contact_atoms', extends=(False,)):
    rng = ctx.rng
    out = []
    # exact at-cutoff pairs: two atoms, every cutoff, several exact vectors, one step inside / outside
    for c in CUTS:
        for v in rng.sample(EXACT[c], min(4, len(EXACT[c]))):
            for delta in (0, -1, 1):
                w = list(v)
                k = max(range(3), key=lambda i: w[i])
                w[k] += delta
                for n1, n2 in ((' CA ', ' CA '), (' CA ', ' H  '), (' HA ', ' CB '), ('1HB ', ' N  ')):
                    lines = [atom_line(1, n1, 'ALA', 'A', 1, 0, 0, 0), atom_line(2, n2, 'GLY', 'B', 1, w[0] / 4.0, w[1] / 4.0, w[2] / 4.0)]
                    out += option_cases(op, {'lines': lines}, ['A', 'B'], [c], 'search:at-cutoff', extends)
    # three-chain hubs: one atom in contact with atoms of two other chains
    for _ in range(ctx.scale(10, 60)):
        c = rng.choice(CUTS)
        hubname = rng.choice(NAMES_BB + NAMES_H)
        hub = {'chain': 'B', 'resSeq': 5, 'resName': 'LYS', 'name': hubname, 'q': [0, 0, 0]}
        table = [hub]
        for ch in rng.sample(['A', 'C', 'D'], rng.choice([2, 3])):
            for _k in range(rng.randint(1, 3)):
                off, _m = pick_offset(rng, c)
                table.append({'chain': ch, 'resSeq': rng.choice([5, 6]), 'resName': rng.choice(['LYS', 'ALA']), 'name': pick_name(rng), 'q': off})
        rng.shuffle(table)
        lines = to_lines(table)
        out += option_cases(op, {'lines': lines}, chains_of_lines(lines), [c], 'search:hub', extends)
    # filters differing on the two sides
    for n1, n2 in itertools.product([' CA ', ' CB ', ' H  ', '1HB ', '    '], repeat=2):
        lines = [atom_line(1, n1, 'ALA', 'A', 1, 0, 0, 0), atom_line(2, n2, 'ALA', 'B', 1, 3, 0, 0), atom_line(3, ' CA ', 'ALA', 'B', 2, 0, 3, 0),
                 atom_line(4, ' HA ', 'ALA', 'A', 2, 0, 0, 3)]
        out += option_cases(op, {'lines': lines}, ['A', 'B'], [3.0], 'search:filters-two-sides', extends)
    # residue keys differing only in name or chain
    lines = [atom_line(1, ' CA ', 'ALA', 'A', 7, 0, 0, 0), atom_line(2, ' CB ', 'ALA', 'A', 7, 40, 0, 0), atom_line(3, ' CA ', 'GLY', 'A', 7, 80, 0, 0),
             atom_line(4, ' CA ', 'ALA', 'B', 7, 3, 0, 0), atom_line(5, ' O  ', 'ALA', 'B', 7, 90, 0, 0), atom_line(6, ' N  ', 'GLY', 'B', 7, 95, 0, 0),
             atom_line(7, ' CA ', 'ALA', 'C', -7, 0, 3, 0), atom_line(8, ' CB ', 'ALA', 'C', -7, 0, 60, 0)]
    out += option_cases(op, {'lines': lines}, ['A', 'B', 'C'], [3.0, 5.0], 'search:residue-keys', extends)
    return out


# ----------------------------------------------------------------------------------------------------------------
# checks that are not case-by-case
# ----------------------------------------------------------------------------------------------------------------

def transpose(pm):
    t = {}
    for i, js in sorted(pm.items()):
        for j in js:
            t.setdefault(int(j), []).append(int(i))
    return t


def _relations(lines, cut, bb, noH):
    """swap / union / exactly-once relations between calls of the real code on one structure; {} when all hold"""
    bad = {}
    chains = sorted(set(l[21] for l in lines))
    db = interface(lines)
    kw = dict(cutoff=cut, only_backbone_atoms=bb, excludeH=noH)
    kwj = {'cutoff': float(cut), 'only_backbone_atoms': bb, 'excludeH': noH}
    two = {}
    for a, b in itertools.permutations(chains, 2):
        s = db.get_contact_atoms(chain1=a, chain2=b, **kw)
        p = db.get_contact_atoms(chain1=a, chain2=b, return_contact_pairs=True, **kw)
        two[(a, b)] = ({as_str(k): [as_int(x) for x in v] for k, v in s.items()}, {as_int(k): [as_int(x) for x in v] for k, v in p.items()})
    for a, b in itertools.combinations(chains, 2):
        sab, pab = two[(a, b)]
        sba, pba = two[(b, a)]
        if sab != sba or {k: sorted(v) for k, v in pba.items()} != {k: sorted(v) for k, v in transpose(pab).items()}:
            bad['swap'] = {'lines': lines, 'pair': [a, b], 'kw': kwj}
    sall = {as_str(k): [as_int(x) for x in v] for k, v in db.get_contact_atoms(allchains=True, **kw).items()}
    pall = {as_int(k): [as_int(x) for x in v] for k, v in db.get_contact_atoms(allchains=True, return_contact_pairs=True, **kw).items()}
    for x in chains:
        u = sorted(set(i for y in chains if y != x for i in two[(x, y)][0][x]))
        if sall.get(x) != u:
            bad['union'] = {'lines': lines, 'kw': kwj, 'chain': x, 'allchains': sall.get(x), 'union': u}
    merged = {}
    for a, b in itertools.combinations(chains, 2):
        for i, js in two[(a, b)][1].items():
            merged.setdefault(i, []).extend(js)
    if {k: sorted(v) for k, v in merged.items()} != {k: sorted(v) for k, v in pall.items()} or any(len(set(v)) != len(v) for v in pall.values()):
        bad['once'] = {'lines': lines, 'kw': kwj, 'allchains_pairs': pall, 'merged_two_chain': merged}
    db._close()
    return bad


def extra_checks(ctx):
    rng = ctx.rng
    res = []
    bad_swap = bad_union = bad_once = None
    n = ctx.scale(40, 400)
    for _ in range(n):
        table = gen_structure(rng)
        lines = to_lines(table)
        cut = rng.choice(CUTS)
        bb, noH = rng.random() < 0.5, rng.random() < 0.5
        try:
            r = _relations(lines, cut, bb, noH)
        except Exception as e:       # an unexpected return shape or an exception of the library is a finding, not a harness failure
            r = {'swap': {'lines': lines, 'cutoff': cut, 'bb': bb, 'noH': noH, 'raised': repr(e)[:300]}}
        bad_swap = bad_swap or r.get('swap')
        bad_union = bad_union or r.get('union')
        bad_once = bad_once or r.get('once')
    n_ext = ctx.scale(12, 120)
    for _ in range(n_ext):                     # the same relations on extended chains (cutoff small compared with the chains)
        cut = rng.choice([3.0, 5.0, 5.0, 8.5])
        table, _layout = gen_extended_structure(rng, cut, nchains=rng.choice([3, 3, 4, 5]))
        lines = to_lines(table)
        bb, noH = rng.random() < 0.3, rng.random() < 0.5
        try:
            r = _relations(lines, cut, bb, noH)
        except Exception as e:
            r = {'swap': {'lines': lines, 'cutoff': cut, 'bb': bb, 'noH': noH, 'raised': repr(e)[:300]}}
        bad_swap = bad_swap or r.get('swap')
        bad_union = bad_union or r.get('union')
        bad_once = bad_once or r.get('once')
    res.append({'name': f'swap transposes the pair map and keeps the sets ({n} random + {n_ext} extended-chain structures, real code only)', 'ok': bad_swap is None, 'case': bad_swap,
                'detail': 'pairs(B,A) != transpose(pairs(A,B)) or different per-chain sets'})
    res.append({'name': 'all-chains sets = union of the two-chain sets over the other chains', 'ok': bad_union is None, 'case': bad_union, 'detail': ''})
    res.append({'name': 'all-chains pair map = every pair of the two-chain maps (first-sorting chain first) exactly once', 'ok': bad_once is None,
                'case': bad_once, 'detail': ''})
    # the constants the Model takes from the source: default cutoffs and backbone names as the running library has them
    import inspect, vlib
    ans = vlib.run_driver([{'op': 'contact_defaults'}, {'op': 'backbone_names'}, {'op': 'gen_backbone_names'}], which='model', cluster='C')
    try:
        d_atoms = inspect.signature(interface.get_contact_atoms).parameters['cutoff'].default
        d_res = inspect.signature(interface.get_contact_residues).parameters['cutoff'].default
        probe = interface([atom_line(1, ' CA ', 'ALA', 'A', 1, 0, 0, 0)])
        lib = [d_atoms, d_res, list(probe.backbone_atoms)]
        ok = (ans[0]['model'] == {'atoms': rat(float(d_atoms)), 'residues': rat(float(d_res))} and ans[1]['model'] == list(probe.backbone_atoms) and ans[2]['model'] == list(probe.backbone_atoms)
              and sorted(probe.backbone_atoms) == sorted(BACKBONE))
    except Exception as e:
        ok, lib = False, repr(e)[:300]
    res.append({'name': 'generated constants (default cutoffs, backbone names) equal those of the running library and the published backbone names',
                'ok': ok, 'case': {'model': ans, 'library': lib}, 'detail': ''})
    # regression probe: blank atom name with excludeH (raised IndexError before the repair 01b6302)
    L = [atom_line(1, ' CA ', 'ALA', 'A', 1, 0, 0, 0), atom_line(2, '    ', 'ALA', 'B', 1, 1, 0, 0)]
    try:
        r = interface(L).get_contact_atoms(cutoff=3, excludeH=True)
        ok = canon_chains(r) == {'chains': [['A', [0]], ['B', [1]]]}
        det = repr(r)
    except Exception as e:
        ok, det = False, repr(e)
    res.append({'name': 'blank atom name with excludeH=True is an ordinary non-hydrogen atom', 'ok': ok, 'case': {'lines': L}, 'detail': det,
                'kind': 'blank_atom_name_excludeH'})
    return res


# ----------------------------------------------------------------------------------------------------------------
# binary64 vs exact decision: the theorems of Proofs/FloatMargin.lean (re-exported by Props/C05K.lean) sampled at their edge
# ----------------------------------------------------------------------------------------------------------------
#
#   contact_decision_eq      : |d² − c²| > 8·2⁻⁵³·c²  ->  (np.sqrt(np.sum((q − p)**2)) <= c)  ==  (d² ≤ c²),  d² exact on the DOUBLES
#   pdb_lattice_decision_eq  : three-decimal text coordinates, decimal cutoff n/1000: library decision == (Σ Δ² ≤ n²) in integers,
#                              unless Σ Δ² = n²
# Both are proved for every rounding `fl` meeting the IEEE round-to-nearest contract (`RoundOK`) and for the evaluation order
# fl(fl(sx+sy)+sz), sx = fl(fl(x₂−x₁)·fl(x₂−x₁)).  The checks below (a) compare that evaluation order with NumPy bit for bit,
# (b) run the REAL library on atom pairs whose doubles are just outside the proved margin (8u < |d²−c²|/c² ≤ 48u, both sides) and
# (c) on PDB text one to five lattice steps (10⁻⁶ Å²) off the cutoff with coordinates up to 9999.999, and require the library's
# decision to be the exact one.  Nothing here is discarded or tolerated: the theorem says the decisions are equal.

_FM_U = Fraction(1, 2 ** 53)
_FM_CUTS = [3.0, 5.0, 8.5, 10.0, 4.3, 6.0]          # the library's own cutoffs (3.0 5.0 8.5 10.0) and two others (4.3 is not a binary64 number)


def _fm_fl(fr):
    """round to nearest even binary64 of an exact rational (CPython's int/int division is correctly rounded)"""
    return Fraction(float(fr))


def _fm_model_radicand(p, q):
    """`fdist2` of Proofs/FloatMargin.lean, evaluated exactly: p, q triples of doubles"""
    sq = []
    for i in range(3):
        d = _fm_fl(Fraction(q[i]) - Fraction(p[i]))
        sq.append(_fm_fl(d * d))
    return _fm_fl(_fm_fl(sq[0] + sq[1]) + sq[2])


def _fm_d2(p, q):
    return sum((Fraction(q[i]) - Fraction(p[i])) ** 2 for i in range(3))


def _fm_gap(p, q, c):
    """(d² − c²) / (u·c²): the theorem decides when this is outside [-8, 8]"""
    c2 = Fraction(c) ** 2
    return (_fm_d2(p, q) - c2) / (_FM_U * c2)


def _fm_near_edge_pair(rng, c, side, base, lo=8, hi=48):
    """doubles p, q near `base` with lo < side·(d²−c²)/(u·c²) ≤ hi (exact arithmetic), or None"""
    import math
    for _ in range(60):
        scale = rng.choice([1.0, 8.0, 50.0, 500.0])
        p = [base[i] + rng.uniform(-scale, scale) for i in range(3)]
        v = [rng.gauss(0, 1) for _ in range(3)]
        n = math.sqrt(sum(t * t for t in v))
        if n < 1e-3:
            continue
        v = [t / n * c for t in v]
        q = [p[i] + v[i] for i in range(3)]
        k = max(range(3), key=lambda i: abs(v[i]))
        outward = math.inf if v[k] > 0 else -math.inf          # moving q[k] this way increases the distance
        for _step in range(400):
            g = _fm_gap(p, q, c)                                # > 0 outside the cutoff
            if (lo < g <= hi) if side > 0 else (-hi <= g < -lo):
                return p, q
            move_out = (g <= lo) if side > 0 else (g < -hi)
            q[k] = float(np.nextafter(q[k], outward if move_out else -outward))
    return None


def _fm_library_pairs(lines, xyz, cutoff):
    """set of (rowID chain A, rowID chain B) the REAL library reports; `xyz` (doubles, one triple per line) is written through the
    public API when given.  Returns (pairs, coordinates the object holds)"""
    db = interface(list(lines))
    try:
        if xyz is not None:
            rows = list(range(len(lines)))
            for k, col in enumerate('xyz'):
                db.update_column(col, [float(t[k]) for t in xyz], index=rows)
        held = [[float(v) for v in r] for r in db.get('x,y,z')]
        pm = db.get_contact_atoms(cutoff=cutoff, chain1='A', chain2='B', return_contact_pairs=True)
        pairs = set()
        for i, js in pm.items():
            for j in js:
                pairs.add((as_int(i), as_int(j)))
        return pairs, held
    finally:
        db._close()


def _fm_field(k):
    """the 8-column PDB field of k/1000, built from the integer (no float formatting involved)"""
    s = ('-' if k < 0 else '') + '%d.%03d' % (abs(k) // 1000, abs(k) % 1000)
    if len(s) > 8:
        raise ValueError('does not fit 8 columns: %r' % k)
    return s.rjust(8)


def _fm_text_lines(pts_a, pts_b):
    """two chains; coordinates in thousandths of an Angstrom (integers)"""
    lines = []
    for ch, pts in (('A', pts_a), ('B', pts_b)):
        for m, (i, j, k) in enumerate(pts):
            l = atom_line(len(lines) + 1, ' CA ', 'ALA', ch, m + 1, 0.0, 0.0, 0.0)
            lines.append(l[:30] + _fm_field(i) + _fm_field(j) + _fm_field(k) + l[54:])
    return lines


def _fm_lattice_offsets(rng, n, delta, want=6):
    """non-negative integer triples with a² + b² + c² = n² + delta"""
    T = n * n + delta
    b = np.arange(0, n + 2, dtype=np.int64)
    sols = []
    for a in rng.sample(range(0, n + 1), min(n + 1, 80)):
        r = T - a * a - b * b
        ok = r >= 0
        c0 = np.floor(np.sqrt(np.where(ok, r, 0).astype(np.float64))).astype(np.int64)
        for c in (c0, c0 + 1):
            for idx in np.nonzero(ok & (c * c == r))[0]:
                sols.append((int(a), int(b[idx]), int(c[idx])))
        if len(sols) >= want:
            break
    return sols


def _fm_check_numpy_order(ctx, rng):
    """NumPy's evaluation of the library's expression == `fdist2` (Fraction arithmetic, each operation rounded once), bit for bit;
    np.sqrt returns the nearest double"""
    n = ctx.scale(1500, 12000)
    bad = None
    rows_p, rows_q = [], []
    for _ in range(n):
        kind = rng.random()
        if kind < 0.4:            # doubles of three-decimal numbers, large magnitudes included
            m = rng.choice([10, 100, 9999])
            p = [rng.randint(-m * 1000, m * 1000) / 1000.0 for _i in range(3)]
            q = [p[i] + rng.randint(-12000, 12000) / 1000.0 for i in range(3)]
            q = [round(t, 3) for t in q]
        elif kind < 0.8:          # arbitrary doubles
            s = rng.choice([1.0, 30.0, 3000.0])
            p = [rng.uniform(-s, s) for _i in range(3)]
            q = [p[i] + rng.uniform(-10, 10) for i in range(3)]
        else:                     # coincident coordinates, tiny differences
            p = [rng.uniform(-50, 50) for _i in range(3)]
            q = [p[0], float(np.nextafter(p[1], np.inf)), p[2] + rng.choice([0.0, 1e-9, 3.0])]
        rows_p.append(p)
        rows_q.append(q)
    for k in range(n):
        p, q = rows_p[k], rows_q[k]
        # the expression of interface.py:125 (a block of rows against one x0) and of StructureSimilarity.py:454 (one pair)
        xyz2 = np.array([q, rows_q[(k + 1) % n], rows_q[(k + 2) % n]])
        s_rows = np.sum((xyz2 - np.array(p)) ** 2, 1)
        s_one = np.sum((np.array(q) - np.array(p)) ** 2)
        ref = _fm_model_radicand(p, q)
        if Fraction(float(s_rows[0])) != ref or Fraction(float(s_one)) != ref:
            bad = {'p': [rat(t) for t in p], 'q': [rat(t) for t in q], 'numpy_rows': rat(float(s_rows[0])), 'numpy_one': rat(float(s_one)),
                   'model': rat(float(ref))}
            break
        s = float(s_rows[0])
        r = float(np.sqrt(s))
        lo = (Fraction(r) + Fraction(float(np.nextafter(r, -np.inf)))) / 2
        hi = (Fraction(r) + Fraction(float(np.nextafter(r, np.inf)))) / 2
        if r < 0 or not ((lo <= 0 or lo * lo <= Fraction(s)) and Fraction(s) <= hi * hi):
            bad = {'sqrt_of': rat(s), 'numpy': rat(r)}
            break
    return {'name': f'binary64 evaluation of the contact expression = fdist2 of Proofs/FloatMargin.lean, bit for bit; np.sqrt correctly rounded ({n} rows)',
            'ok': bad is None, 'case': bad, 'detail': 'NumPy does not evaluate np.sum((q-p)**2) as fl(fl(sx+sy)+sz), sx=fl(fl(dx)*fl(dx)), or np.sqrt is not the nearest double'}


def _fm_check_double_edge(ctx, rng):
    """contact_decision_eq at its edge: doubles with 8u < |d²−c²|/c² ≤ 48u on both sides, through the real library"""
    nstruct = ctx.scale(8, 60)
    K = 12
    bad = None
    npairs = 0
    sides = {1: 0, -1: 0}
    for _s in range(nstruct):
        c = rng.choice(_FM_CUTS)
        A, B, want = [], [], []
        for k in range(K):
            side = rng.choice([1, -1])
            base = [rng.uniform(-20, 20), 60.0 * k, rng.uniform(-20, 20)]
            if rng.random() < 0.25:
                base[0] += rng.choice([-1, 1]) * rng.choice([900.0, 9000.0])
            pq = _fm_near_edge_pair(rng, c, side, base)
            if pq is None:
                continue
            if rng.random() < 0.5:
                pq = (pq[1], pq[0])
            A.append(pq[0]); B.append(pq[1]); want.append(side)
            sides[side] += 1
        if not A:
            continue
        lines = _fm_text_lines([(0, 0, 0)] * len(A), [(0, 0, 0)] * len(B))
        xyz = A + B
        expected = set()
        precondition = True
        for i, p in enumerate(A):
            for j, q in enumerate(B):
                g = _fm_gap(p, q, c)
                if abs(g) <= 8:
                    precondition = False
                if g <= 0:
                    expected.add((i, len(A) + j))
        npairs += len(A)
        try:
            got, held = _fm_library_pairs(lines, xyz, c)
            same_xyz = held == [[float(t) for t in r] for r in xyz]
        except Exception as e:
            bad = {'cutoff': c, 'raised': repr(e)[:300], 'xyz': [[rat(t) for t in r] for r in xyz]}
            break
        if not precondition or not same_xyz or got != expected:
            diff = sorted(got ^ expected)[:3]
            bad = {'cutoff': rat(c), 'xyz': [[rat(t) for t in r] for r in xyz], 'pairs_differing': diff,
                   'gap_in_units_of_u_c2': [float(_fm_gap(xyz[i], xyz[j], c)) for i, j in diff],
                   'coordinates_held_exactly': same_xyz, 'all_pairs_outside_margin': precondition}
            break
    return {'name': f'theorem contact_decision_eq at its edge: library decision = exact decision for doubles with 8u < |d2-c2|/c2 <= 48u '
                    f'({npairs} pairs in {nstruct} structures, outside {sides[1]} / inside {sides[-1]})',
            'ok': bad is None and npairs > 0, 'case': bad,
            'detail': 'the real get_contact_atoms decided a pair outside the proved margin differently from the exact rational test'}


def _fm_check_text_edge(ctx, rng):
    """pdb_lattice_decision_eq: PDB text with coordinates up to 9999.999, squared distance n² + δ·10⁻⁶ (δ = ±1..±5), decimal cutoff n/1000"""
    nstruct = ctx.scale(8, 60)
    K = 12
    bad = None
    npairs = 0
    sides = {1: 0, -1: 0}
    cache = {}
    for _s in range(nstruct):
        n = rng.choice([3000, 5000, 8500, 10000, 4300, 6000])
        c = n / 1000.0                                   # the double of the decimal cutoff
        bx = rng.choice([9999999 - rng.randint(0, 30000), rng.randint(-900000, 9900000), rng.randint(-20000, 20000)])
        bz = rng.choice([9999999 - rng.randint(0, 30000), rng.randint(-900000, 9900000), rng.randint(-20000, 20000)])
        A, B = [], []
        for k in range(K):
            delta = rng.choice([1, 2, 3, 5, -1, -2, -3, -5])
            if (n, delta) not in cache:
                cache[(n, delta)] = _fm_lattice_offsets(rng, n, delta)
            if not cache[(n, delta)]:
                continue                                 # n² + δ is not a sum of three squares
            off = list(rng.choice(cache[(n, delta)]))
            rng.shuffle(off)
            off = [t * rng.choice([-1, 1]) for t in off]
            p = [bx + rng.randint(-3000, 3000), 60000 * k + rng.randint(-3000, 3000), bz + rng.randint(-3000, 3000)]
            q = [p[i] + off[i] for i in range(3)]
            if any(not (-999999 <= t <= 9999999) for t in p + q):
                q = [p[i] - off[i] for i in range(3)]
            if any(not (-999999 <= t <= 9999999) for t in p + q):
                continue
            if rng.random() < 0.5:
                p, q = q, p
            A.append(tuple(p)); B.append(tuple(q))
            sides[1 if delta > 0 else -1] += 1
        if not A:
            continue
        lines = _fm_text_lines(A, B)
        expected = set()
        precondition = True
        for i, p in enumerate(A):
            for j, q in enumerate(B):
                N = sum((q[t] - p[t]) ** 2 for t in range(3))
                if N == n * n:
                    precondition = False
                if N <= n * n:
                    expected.add((i, len(A) + j))
        npairs += len(A)
        try:
            got, _held = _fm_library_pairs(lines, None, c)
        except Exception as e:
            bad = {'cutoff': c, 'raised': repr(e)[:300], 'lines': lines}
            break
        if not precondition or got != expected:
            bad = {'cutoff': c, 'lines': lines, 'pairs_differing': sorted(got ^ expected)[:3], 'no_pair_exactly_on_the_cutoff': precondition}
            break
    return {'name': f'theorem pdb_lattice_decision_eq: library decision on PDB text = integer comparison, squared distance 1-5 lattice steps (1e-6 A^2) '
                    f'off the cutoff, coordinates up to 9999.999 ({npairs} pairs in {nstruct} structures, outside {sides[1]} / inside {sides[-1]})',
            'ok': bad is None and npairs > 0, 'case': bad,
            'detail': 'the real get_contact_atoms decided a pair of three-decimal atoms off the cutoff differently from the integer comparison of the text digits'}


def float_margin_checks(ctx):
    import random
    rng = random.Random(ctx.rng.getrandbits(64))         # one draw from the seeded stream; the rest is derived from it
    out = []
    for f in (_fm_check_numpy_order, _fm_check_double_edge, _fm_check_text_edge):
        try:
            out.append(f(ctx, rng))
        except Exception as e:          # a crash of this harness code is reported as a failed check, never swallowed
            out.append({'name': f.__name__ + ' (float margin)', 'ok': False, 'case': None, 'detail': 'harness error ' + repr(e)[:300]})
    return out


_extra_checks_without_float_margin = extra_checks


def extra_checks(ctx):                  # noqa: F811  (extends the definition above; its results come first, unchanged)
    return _extra_checks_without_float_margin(ctx) + float_margin_checks(ctx)


ASSUMPTIONS = ASSUMPTIONS + [
    'binary64 vs exact decision: PROVED equal whenever |d2 - c2| > 8*2^-53*c2 (d2 exact on the doubles; Props/C05K.lean contact_decision_eq), and for '
    'three-decimal PDB text with a decimal cutoff whenever the squared text distance differs from the squared cutoff (pdb_lattice_decision_eq), for every '
    'rounding meeting the IEEE round-to-nearest contract RoundOK (monotone, exact on doubles, relative error 2^-53; no overflow/underflow) and the '
    'evaluation order fl(fl(sx+sy)+sz); that contract and order are compared with NumPy bit for bit on samples (extra_checks), not proved of the hardware; '
    'the comparison of cases above still discards real-file cases closer than 1e-6 to the cutoff (unchanged)']
